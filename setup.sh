#!/bin/sh
# MANIFEST.setup_cmd: builds the vpx driver (offline, nightly toolchain) and warms the dependency cache.
set -e
cd "$(dirname "$0")"
export CARGO_NET_OFFLINE=true
(cd vpx && cargo build --release --offline)
python3 - <<'PY'
import sys
sys.path.insert(0, '.')
from vplib import facts
facts.extract('W', quiet=False)
PY
