#!/usr/bin/env python3
"""Behaviour-preserving changes (not registered in MANIFEST): the checks must stay silent on them.

  neutraltool.py import <worktree> <prop>      copies <worktree>/OUT/neutral_*.diff + meta.json to /verif/neutral/<prop>-<k>/
  neutraltool.py check [<id> ...] [--tier quick|thorough]
                                               applies each stored patch to /repo, runs all 20 checks, prints every alarm
                                               (a false alarm, unless reading the patch shows it is not behaviour-preserving), undoes it
"""
import json
import os
import shutil
import subprocess
import sys

HERE = os.path.dirname(os.path.abspath(__file__))
NEU = os.path.join(HERE, "neutral")
REPO = os.environ.get("VP_REPO", "/repo")


def sh(cmd, cwd=None):
    p = subprocess.run(cmd, shell=True, cwd=cwd, env=dict(os.environ, CARGO_NET_OFFLINE="true"), stdout=subprocess.PIPE, stderr=subprocess.STDOUT, text=True)
    return p.returncode, p.stdout


def imp(wt, prop, tag="n"):
    out = os.path.join(wt, "OUT")
    meta = json.load(open(os.path.join(out, "meta.json")))
    for k, ch in enumerate(meta.get("changes", []), 1):
        f = os.path.join(out, ch.get("file", "neutral_%d.diff" % k))
        if not os.path.exists(f):
            print("missing", f)
            continue
        rc, o = sh("git apply --check %s" % f, cwd=wt)
        if rc != 0:
            print("does not apply:", f, o[-200:])
            continue
        d = os.path.join(NEU, "%s-%s%d" % (prop, tag, k))
        os.makedirs(d, exist_ok=True)
        shutil.copy(f, os.path.join(d, "patch.diff"))
        json.dump({"id": "%s-%s%d" % (prop, tag, k), "anchored_in": prop, "kind": ch.get("kind"), "summary": ch.get("summary"), "why_equivalent": ch.get("why_equivalent"),
                   "author": "independent sub-agent given only the property text and a scratch worktree of /repo; asked for behaviour-preserving refactorings",
                   "suite_passes_reported": ch.get("suite_passes")}, open(os.path.join(d, "meta.json"), "w"), indent=1, ensure_ascii=False)
        print("imported", d)


def check(ids, tier, only=None):
    st = subprocess.run(["git", "-C", REPO, "status", "--porcelain"], capture_output=True, text=True).stdout.strip()
    if st:
        print("refusing: /repo is not clean")
        sys.exit(2)
    props = [c["property_id"] for c in json.load(open(os.path.join(HERE, "MANIFEST.json")))["checks"]]
    if only:
        props = [p for p in props if p in only]
    ids = ids or sorted(os.listdir(NEU))
    bad = 0
    for nid in ids:
        d = os.path.join(NEU, nid)
        rc, o = sh("git -C %s apply %s" % (REPO, os.path.join(d, "patch.diff")))
        if rc != 0:
            print(nid, "PATCH DOES NOT APPLY", o[-200:])
            continue
        try:
            alarms = {}
            for p in props:
                rc, o = sh("%s/vcheck %s --tier %s" % (HERE, p, tier), cwd=HERE)
                if rc != 0:
                    alarms[p] = [l.split("instance ")[1].strip() for l in o.splitlines() if "instance " in l][:5] or [o[-300:]]
            print("%-10s %s" % (nid, "silent" if not alarms else "ALARM %s" % alarms))
            bad += bool(alarms)
        finally:
            sh("git -C %s checkout -- ." % REPO)
    print("neutral changes with alarms: %d of %d" % (bad, len(ids)))


if __name__ == "__main__":
    a = sys.argv[1:]
    if a and a[0] == "import":
        imp(a[1], a[2], a[3] if len(a) > 3 else "n")
    elif a and a[0] == "check":
        tier = a[a.index("--tier") + 1] if "--tier" in a else "quick"
        only = a[a.index("--props") + 1].split(",") if "--props" in a else None
        check([x for x in a[1:] if not x.startswith("--") and x not in ("quick", "thorough") and not (only and x == ",".join(only))], tier, only)
    else:
        print(__doc__)
