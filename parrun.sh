#!/bin/bash
# development helper: run `neutraltool.py check` / `seedtool.py detect` over many patches in N parallel lanes,
# each lane on its own scratch worktree of /repo under /tmp/lanes (removed afterwards) with its own build directory.
# usage: parrun.sh neutral|seeded N [ids...]
kind=$1; n=$2; shift 2
cd /verif
ids=("$@")
if [ ${#ids[@]} -eq 0 ]; then ids=($(ls $kind)); fi
mkdir -p /tmp/lanes
for k in $(seq 1 $n); do
  git -C /repo worktree add --detach /tmp/lanes/l$k HEAD -q 2>/dev/null
done
for k in $(seq 1 $n); do
  sub=()
  for i in "${!ids[@]}"; do if [ $((i % n + 1)) -eq $k ]; then sub+=("${ids[$i]}"); fi; done
  if [ "$kind" = neutral ]; then
    ( VP_REPO=/tmp/lanes/l$k VP_LANE=-l$k python3 neutraltool.py check "${sub[@]}" > .cache/par_$k.txt 2>&1 ) &
  else
    ( VP_REPO=/tmp/lanes/l$k VP_LANE=-l$k python3 seedtool.py detect "${sub[@]}" $EXTRA > .cache/par_$k.txt 2>&1 ) &
  fi
done
wait
cat .cache/par_[0-9].txt | grep -v "^neutral changes" | sort
for k in $(seq 1 $n); do git -C /repo worktree remove --force /tmp/lanes/l$k; done
rm -rf /tmp/lanes
