use vaporetto::{Sentence, SolverType, Trainer};

// D8: a corpus without any word boundary makes Trainer::train panic
#[test]
fn d8_corpus_without_word_boundary() {
    let corpus = ["これ", "それ"];
    let sents: Vec<_> = corpus.iter().map(|l| Sentence::from_tokenized(l).unwrap()).collect();
    let mut trainer = Trainer::new(2, 2, 2, 2, vec![], 0, &[]).unwrap();
    for s in &sents {
        trainer.add_example(s);
    }
    let r = std::panic::catch_unwind(std::panic::AssertUnwindSafe(|| {
        trainer.train(0.01, 1.0, SolverType::L2RegularizedL2LossSVC).is_err()
    }));
    assert_eq!(Some(true), r.ok(), "training a corpus without word boundaries must return an error, not panic");
}
