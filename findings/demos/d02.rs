use vaporetto::Sentence;

// D2: write_partial_annotation_text writes tags raw although the parser treats
// '/', '-', '|', ' ' and '\\' as syntax in annotation context
#[test]
fn d2_partial_annotation_tags_are_escaped() {
    let s = Sentence::from_tokenized("火星/名詞-普通名詞 猫/a\\/b").unwrap();
    let mut buf = String::new();
    s.write_partial_annotation_text(&mut buf);
    let t = Sentence::from_partial_annotation(&buf).expect("written text must be accepted by the parser");
    assert_eq!(s.as_raw_text(), t.as_raw_text());
    assert_eq!(s.boundaries(), t.boundaries());
    assert_eq!(s.tags(), t.tags());
}
