#!/bin/sh
# D10/D11 demonstration against the real predict binary (run in /repo after `cargo build -p predict`)
M=vaporetto_tantivy/test_model/model.zst
echo "D10: --no-norm --scores (score block must follow the newline, as in normalising mode)"
printf '火星猫\n' | ./target/debug/predict --model $M --no-norm --scores 2>/dev/null | head -3
echo "D11a: --tag-scores without --predict-tags (pre-fix: panic in Token::tag_candidates)"
printf '火星猫\n' | ./target/debug/predict --model $M --tag-scores 2>&1 | grep -E "panicked|required" | head -2
echo "D11b: --tag-scores --predict-tags with an empty first line (pre-fix: panic)"
zstd -q -f resources/model.bin -o /tmp/model_tags.zst
printf '\n火星猫\n' | ./target/debug/predict --model /tmp/model_tags.zst --tag-scores --predict-tags 2>&1 | grep -vE "Loading|Start|Elapsed" | head -6
