use vaporetto::Sentence;

// D1: two consecutive segments containing an unknown boundary make the token iterator
// re-base a slice-relative index on an already advanced start
#[test]
fn d1_token_iterator_rebasing() {
    let s = Sentence::from_partial_annotation("a b|c d|e|f").unwrap();
    let toks: Vec<(usize, usize, String)> = s
        .iter_tokens()
        .map(|t| (t.start(), t.end(), t.surface().to_string()))
        .collect();
    assert_eq!(vec![(4, 5, "e".to_string()), (5, 6, "f".to_string())], toks);
}
