use vaporetto::Sentence;

// D15: a tokenized text consisting only of an escape character yields an empty sentence:
// the parser accepts it and the constructor divides by char_types.len() == 0
#[test]
fn d15_from_tokenized_lone_escape() {
    let r = std::panic::catch_unwind(|| Sentence::from_tokenized("\\").is_err());
    assert_eq!(Some(true), r.ok(), "from_tokenized(\"\\\\\") must return an error, not panic");
    let mut s = Sentence::default();
    let r = std::panic::catch_unwind(std::panic::AssertUnwindSafe(|| s.update_tokenized("\\").is_err()));
    assert_eq!(Some(true), r.ok(), "update_tokenized(\"\\\\\") must return an error, not panic");
}
