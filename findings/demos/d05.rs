use vaporetto::Model;

// D5: Model::read_slice indexes the input before checking its length
#[test]
fn d5_read_slice_short_input() {
    for input in [&b""[..], &b"Vapor"[..], &b"VaporettoTokenizer 0.5.0"[..]] {
        let r = std::panic::catch_unwind(|| Model::read_slice(input).is_err());
        assert_eq!(Some(true), r.ok(), "read_slice({:?}) must return Err, not panic", input);
    }
}
