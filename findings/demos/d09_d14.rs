use vaporetto::{Model, Predictor, Sentence, SolverType, Trainer};

// D9: tag n-grams reaching further than the window make Predictor::new panic
#[test]
fn d9_tag_ngram_longer_than_window() {
    let corpus = [
        "これ/代名詞 は/助詞 テスト/名詞 です/助動詞",
        "それ/代名詞 も/助詞 テスト/動詞 だ/助動詞",
        "火星/名詞 は/名詞 ネコ/名詞 です/名詞",
        "これ/名詞 も/副詞 テスト/名詞 だ/名詞",
    ];
    let sents: Vec<_> = corpus.iter().map(|l| Sentence::from_tokenized(l).unwrap()).collect();
    let mut trainer = Trainer::new(1, 3, 1, 3, vec![], 0, &[]).unwrap();
    for s in &sents {
        trainer.add_example(s);
    }
    let model = trainer.train(0.01, 1.0, SolverType::L2RegularizedL2LossSVC).unwrap();
    let bytes = model.to_vec().unwrap();
    let (model, _) = Model::read_slice(&bytes).unwrap();
    let r = std::panic::catch_unwind(|| Predictor::new(model, true).is_ok());
    assert_eq!(Some(true), r.ok(), "Predictor::new must accept a model produced by the trainer");
}

// D14: with score storing enabled but a model without tag models, fill_tags leaves the
// tag score storage unprepared and Token::tag_candidates() panics
#[test]
fn d14_tag_candidates_without_tag_models() {
    let f = std::fs::File::open("/repo/resources/model.bin").unwrap();
    let model = Model::read(f).unwrap();
    // strip the tag models by round-tripping through a KyTea-less path: build a predictor with
    // tag prediction on a model that has none
    let corpus = ["これ は テスト です", "それ も テスト だ"];
    let sents: Vec<_> = corpus.iter().map(|l| Sentence::from_tokenized(l).unwrap()).collect();
    let mut trainer = Trainer::new(2, 2, 2, 2, vec![], 0, &[]).unwrap();
    for s in &sents {
        trainer.add_example(s);
    }
    let tagless = trainer.train(0.01, 1.0, SolverType::L2RegularizedL2LossSVC).unwrap();
    assert!(tagless.tag_models().is_empty());
    drop(model);
    let mut p = Predictor::new(tagless, true).unwrap();
    p.store_tag_scores(true);
    let mut s = Sentence::from_raw("これはテストです").unwrap();
    p.predict(&mut s);
    s.fill_tags();
    let r = std::panic::catch_unwind(std::panic::AssertUnwindSafe(|| {
        s.iter_tokens().map(|t| t.tag_candidates().len()).sum::<usize>()
    }));
    assert_eq!(Some(0), r.ok(), "tag_candidates() must report no candidates instead of panicking");
}
