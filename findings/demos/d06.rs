use vaporetto::{Sentence, SolverType, Trainer};

// D6: the type n-gram arm of Trainer::train uses the *character* window size
#[test]
fn d6_type_window_larger_than_char_window() {
    let corpus = ["これ は テスト です", "それ も テスト だ", "火星 猫 は ネコ です"];
    let sents: Vec<_> = corpus.iter().map(|l| Sentence::from_tokenized(l).unwrap()).collect();
    let mut trainer = Trainer::new(2, 2, 3, 3, vec![], 0, &[]).unwrap();
    for s in &sents {
        trainer.add_example(s);
    }
    let r = std::panic::catch_unwind(std::panic::AssertUnwindSafe(|| {
        trainer.train(0.01, 1.0, SolverType::L2RegularizedL2LossSVC)
    }));
    assert!(r.is_ok(), "Trainer::train panicked for char window 2 / type window 3");
}
