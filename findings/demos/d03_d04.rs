use vaporetto::{Model, Predictor, Sentence};

// D3: update_raw clears `tags` but keeps `n_tags`
#[test]
fn d3_update_raw_keeps_n_tags() {
    let mut s = Sentence::default();
    s.update_tokenized("a/x b").unwrap();
    s.update_raw("ab").unwrap();
    assert_eq!(0, s.n_tags());
    let mut buf = String::new();
    s.write_partial_annotation_text(&mut buf); // panics on the unfixed tree
    assert_eq!("a b", buf);
}

// D4: tag_scores of a previous prediction survive update_raw
#[test]
fn d4_stale_tag_scores() {
    let f = std::fs::File::open("/repo/resources/model.bin").unwrap();
    let model = Model::read(f).unwrap();
    let mut p = Predictor::new(model, true).unwrap();
    p.store_tag_scores(true);
    let f = std::fs::File::open("/repo/resources/model.bin").unwrap();
    let model = Model::read(f).unwrap();
    let q = Predictor::new(model, true).unwrap(); // no score storing

    let mut s = Sentence::default();
    s.update_raw("まぁ社長は火星猫だ").unwrap();
    p.predict(&mut s);
    s.fill_tags();
    let first: Vec<_> = s.iter_tokens().map(|t| t.tag_candidates()).collect();
    assert!(!first[0].is_empty());

    // reuse the sentence with a predictor that does NOT store scores: nothing may be left over
    s.update_raw("火星").unwrap();
    q.predict(&mut s);
    let t = s.iter_tokens().next().unwrap();
    let r = std::panic::catch_unwind(std::panic::AssertUnwindSafe(|| t.tag_candidates()));
    // a fresh sentence panics here ("store_tag_scores() must be set"); a reused one must behave the same
    let mut fresh = Sentence::from_raw("火星").unwrap();
    q.predict(&mut fresh);
    let tf = fresh.iter_tokens().next().unwrap();
    let rf = std::panic::catch_unwind(std::panic::AssertUnwindSafe(|| tf.tag_candidates()));
    assert_eq!(r.is_err(), rf.is_err(), "reused sentence returns stale candidates: {:?}", r.ok());
}
