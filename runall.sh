#!/bin/sh
# runs every claimed check (quick tier by default) and summarises; not registered in MANIFEST
cd "$(dirname "$0")"
tier=${1:-quick}
rc=0
for p in $(python3 -c "import json;print(' '.join(c['property_id'] for c in json.load(open('MANIFEST.json'))['checks']))"); do
  ./vcheck $p --tier $tier | tail -1 || rc=1
done
exit $rc
