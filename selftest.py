#!/usr/bin/env python3
"""Mutation self-test of the rules (not registered in MANIFEST).

Each mutant is a textual edit of /repo's working tree that still compiles; the named check must
report a violation whose key contains the expected fragment; the edit is undone afterwards
(git checkout).  `--neutral` mutants are behaviour-preserving edits that must NOT alarm.

usage: ./selftest.py [Cxx ...] [--only <mutant id>] [--list]
"""
import json
import os
import subprocess
import sys

REPO = "/repo"
HERE = os.path.dirname(os.path.abspath(__file__))

M = []


def mut(mid, prop, path, old, new, expect, neutral=False, count=1):
    M.append(dict(id=mid, prop=prop, path=path, old=old, new=new, expect=expect, neutral=neutral, count=count))


S = "vaporetto/src/sentence.rs"
PR = "vaporetto/src/predictor.rs"

# ---- C01
mut("c01-ge0", "C01", PR, "if *s > 0 {", "if *s >= 0 {", "R01.1:case(score zero)")
mut("c01-fill0", "C01", PR, "            self.data.bias,\n        );\n        if let Some(scorer) = self.data.char_scorer", "            0,\n        );\n        if let Some(scorer) = self.data.char_scorer", "R01.2:fill-is-bias")
mut("c01-droptype", "C01", PR, "        if let Some(scorer) = self.data.type_scorer.as_ref() {\n            scorer.add_scores(sentence);\n        }\n        for (b, s)", "        for (b, s)", "R01.3:")
mut("c01-overlap", "C01", "vaporetto/src/type_scorer/boundary_scorer.rs", ".find_overlapping_no_suffix_iter(&sentence.char_types)", ".find_overlapping_iter(&sentence.char_types)", "R01.4:")
mut("c01-minus1", "C01", "vaporetto/src/type_scorer/boundary_scorer.rs", "(m.end() + sentence.score_padding - 1) as isize", "(m.end() + sentence.score_padding) as isize", "R01.5:TypeScorerBoundary:position")
mut("c01-padding", "C01", PR, "sentence.score_padding = WEIGHT_FIXED_LEN - 1;", "sentence.score_padding = WEIGHT_FIXED_LEN - 2;", "R01.2:padding")
mut("c01-offset", "C01", "vaporetto/src/char_scorer/boundary_scorer.rs", "PositionalWeight::new(-i16::from(window_size), d.weights)", "PositionalWeight::new(-i16::from(window_size) + 1, d.weights)", "R01.5:CharScorerBoundary:offset")
mut("c01-neutral-swap", "C01", PR, "if *s > 0 {", "if 0 < *s {", "", neutral=True)
mut("c01-neutral-ge1", "C01", PR, "if *s > 0 {", "if *s >= 1 {", "", neutral=True)
mut("c01-neutral-ispos", "C01", PR, "if *s > 0 {", "if s.is_positive() {", "", neutral=True)
# ---- C02
mut("c02-i", "C02", S, "self.token.end += i + 1;", "self.token.end += i;", "R02.2:step:end")
mut("c02-d1", "C02", S, "self.token.start = self.token.end + i + 1;", "self.token.start += i + 1;", "R02.2:step:start")
mut("c02-dropskip", "C02", S, "                        self.token.start = self.token.end + i + 1;\n                        skip_token = false;", "                        self.token.start = self.token.end + i + 1;", "R02.1:case(WordBoundary,skip=True)")
mut("c02-swap", "C02", S, "                if b == CharacterBoundary::WordBoundary {\n                    if skip_token {", "                if b == CharacterBoundary::Unknown {\n                    if skip_token {", "R02.1:case(")
mut("c02-last", "C02", S, "        self.token.end = self.token.sentence.boundaries().len() + 1;\n        Some(self.token)", "        self.token.end = self.token.sentence.boundaries().len();\n        Some(self.token)", "R02.2:final:end")
mut("c02-neutral-assign", "C02", S, "self.token.end += i + 1;", "self.token.end = self.token.end + 1 + i;", "", neutral=True)
# ---- C05
mut("c05-padding", "C05", S, "        self.boundary_scores.clear();\n        self.score_padding = 0;\n        self.char_pma_states.clear();\n        self.type_pma_states.clear();\n        self.predictor.take();\n        #[cfg(feature = \"tag-prediction\")]\n        self.tag_scores.clear();\n        self.n_tags = self.tags.len() / self.char_types.len();",
    "        self.boundary_scores.clear();\n        self.char_pma_states.clear();\n        self.type_pma_states.clear();\n        self.predictor.take();\n        #[cfg(feature = \"tag-prediction\")]\n        self.tag_scores.clear();\n        self.n_tags = self.tags.len() / self.char_types.len();", "R05.1:update_tokenized:score_padding", count=2)
mut("c05-d3", "C05", S, "        self.tags.clear();\n        #[cfg(feature = \"tag-prediction\")]\n        self.tag_scores.clear();\n        self.n_tags = 0;\n        Ok(())", "        self.tags.clear();\n        #[cfg(feature = \"tag-prediction\")]\n        self.tag_scores.clear();\n        Ok(())", "R05.1:update_raw:n_tags")
mut("c05-noreset", "C05", S, "        ) {\n            self.set_default();\n            return Err(e);\n        }\n        self.boundary_scores.clear();\n        self.score_padding = 0;\n        self.char_pma_states.clear();\n        self.type_pma_states.clear();\n        self.predictor.take();\n        self.tags.clear();", "        ) {\n            return Err(e);\n        }\n        self.boundary_scores.clear();\n        self.score_padding = 0;\n        self.char_pma_states.clear();\n        self.type_pma_states.clear();\n        self.predictor.take();\n        self.tags.clear();", "R05.2:update_raw:err-path-resets")
mut("c05-resettags", "C05", S, "        self.tags.resize(n_tags * self.len(), None);\n        self.n_tags = n_tags;", "        self.tags.resize(n_tags * self.len(), None);", "R05.3:reset_tags")


def run_one(m):
    p = os.path.join(REPO, m["path"])
    src = open(p).read()
    if src.count(m["old"]) < 1 or (m["count"] == 1 and src.count(m["old"]) != 1):
        return "SKIP(anchor text occurs %d times)" % src.count(m["old"])
    try:
        open(p, "w").write(src.replace(m["old"], m["new"], 1))
        r = subprocess.run([os.path.join(HERE, "vcheck"), m["prop"]], capture_output=True, text=True)
        out = r.stdout + r.stderr
        keys0 = [l.split("instance ")[1].strip() for l in out.splitlines() if "instance " in l]
        if "fact extraction failed" in out and not (m["expect"] and any(m["expect"] in k for k in keys0)):
            return "BROKEN-MUTANT (does not compile)"
        if m["neutral"]:
            return "ok (silent)" if r.returncode == 0 else "FALSE-ALARM:\n" + out[-1500:]
        if r.returncode == 0:
            return "MISSED"
        keys = [l.split("instance ")[1].strip() for l in out.splitlines() if "instance " in l]
        if any(m["expect"] in k for k in keys):
            return "ok (caught: %s)" % ", ".join(k for k in keys if m["expect"] in k)[:160]
        return "caught-by-other-key: %s" % keys[:4]
    finally:
        open(p, "w").write(src)


def main():
    args = [a for a in sys.argv[1:] if not a.startswith("--")]
    only = None
    if "--only" in sys.argv:
        only = sys.argv[sys.argv.index("--only") + 1]
        args = [a for a in args if a != only]
    for path in (
        "selftest_c06.py", "selftest_more.py",
    ):
        fp = os.path.join(HERE, path)
        if os.path.exists(fp):
            exec(compile(open(fp).read(), fp, "exec"), globals())
    if "--list" in sys.argv:
        for m in M:
            print(m["id"], m["prop"], "neutral" if m["neutral"] else m["expect"])
        return
    st = subprocess.run(["git", "-C", REPO, "status", "--porcelain"], capture_output=True, text=True).stdout.strip()
    if st:
        print("refusing to run: /repo working tree is not clean:\n" + st)
        sys.exit(2)
    bad = 0
    for m in M:
        if args and m["prop"] not in args:
            continue
        if only and m["id"] != only:
            continue
        res = run_one(m)
        print("%-22s %-4s %s" % (m["id"], m["prop"], res))
        if not res.startswith("ok"):
            bad += 1
    subprocess.run(["git", "-C", REPO, "checkout", "--", "."])
    print("selftest: %d problem(s)" % bad)
    sys.exit(1 if bad else 0)


if __name__ == "__main__":
    main()
