"""Fact extraction (E1 driver invocation, caching) and the in-memory fact model.

Nothing of vaporetto is executed: `cargo +nightly check` type-checks and lowers /repo's
current working tree under the vpx driver, which dumps items + MIR as JSON.
"""
import fcntl
import glob
import hashlib
import json
import os
import shutil
import subprocess
import sys
import time

VERIF = os.path.dirname(os.path.dirname(os.path.abspath(__file__)))
REPO = os.environ.get("VP_REPO", "/repo")
CACHE = os.path.join(VERIF, ".cache")
VPX = os.path.join(VERIF, "vpx", "target", "release", "vpx")
MEMBERS = ["vaporetto", "vaporetto_rules", "vaporetto_tantivy", "manipulate_model",
           "predict", "train", "evaluate", "convert_kytea_model"]
RUSTFLAGS = "-Zmir-opt-level=0 -Cdebug-assertions=off -Coverflow-checks=off -Awarnings"

OPT_FEATURES = ["cache-type-score", "fix-weight-length", "charwise-pma", "tag-prediction", "std"]


class ExtractionError(Exception):
    pass


def _sysroot():
    return subprocess.check_output(["rustc", "+nightly", "--print", "sysroot"], text=True).strip()


def repo_digest(repo=REPO):
    h = hashlib.sha256()
    skip_dirs = {"target", ".git", "figures"}
    for root, dirs, files in os.walk(repo):
        dirs[:] = sorted(d for d in dirs if d not in skip_dirs)
        for f in sorted(files):
            p = os.path.join(root, f)
            if not (f.endswith(".rs") or f.endswith(".toml") or f == "Cargo.lock"):
                continue
            h.update(os.path.relpath(p, repo).encode())
            h.update(b"\0")
            try:
                with open(p, "rb") as fh:
                    h.update(fh.read())
            except OSError:
                h.update(b"<unreadable>")
            h.update(b"\0")
    try:
        with open(VPX, "rb") as fh:
            h.update(hashlib.sha256(fh.read()).digest())
    except OSError:
        pass
    return h.hexdigest()[:20]


def config_args(config):
    """config 'W' = whole workspace; 'F:<comma list>' = vaporetto alone with alloc + listed features."""
    if config == "W":
        return ["--workspace"], ["vaporetto", "vaporetto_rules", "vaporetto_tantivy", "manipulate_model",
                                 "predict", "train", "evaluate", "convert_kytea_model"]
    if config.startswith("F:"):
        feats = [f for f in config[2:].split(",") if f]
        return ["-p", "vaporetto", "--no-default-features", "--features", ",".join(["alloc"] + feats)], ["vaporetto"]
    raise ValueError(config)


def all_feature_configs(with_simd=False):
    out = []
    n = len(OPT_FEATURES)
    for mask in range(1 << n):
        feats = [OPT_FEATURES[i] for i in range(n) if mask >> i & 1]
        out.append("F:" + ",".join(feats))
    if with_simd:
        out.append("F:" + ",".join(OPT_FEATURES + ["portable-simd"]))
    return out


def extract(config="W", repo=REPO, quiet=True):
    """Returns the directory with the fact files for (repo tree, config); extracts if absent."""
    if not os.path.exists(VPX):
        raise ExtractionError("vpx driver not built: run MANIFEST.setup_cmd (./setup.sh)")
    digest = repo_digest(repo)
    cname = config.replace(":", "_").replace(",", "+") or "none"
    out = os.path.join(CACHE, "facts", digest, cname)
    done = os.path.join(out, "DONE")
    if os.path.exists(done):
        return out
    os.makedirs(os.path.join(CACHE, "facts"), exist_ok=True)
    lane = os.environ.get("VP_LANE", "")   # development only: parallel lanes on scratch copies use separate build directories
    lock_path = os.path.join(CACHE, "extract%s.lock" % lane)
    with open(lock_path, "w") as lock:
        fcntl.flock(lock, fcntl.LOCK_EX)
        if os.path.exists(done):
            return out
        if os.path.exists(out):
            shutil.rmtree(out)
        os.makedirs(out)
        target = os.path.join(CACHE, "target" + lane)
        # cargo's freshness cache must not skip the wrapper for workspace members
        for m in MEMBERS:
            for fp in glob.glob(os.path.join(target, "debug", ".fingerprint", m + "-*")):
                shutil.rmtree(fp, ignore_errors=True)
        args, expected = config_args(config)
        env = dict(os.environ)
        env.update({
            "LD_LIBRARY_PATH": os.path.join(_sysroot(), "lib"),
            "RUSTFLAGS": RUSTFLAGS,
            "RUSTC_WORKSPACE_WRAPPER": VPX,
            "VPX_OUT": out,
            "CARGO_TARGET_DIR": target,
            "CARGO_NET_OFFLINE": "true",
        })
        env.pop("RUSTC_WRAPPER", None)
        t0 = time.time()
        cmd = ["cargo", "+nightly", "check", "--offline"] + args
        p = subprocess.run(cmd, cwd=repo, env=env, stdout=subprocess.PIPE, stderr=subprocess.STDOUT, text=True)
        if p.returncode != 0 and "error[E" not in p.stdout and "error: could not compile" not in p.stdout:
            # not a compile error of the tree (resource contention with other builds on the machine): one retry
            time.sleep(2)
            p = subprocess.run(cmd, cwd=repo, env=env, stdout=subprocess.PIPE, stderr=subprocess.STDOUT, text=True)
        if p.returncode != 0:
            shutil.rmtree(out, ignore_errors=True)
            raise ExtractionError("cargo check failed for config %s:\n%s" % (config, p.stdout[-4000:]))
        have = {os.path.basename(f).split("-")[0] for f in glob.glob(os.path.join(out, "*.json"))}
        missing = [c for c in expected if c not in have]
        if missing:
            shutil.rmtree(out, ignore_errors=True)
            raise ExtractionError("no fact file for crates %s in config %s (driver skipped?)" % (missing, config))
        with open(done, "w") as f:
            json.dump({"config": config, "digest": digest, "wall_s": time.time() - t0, "cmd": cmd}, f)
        if not quiet:
            print("extracted %s in %.1fs" % (config, time.time() - t0), file=sys.stderr)
        _gc_cache(digest)
    return out


def _gc_cache(keep_digest, max_keep=24):
    root = os.path.join(CACHE, "facts")
    ds = [d for d in os.listdir(root) if os.path.isdir(os.path.join(root, d)) and d != keep_digest]
    ds.sort(key=lambda d: os.path.getmtime(os.path.join(root, d)))
    for d in ds[:-max_keep] if len(ds) > max_keep else []:
        shutil.rmtree(os.path.join(root, d), ignore_errors=True)


# ------------------------------------------------------------------------------------------------
# fact model
# ------------------------------------------------------------------------------------------------

class Body:
    def __init__(self, j, crate):
        self.j = j
        self.crate = crate
        self.fn = j["fn"]
        self.promoted = j["promoted"]
        self.span = j["span"]
        self.arg_count = j["arg_count"]
        self.locals = j["locals"]
        self.blocks = j["blocks"]
        self.debug = j["debug"]
        self._names = None
        self._preds = None

    @property
    def key(self):
        return self.fn if self.promoted is None else "%s#promoted%d" % (self.fn, self.promoted)

    def names(self):
        """local id -> user variable name (only for whole-local debug entries)."""
        if self._names is None:
            self._names = {}
            for d in self.debug:
                if not d["place"]["proj"]:
                    self._names.setdefault(d["place"]["local"], d["name"])
        return self._names

    def local_named(self, name):
        return [d["place"]["local"] for d in self.debug if d["name"] == name and not d["place"]["proj"]]

    def succs(self, b):
        t = self.blocks[b]["term"]
        k = t["k"]
        if k == "goto":
            return [t["target"]]
        if k == "switch":
            out = [a[1] for a in t["arms"]]
            out.append(t["otherwise"])
            return out
        if k in ("call", "assert", "drop"):
            return [t["target"]] if t.get("target") is not None else []
        return []

    def preds(self):
        if self._preds is None:
            self._preds = {b["id"]: [] for b in self.blocks}
            for b in self.blocks:
                if b["cleanup"]:
                    continue
                for s in self.succs(b["id"]):
                    self._preds[s].append(b["id"])
        return self._preds

    def local_ty(self, l):
        return self.locals[l]["ty"]

    def local_adt(self, l):
        return self.locals[l]["adt"]


class Crate:
    def __init__(self, j, path):
        self.j = j
        self.name = j["crate"]
        self.path = path
        self.kind = os.path.basename(path).split("-")[1]
        self.bodies = [Body(b, self) for b in j["bodies"]]
        self.adts = {a["path"]: a for a in j["adts"]}
        self.consts = {c["path"]: c for c in j["consts"]}
        self.impls = j["impls"]
        self.fns = {}
        for f in j["fns"]:
            self.fns.setdefault(f["path"], f)
        self.statics = j["statics"]


class World:
    def __init__(self, facts_dir, config="W"):
        self.dir = facts_dir
        self.config = config
        self.crates = {}
        for f in sorted(glob.glob(os.path.join(facts_dir, "*.json"))):
            with open(f) as fh:
                j = json.load(fh)
            c = Crate(j, f)
            # bins named like a lib cannot clash in this workspace
            self.crates[c.name] = c
        self.bodies = {}
        for c in self.crates.values():
            for b in c.bodies:
                self.bodies.setdefault(b.key, []).append(b)
        self.inlined = {}
        from . import inline, desugar
        inline.apply(self)
        desugar.apply(self)

    def body(self, fn, promoted=None, crate=None):
        key = fn if promoted is None else "%s#promoted%d" % (fn, promoted)
        bs = self.bodies.get(key, [])
        if crate is not None:
            bs = [b for b in bs if b.crate.name == crate]
        if len(bs) != 1:
            return None if not bs else bs[0]
        return bs[0]

    def all_bodies_raw(self):
        for c in self.crates.values():
            for b in c.bodies:
                yield b

    def all_bodies(self, crate=None):
        """all function bodies; helpers that were spliced into every caller (see inline.py) are not enumerated again"""
        for c in self.crates.values():
            if crate is not None and c.name != crate:
                continue
            for b in c.bodies:
                if self.inlined.get(b.fn):
                    continue
                yield b

    def adt(self, path):
        for c in self.crates.values():
            if path in c.adts:
                return c.adts[path]
        return None

    def const(self, path):
        for c in self.crates.values():
            if path in c.consts:
                return c.consts[path]
        return None

    def fn_item(self, path):
        for c in self.crates.values():
            if path in c.fns:
                return c.fns[path]
        return None


_world_cache = {}


def world(config="W", repo=REPO):
    d = extract(config, repo)
    if d not in _world_cache:
        _world_cache[d] = World(d, config)
    return _world_cache[d]


# ------------------------------------------------------------------------------------------------
# pretty printer (for humans and for replay files)
# ------------------------------------------------------------------------------------------------

def fmt_place(p, body=None):
    s = "_%d" % p["local"]
    if body is not None:
        n = body.names().get(p["local"])
        if n:
            s = "_%d'%s" % (p["local"], n)
    for e in p["proj"]:
        if e == "deref":
            s = "(*%s)" % s
        elif isinstance(e, dict):
            if "field" in e:
                s = "%s.%s" % (s, e["field"])
            elif "index" in e:
                s = "%s[_%d]" % (s, e["index"])
            elif "downcast" in e:
                s = "(%s as %s)" % (s, e["downcast"])
            elif "constidx" in e:
                s = "%s[%s%d]" % (s, "-" if e["from_end"] else "", e["constidx"])
            elif "subslice_from" in e:
                s = "%s[%d..%s%d]" % (s, e["subslice_from"], "-" if e["from_end"] else "", e["to"])
            else:
                s = "%s.?%s" % (s, e)
        else:
            s = "%s.%s" % (s, e)
    return s


def fmt_const(c):
    if "int" in c:
        return "%d_%s" % (c["int"], c.get("ty", ""))
    if "bool" in c:
        return "true" if c["bool"] else "false"
    if "char" in c:
        return "'%s'(%d)" % (c.get("repr", ""), c["char"])
    if "str" in c:
        return json.dumps(c["str"], ensure_ascii=False)
    if "bytes" in c:
        try:
            return "b" + json.dumps(bytes(c["bytes"]).decode("latin1"))
        except Exception:
            return "bytes%s" % c["bytes"]
    if "fn" in c:
        return "fn(%s)" % c["fn"]
    if "variant" in c:
        return "%s::%s" % (c["of"], c["variant"])
    if "promoted" in c:
        return "promoted[%d]" % c["promoted"]
    if "constitem" in c:
        v = c.get("value")
        return "const %s%s" % (c["constitem"], "=" + fmt_const(v) if v else "")
    if "zst" in c:
        return "zst(%s)" % c["zst"]
    return "opaque(%s)" % (c.get("ty") or c)


def fmt_operand(o, body=None):
    if "copy" in o:
        return fmt_place(o["copy"], body)
    if "move" in o:
        return "move " + fmt_place(o["move"], body)
    if "const" in o:
        return fmt_const(o["const"])
    return str(o)


def fmt_rvalue(rv, body=None):
    k = rv["k"]
    if k == "use":
        return fmt_operand(rv["a"], body)
    if k == "ref":
        return "&%s%s" % ("mut " if rv["mut"] else "", fmt_place(rv["place"], body))
    if k == "rawptr":
        return "&raw %s%s" % ("mut " if rv["mut"] else "const ", fmt_place(rv["place"], body))
    if k == "bin":
        return "%s(%s, %s)" % (rv["op"], fmt_operand(rv["a"], body), fmt_operand(rv["b"], body))
    if k == "un":
        return "%s(%s)" % (rv["op"], fmt_operand(rv["a"], body))
    if k == "cast":
        return "%s as %s (%s)" % (fmt_operand(rv["a"], body), rv["ty"], rv["kind"])
    if k == "discr":
        return "discriminant(%s)" % fmt_place(rv["place"], body)
    if k == "aggr":
        return "%s::%s{%s}" % (rv["adt"], rv["variant"], ", ".join(
            "%s: %s" % (n, fmt_operand(f, body)) for n, f in zip(rv["names"], rv["fields"])))
    if k in ("tuple", "array", "closure", "aggr_other"):
        return "%s(%s)" % (k if k != "closure" else "closure " + rv["fn"], ", ".join(fmt_operand(f, body) for f in rv["fields"]))
    if k == "repeat":
        return "[%s; %s]" % (fmt_operand(rv["a"], body), rv["n"])
    return "%s %s" % (k, rv.get("dbg", ""))


def callee_name(t):
    c = t["callee"]
    if "indirect" in c:
        return "<indirect>"
    return c.get("resolved") or c["path"]


def fmt_term(t, body=None):
    k = t["k"]
    if k == "goto":
        return "goto bb%d" % t["target"]
    if k == "switch":
        return "switchInt(%s) [%s, otherwise: bb%d]" % (
            fmt_operand(t["discr"], body), ", ".join("%d: bb%d" % (a[0], a[1]) for a in t["arms"]), t["otherwise"])
    if k == "call":
        c = t["callee"]
        nm = callee_name(t)
        extra = ""
        if "indirect" not in c and c.get("resolved") and c["resolved"] != c["path"]:
            extra = "  {via %s}" % c["path"]
        return "%s = %s%s(%s) -> %s%s" % (
            fmt_place(t["dest"], body), "unsafe " if c.get("unsafe") else "", nm,
            ", ".join(fmt_operand(a, body) for a in t["args"]),
            "bb%d" % t["target"] if t["target"] is not None else "!", extra)
    if k == "assert":
        return "assert(%s == %s) -> bb%d  [%s]" % (fmt_operand(t["cond"], body), t["expected"], t["target"], t["msg"][:40])
    if k == "drop":
        return "drop(%s) -> bb%d" % (fmt_place(t["place"], body), t["target"])
    return k + (" " + t.get("dbg", "") if "dbg" in t else "")


def dump_body(body, with_cleanup=False):
    out = ["fn %s%s  @ %s  (args=%d)" % (body.fn, "" if body.promoted is None else " promoted[%d]" % body.promoted,
                                         body.span, body.arg_count)]
    names = body.names()
    for l in body.locals:
        out.append("  let _%d%s: %s" % (l["id"], "'" + names[l["id"]] if l["id"] in names else "", l["ty"]))
    for b in body.blocks:
        if b["cleanup"] and not with_cleanup:
            continue
        out.append("  bb%d%s:" % (b["id"], " (cleanup)" if b["cleanup"] else ""))
        for s in b["stmts"]:
            if s["k"] == "assign":
                out.append("    %s = %s" % (fmt_place(s["place"], body), fmt_rvalue(s["rv"], body)))
            else:
                out.append("    discriminant(%s) = %d" % (fmt_place(s["place"], body), s["vidx"]))
        out.append("    %s" % fmt_term(b["term"], body))
    return "\n".join(out)


if __name__ == "__main__":
    import argparse
    ap = argparse.ArgumentParser()
    ap.add_argument("--config", default="W")
    ap.add_argument("--dump", help="substring of fn path to dump")
    ap.add_argument("--list", action="store_true")
    a = ap.parse_args()
    w = world(a.config)
    if a.list:
        for k in sorted(w.bodies):
            print(k)
    if a.dump:
        for k in sorted(w.bodies):
            if a.dump in k:
                for b in w.bodies[k]:
                    print(dump_body(b))
                    print()
