"""Obligation bookkeeping, evidence files, known findings, VIOLATION / KNOWN-FINDING lines."""
import hashlib
import json
import os
import re
import sys
import time

from . import facts

VERIF = facts.VERIF
EVID = os.path.join(VERIF, "evidence" if not os.environ.get("VP_LANE") else os.path.join(".cache", "evidence" + os.environ["VP_LANE"]))
KNOWN = os.path.join(VERIF, "known_findings.jsonl")

TRUSTED = [
    "rustc nightly front end + MIR construction (the program analysed is the compiler's own lowering)",
    "daachorse (automaton construction, match semantics, serialize/deserialize_unchecked)",
    "bincode derive (byte symmetry of derived Encode/Decode)",
    "liblinear", "csv", "serde", "unicode-segmentation", "zstd", "clap", "tantivy", "hashbrown", "alloc/core",
]


def load_known():
    out = []
    if os.path.exists(KNOWN):
        with open(KNOWN) as f:
            for line in f:
                line = line.strip()
                if line and not line.startswith("#"):
                    out.append(json.loads(line))
    return out


class Check:
    def __init__(self, pid, tier="quick", explanation=""):
        self.pid = pid
        self.tier = tier
        self.t0 = time.time()
        self.obs = []          # dicts: rule, key, ok, detail, site, nontrivial
        self.samples = []
        self.explanation = explanation
        self.functions = set()
        self.configs = set()
        self.undecided_clauses = []
        self.assumptions = []
        self.rule_texts = {}
        self.seed = int(os.environ.get("VERIF_SEED", "0") or 0)
        self.config = "W"   # configuration whose facts are being analysed (thorough tier iterates over several)
        self._only = None

    # ------------------------------------------------------------------ recording
    def only(self, rules=None, keys=None):
        """context manager: while active, only obligations of the given rule ids (and whose instance satisfies `keys`) are
        recorded.  A property check that borrows another property's rule module takes exactly the rules that are necessary
        conditions of ITS property - the rest of the module would report changes that do not affect this property."""
        chk = self

        class _Only:
            def __enter__(self_):
                chk._only = (chk._only or []) + [(set(rules) if rules is not None else None, keys)]

            def __exit__(self_, *a):
                chk._only = chk._only[:-1] or None
        return _Only()

    def _accept(self, rule, inst):
        """nested filters intersect: an obligation is recorded only if every active filter accepts it"""
        for rs, kp in (self._only or []):
            if rs is not None and rule not in rs:
                return False
            if kp is not None and not kp("%s:%s" % (rule, inst)):
                return False
        return True

    def rule(self, rid, text):
        for rs, kp in (self._only or []):
            if rs is not None and rid not in rs:
                return
        self.rule_texts[rid] = text

    def ob(self, rule, inst, ok, detail="", site=None, nontrivial=True, sample=None):
        """one rule instance (obligation). key = rule + instance descriptor, never a line number."""
        if not self._accept(rule, inst):
            return ok
        key = "%s:%s" % (rule, inst)
        if self.config != "W":
            key = "%s@[%s]" % (key, self.config)
            detail = "[configuration %s] %s" % (self.config, detail)
        self.obs.append({"rule": rule, "key": key, "ok": bool(ok), "detail": detail, "site": site,
                         "nontrivial": nontrivial})
        if sample is not None and len(self.samples) < 40:
            self.samples.append({"key": key, "ok": bool(ok), "site": site, "derived": sample})
        return ok

    def floor(self, rule, what, count, minimum, other=1):
        """fail closed when a rule matches fewer instances than were confirmed by hand (floors are counted on the
        workspace configuration W; in the additional feature configurations of the thorough tier `other` applies)"""
        if not self._accept(rule, "floor(%s)" % what):
            return True
        if self.config != "W":
            minimum = other
        ok = count >= minimum
        self.ob(rule, "floor(%s)" % what, ok,
                "instances found=%d, confirmed floor=%d%s" % (count, minimum, "" if ok else "  -> UNDECIDED (anchor lost?)"),
                nontrivial=False)
        return ok

    def undecided(self, rule, inst, why, site=None):
        self.ob(rule, inst, False, "UNDECIDED: " + why, site=site)

    def fn(self, *names):
        for n in names:
            self.functions.add(n)

    # ------------------------------------------------------------------ finishing
    def finish(self):
        known = [k for k in load_known() if k.get("property") == self.pid]
        open_keys = {k["key"]: k for k in known if k.get("status") == "open"}
        violations = []
        kf_lines = []
        seen = set()
        for o in self.obs:
            if o["ok"]:
                continue
            if o["key"] in seen:
                continue
            seen.add(o["key"])
            if o["key"] in open_keys:
                kf_lines.append("KNOWN-FINDING: property=%s %s" % (self.pid, open_keys[o["key"]].get("what", o["key"])))
                continue
            violations.append(o)
        n_ob = len(self.obs)
        n_ok = sum(1 for o in self.obs if o["ok"])
        distinct_nt = len({o["key"] for o in self.obs if o["nontrivial"]})
        os.makedirs(EVID, exist_ok=True)
        replay_paths = []
        for v in violations:
            d = os.path.join(EVID, "replay", self.pid)
            os.makedirs(d, exist_ok=True)
            name = re.sub(r"[^A-Za-z0-9_.-]+", "_", v["key"])[:100] + "-" + hashlib.sha1(v["key"].encode()).hexdigest()[:8]
            p = os.path.join(d, name + ".json")
            with open(p, "w") as f:
                json.dump({"property": self.pid, "rule": v["rule"], "rule_text": self.rule_texts.get(v["rule"], ""),
                           "key": v["key"], "site": v["site"], "detail": v["detail"],
                           "repo_digest": facts.repo_digest()}, f, indent=1, ensure_ascii=False)
            replay_paths.append(p)
        ev = {
            "property_id": self.pid,
            "tier": self.tier,
            "seed": self.seed,
            "level": "other",
            "coverage": {
                "explanation": self.explanation,
                "rule": "one obligation per rule instance located in the current MIR/items of /repo "
                        "(instances are keyed by rule id + function path + instance descriptor); non-trivial = an instance "
                        "that inspects a located construct (floor/bookkeeping obligations are counted as trivial)",
                "obligations": n_ob,
                "discharged": n_ok,
                "evaluations": n_ob,
                "distinct_nontrivial": distinct_nt,
                "samples": self.samples[:40] or [{"note": "no instance sampled"}],
                "rules": self.rule_texts,
                "functions_analysed": sorted(self.functions),
                "configurations": sorted(self.configs),
                "trusted_base": TRUSTED,
                "undecided_clauses": self.undecided_clauses,
                "known_findings_suppressed": [l for l in kf_lines],
                "checker_cmd": "./vcheck %s --tier %s" % (self.pid, self.tier),
                "exhaustive": False,
            },
            "assumptions": self.assumptions + ["see coverage.trusted_base", "unwinding edges are not analysed"],
            "wall_s": round(time.time() - self.t0, 3),
            "violations": len(violations),
        }
        with open(os.path.join(EVID, self.pid + ".json"), "w") as f:
            json.dump(ev, f, indent=1, ensure_ascii=False)
        for l in kf_lines:
            print(l)
        for v, p in zip(violations, replay_paths):
            print("VIOLATION property=%s replay=%s" % (self.pid, p))
            print("  rule %s  instance %s" % (v["rule"], v["key"]))
            if v["site"]:
                print("  at %s" % v["site"])
            print("  %s" % v["detail"])
        print("%s: %d obligations, %d discharged, %d violation(s), %d known finding(s), %.1fs [%s]" % (
            self.pid, n_ob, n_ok, len(violations), len(kf_lines), time.time() - self.t0, self.tier))
        return 1 if violations else 0
