"""R01.8: a scorer may be absent (constructor returns Ok(None)) only when it has no weight to contribute.

Predictor::predict adds the scores of a scorer iff the scorer exists (R01.3).  The constructors CharScorer::new and
TypeScorer::new decide existence; a model whose n-gram set is empty but whose dictionary is not (or vice versa) still has
weights, and dropping the scorer drops them from every score.  Rule: on every path of the constructor that returns Ok(None),
either the window-size parameter is constrained to 0, or *every* weight-bearing parameter (type NgramModel<_> or DictModel,
found by type, not by name) was tested with is_empty() and the test returned true on that path."""
import re

from .. import absint, effects
from . import common as C

CTORS = ("vaporetto::char_scorer::CharScorer::new", "vaporetto::type_scorer::TypeScorer::new")


def run(chk, w, directions=("absent-implies-empty", "empty-implies-absent")):
    chk.rule("R01.8", "a scorer is absent only when all its weight sets are empty (or the window is 0)")
    n = 0
    for fn in CTORS:
        b = w.body(fn)
        if b is None:
            chk.undecided("R01.8", "%s:anchor" % fn.split("::")[-2], "constructor %s not found" % fn)
            continue
        chk.fn(fn)
        short = fn.split("::")[-2]
        bearing = [i for i in range(1, b.arg_count + 1)
                   if re.search(r"(^|::)(NgramModel<|DictModel)", C.tyn(b.locals[i]["ty"])) and "TagNgramModel" not in C.tyn(b.locals[i]["ty"])]
        window = [i for i in range(1, b.arg_count + 1) if b.locals[i]["ty"] == "u8"]
        it = absint.Interp(w, b, models=effects.EXTRA_MODELS, summaries=C.summaries(w))
        outs = it.run(0)
        nones = 0
        somes = 0
        for o in outs:
            if o.kind != "return":
                continue
            v = o.value_at((("L", 0),))
            if not (v[0] == "var" and v[2] == "Ok" and v[3] and v[3][0][0] == "var"):
                continue
            if v[3][0][2] == "Some":
                somes += 1
                continue
            if v[3][0][2] != "None":
                continue
            nones += 1
            win0 = any(o.cons.get("arg%d" % i) == ("eq", absint.I(0)) for i in window)
            empties = {}
            for e in o.trace:
                if e[0] == "call" and (e[2] or "").endswith("::is_empty") and e[3] and e[3][0][0] == "ref":
                    root = e[3][0][1][0]
                    if root[0] in ("L", "A"):
                        r = e[5] if len(e) > 5 and e[5] is not None else it.resolve(o, absint.SYM("ret:%d" % e[1]))
                        empties[root[1]] = r[1] if r[0] == "b" else None
            all_empty = bool(bearing) and all(empties.get(i) is True for i in bearing)
            n += 1
            if "absent-implies-empty" not in directions:
                continue
            chk.ob("R01.8", "%s:absent-path[%s]" % (short, "window=0" if win0 else ",".join("%d:%s" % (i, empties.get(i)) for i in bearing)), win0 or all_empty,
                   "%s returns Ok(None) on a path where the window is not known to be 0 and the emptiness tests of its weight-bearing parameters %s gave %s: "
                   "a model with a non-empty dictionary or n-gram set would lose those weights from every boundary score" % (fn, bearing, empties),
                   site=C.site(b, o.bb), sample={"ctor": short, "window_zero": win0, "is_empty": {str(k): v_ for k, v_ in empties.items()}})
        # converse (needed for "every trained model is accepted by the predictor"): a scorer whose boundary model has no pattern at
        # all must be absent - the automaton builder rejects an empty pattern set, so constructing the scorer would turn a model
        # the trainer has just returned into an InvalidModel error
        bad_present = []
        for o in outs:
            tr_empty = {}
            for e in o.trace:
                if e[0] == "call" and (e[2] or "").endswith("::is_empty") and e[3] and e[3][0][0] == "ref":
                    root = e[3][0][1][0]
                    if root[0] in ("L", "A"):
                        r = e[5] if len(e) > 5 and e[5] is not None else None
                        tr_empty[root[1]] = r[1] if r and r[0] == "b" else None
            ctor = [e for e in o.trace if e[0] == "call" and re.search(r"(Char|Type)ScorerBoundary\w*::new$", e[2] or "")]
            if ctor and bearing and all(tr_empty.get(i) is True for i in bearing):
                bad_present.append(ctor[0][2].split("::")[-2])
        if "empty-implies-absent" in directions:
          chk.ob("R01.8", "%s:no-pattern-implies-absent" % short, not bad_present,
               "%s constructs %s on a path where every n-gram / dictionary table of the boundary model was found empty: the automaton cannot be built from an empty pattern set, "
               "so Predictor::new rejects a model that training returned" % (fn, sorted(set(bad_present))), site=C.site(b), nontrivial=True)
        chk.ob("R01.8", "%s:has-present-path" % short, somes > 0 and bool(bearing) and bool(window), "%s: %d Ok(Some) paths, weight-bearing parameters %s, window parameters %s" % (fn, somes, bearing, window), site=C.site(b), nontrivial=False)
    chk.floor("R01.8", "absent paths", n, 4, other=4)
