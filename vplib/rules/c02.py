"""C02 - Tokens are a lossless, ordered partition of the text."""
from .. import facts, absint, forms, cfg as cfgmod
from . import common as C

EXPLANATION = (
    "R02.1 (FDAI, complete for the per-boundary step): the loop of <TokenIterator as Iterator>::next is interpreted "
    "abstractly for every (boundary label in {W,N,U}) x (skip flag) x (header state) and the derived transition table "
    "(emit / restart segment / set skip / nothing; exit: None iff skip) is compared with the specification table. "
    "R02.2 (E4 + loop-header fixpoint): every position stored in the loop is `base + i + 1` where base is the value "
    "that indexed the sub-slice whose enumerate() yields i, evaluated in the loop-invariant header state (a place that "
    "is re-assigned on a continuing path is no longer `base`); the last token ends at boundaries.len()+1. "
    "R02.3: write_tokenized_text obtains spans only through iter_tokens()/Token::{surface,tags} and never reads the "
    "boundaries field. R02.4: iter_tokens starts at (0,0); Token::surface = text_substring(start,end) and text_substring "
    "slices char_to_str_pos[start]..char_to_str_pos[end]; Token::tags = tags[(end-1)*n_tags .. end*n_tags]."
)
THOROUGH_CONFIGS = [C.MINIMAL, C.NO_TAG]
QUICK_CONFIGS = [C.NO_TAG, C.MINIMAL]
NOT_DECIDED = [
    "that surfaces concatenate to the text as values (content of char_to_str_pos; sizing facts are in C05)",
]

W_, N_, U_ = "WordBoundary", "NotWordBoundary", "Unknown"


def run(chk):
    w = C.world_for(chk)
    from . import ctors as _acc
    _acc.accessors(chk, w, only=["vaporetto::sentence::"])
    # tokens, their tags and both writers slice the flat tag vector with n_tags: every function that changes the tags or the tag
    # count must leave tags.len() == n_tags * len() (shared with C05; which VALUES the slots hold after an update is C05/C08's subject)
    from . import c05 as _c05
    chk.rule("R05.3", "tags length form == n_tags form * len() at every exit of a function that changes either (shared with C05)")
    _c05.r053(chk, w)
    chk.rule("R02.1", "token iterator transition table equals the specification for all (label, skip) cases")
    chk.rule("R02.2", "stored positions are base+i+1 in the loop-invariant header state; last token ends at len()+1")
    chk.rule("R02.3", "write_tokenized_text goes through the iterator and never reads Sentence.boundaries")
    chk.rule("R02.4", "iterator starts at (0,0); surface/tags slice forms")
    # the written line is the concatenation of what the token loop emits: nothing already written is taken back (shared with C03)
    from . import fmt as _fmt
    _fmt.append_only_rule(chk, w, "R02.3", C.S + "::write_tokenized_text")
    b = C.body(w, C.TOKIT_NEXT)
    chk.fn(C.TOKIT_NEXT)
    cf = cfgmod.cfg_of(b)
    loops = cf.natural_loops()
    if len(loops) != 1:
        chk.undecided("R02.1", "loop", "expected exactly one loop in TokenIterator::next, found %d" % len(loops), site=C.site(b))
        return
    h = list(loops)[0]
    it = absint.Interp(w, b)
    pre = it.run(0, stop=[h])
    h0s = [o for o in pre if o.kind == "stop"]
    if len(h0s) != 1:
        chk.undecided("R02.1", "preheader", "expected one path to the loop header, found %d" % len(h0s), site=C.site(b))
        return
    H0 = h0s[0]
    # base = start operand of the range that slices the boundaries before the loop
    base = None
    for e in H0.trace:
        if e[0] == "call" and e[2] and (e[2].endswith("::get") or "Index" in e[2]) and len(e[3]) > 1:
            a = e[3][1]
            if a[0] == "agg" and "RangeFrom" in a[1]:
                base = dict(a[2]).get("start")
    if base is None:
        chk.undecided("R02.2", "base", "could not find the `[base..]` slice of the boundaries before the loop", site=C.site(b))
        return
    # the skip flag: user-named bool locals assigned inside the loop
    names = b.names()
    flag_locals = set()
    for bb in loops[h]:
        for s in b.blocks[bb]["stmts"]:
            pl = s["place"]
            if not pl["proj"] and b.locals[pl["local"]]["tk"] == "bool" and pl["local"] in names:
                flag_locals.add(pl["local"])
    if len(flag_locals) != 1:
        chk.undecided("R02.1", "flag", "expected exactly one named bool state variable in the loop, found %s" % sorted(flag_locals), site=C.site(b))
        return
    flag = list(flag_locals)[0]
    fpath = (("L", flag),)
    states, results = absint.header_fixpoint(it, h, H0.env, H0.cons, trace=H0.trace)
    nz_base = forms.Normalizer(it).form(base)

    table = {}
    n_forms = 0
    for env, outs in results:
        for o in outs:
            if o.kind in ("backedge", "cycle"):
                chk.undecided("R02.1", "nested-loop", "unexpected %s in the iterator loop" % o.kind, site=C.site(b, o.bb))
                continue
            # label of the element (None when the underlying iterator is exhausted)
            label = None
            exhausted = None
            for sname, c in o.cons.items():
                if c[0] == "varis" and c[1] == C.CB:
                    label = c[2]
                if c[0] == "varis" and c[1] == "core::option::Option" and sname.startswith("ret:"):
                    info = it.ret_info.get(sname)
                    if info and info[0] and info[0].endswith("::next"):
                        exhausted = (c[2] == "None")
            fin = env.get(fpath)
            fc = o.cons.get("m:" + absint.pstr(fpath))
            if fin is None or fin[0] != "b":
                fin_vals = [fc[1][1]] if fc and fc[0] == "eq" else [True, False]
            else:
                fin_vals = [fin[1]]
            fout = o.value_at(fpath)
            tr = o.trace[len(H0.trace):]
            stores = sorted({e[2][-1][1] for e in tr if e[0] == "store" and e[2][:2] == C.fpath(1, "token")})
            if o.kind == "return":
                rv = o.value_at((("L", 0),))
                act = "return-" + (rv[2] if rv[0] == "var" else "?")
            elif o.kind == "stop":
                act = "continue"
            else:
                act = o.kind
            for fv in fin_vals:
                key = ("exhausted" if exhausted else label, fv)
                val = (act, tuple(stores), (fout[1] if fout[0] == "b" else fv if fout == absint.SYM("m:" + absint.pstr(fpath)) else "?"))
                table.setdefault(key, set()).add(val)
            # ---- R02.2 forms of the stored positions
            nz = forms.Normalizer(it, o)
            for e in tr:
                if e[0] != "store" or e[2][:2] != C.fpath(1, "token"):
                    continue
                fld = e[2][-1][1]
                f = nz.form(e[3])
                n_forms += 1
                if exhausted:
                    # last token / end of iteration: end := boundaries.len() + 1
                    ok = fld == "end" and f.get((), 0) == 1 and len(f) == 2 and any("::len(" in m[0] and "boundaries" in m[0] for m in f if m)
                    chk.ob("R02.2", "final:%s" % fld, ok,
                           "at the end of iteration token.%s is set to %s, expected boundaries().len() + 1" % (fld, forms.show(f)),
                           site=C.site(b, e[1]), sample={"field": fld, "form": forms.show(f)})
                else:
                    idx_atoms = [m for m in f if m and "@Some.0.0" in m[0]]
                    expect = forms.add(forms.add(nz_base, forms.const(1)), {idx_atoms[0]: 1} if idx_atoms else {})
                    ok = bool(idx_atoms) and f == expect
                    why = "token.%s := %s ; expected %s (base = the value that sliced boundaries[base..], i = enumerate index)" % (
                        fld, forms.show(f), forms.show(expect))
                    if not ok and any("lv:" in a for m in f for a in m):
                        why += " -- the place read here is re-assigned on a path that continues the loop, so it is no longer the slice-time base (slice-relative index re-based on an already advanced value)"
                    chk.ob("R02.2", "step:%s:%s" % (fld, label), ok, why, site=C.site(b, e[1]),
                           sample={"field": fld, "label": label, "form": forms.show(f)})
    chk.floor("R02.2", "position stores", n_forms, 3)

    spec = {
        (W_, False): ("return-Some", ("end",), False),
        (W_, True): ("continue", ("start",), False),
        (U_, False): ("continue", (), True),
        (U_, True): ("continue", (), True),
        (N_, False): ("continue", (), False),
        (N_, True): ("continue", (), True),
        ("exhausted", False): ("return-Some", ("end",), False),
        ("exhausted", True): ("return-None", None, True),
    }
    for key, want in spec.items():
        got = table.get(key)
        ok = got is not None and len(got) == 1
        if ok:
            g = list(got)[0]
            ok = g[0] == want[0] and (want[1] is None or g[1] == want[1]) and (g[0].startswith("return") or g[2] == want[2])
        chk.ob("R02.1", "case(%s,skip=%s)" % key, ok,
               "derived %s, specification %s" % (sorted(got) if got else None, want), site=C.site(b),
               sample={"case": list(key), "derived": [list(map(str, x)) for x in (got or [])]})
    chk.floor("R02.1", "cases", len(table), 8)

    # ------------------------------------------------------------------ R02.3
    wt = C.S + "::write_tokenized_text"
    reads = 0
    calls_seen = set()
    bodies = [bd for k, bs in w.bodies.items() if k.startswith(wt) for bd in bs]
    if not bodies:
        raise C.AnchorLost(wt)
    for bd in bodies:
        chk.fn(bd.fn)
        for blk in bd.blocks:
            if blk["cleanup"]:
                continue
            places = []
            for s in blk["stmts"]:
                places.append(s["place"])
                rv = s.get("rv", {})
                for k in ("place",):
                    if k in rv:
                        places.append(rv[k])
                for k in ("a", "b"):
                    o = rv.get(k)
                    if isinstance(o, dict):
                        p = o.get("copy") or o.get("move")
                        if p:
                            places.append(p)
            for p in places:
                for e in p["proj"]:
                    if isinstance(e, dict) and e.get("field") == "boundaries" and e.get("of") == C.S:
                        reads += 1
            t = blk["term"]
            if t["k"] == "call":
                c = cfgmod.callee(t)
                if c:
                    calls_seen.add(c)
    chk.ob("R02.3", "no-direct-boundary-read", reads == 0,
           "write_tokenized_text reads Sentence.boundaries directly (%d places) instead of going through the token iterator" % reads,
           site=C.site(bodies[0]))
    for need in (C.S + "::iter_tokens", "vaporetto::sentence::Token::surface", "vaporetto::sentence::Token::tags", C.TOKIT_NEXT):
        chk.ob("R02.3", "uses:" + need.split("::")[-1] + ("" if "Iterator" not in need else "(next)"), need in calls_seen,
               "write_tokenized_text does not call %s" % need, site=C.site(bodies[0]))
    boundaries_fn_calls = [c for c in calls_seen if c == C.S + "::boundaries" or c == C.S + "::boundaries_mut"]
    chk.ob("R02.3", "no-boundaries-accessor", not boundaries_fn_calls,
           "write_tokenized_text calls %s" % boundaries_fn_calls, site=C.site(bodies[0]))

    # ------------------------------------------------------------------ R02.5: the iterator looks at nothing but the labels
    chk.rule("R02.5", "TokenIterator::next reads no sentence state other than the boundary labels")
    nb = C.body(w, C.TOKIT_NEXT)
    used = {f for f in C.body_fields(nb) if f.startswith(C.S + ".")}
    sent_calls = sorted({c for _, t_ in cfgmod.calls(nb) for c in [cfgmod.callee(t_) or ""] if c.startswith(C.S + "::")})
    chk.ob("R02.5", "next:reads-only-boundaries", used <= {C.S + ".boundaries"} and set(sent_calls) <= {C.S + "::boundaries"},
           "TokenIterator::next reads the sentence fields %s and calls %s; the tokens must be a function of the boundary labels alone "
           "(a sentence with the same labels but another history - predicted, tagged, reused - must yield the same tokens)" % (sorted(used), sent_calls),
           site=C.site(nb), sample={"fields": sorted(used), "calls": sent_calls})
    # ------------------------------------------------------------------ R02.4
    bi, iti, outs = C.run_fn(w, C.S + "::iter_tokens")
    chk.fn(bi.fn)
    for o in outs:
        if o.kind != "return":
            continue
        v = o.value_at((("L", 0),))
        ok = False
        desc = str(v)[:120]
        if v[0] == "agg":
            tok = dict(v[2]).get("token")
            if tok and tok[0] == "agg":
                d = dict(tok[2])
                ok = d.get("start") == absint.I(0) and d.get("end") == absint.I(0) and d.get("sentence") == ("ref", (("A", 1),))
        chk.ob("R02.4", "iter_tokens:start", ok, "iter_tokens() does not start at token (start=0,end=0) of self: %s" % desc, site=C.site(bi))
    # Token::surface -> text_substring(self.start, self.end)
    bs, its, outs = C.run_fn(w, "vaporetto::sentence::Token::surface")
    chk.fn(bs.fn)
    found = False
    for o in outs:
        for e in o.trace:
            if e[0] == "call" and e[2] == C.S + "::text_substring":
                found = True
                a = e[3]
                ok = a[1] == absint.SYM("m:arg1.start") and a[2] == absint.SYM("m:arg1.end")
                chk.ob("R02.4", "surface:args", ok, "Token::surface passes %s, %s to text_substring (expected self.start, self.end)" % (a[1], a[2]), site=C.site(bs, e[1]))
    chk.ob("R02.4", "surface:calls-text_substring", found, "Token::surface does not call Sentence::text_substring", site=C.site(bs))
    # text_substring: text[c2s[start]..c2s[end]]
    bt, itt, outs = C.run_fn(w, C.S + "::text_substring")
    chk.fn(bt.fn)
    okform = False
    detail = ""
    for o in outs:
        if o.kind != "return":
            continue
        idx = [e for e in o.trace if e[0] == "call" and e[2] and "Index" in e[2]]
        # two index reads on char_to_str_pos with arg2 / arg3, then a Range{start,end} index on text
        rng = [e for e in idx if len(e[3]) > 1 and e[3][1][0] == "agg" and e[3][1][1].endswith("::Range")
               and e[3][0][0] == "ref" and ("f", "text") in e[3][0][1]]
        if len(rng) == 1:
            d = dict(rng[0][3][1][2])
            s_sym, e_sym = d.get("start"), d.get("end")
            pre = "m:arg1.char_to_str_pos.<content>."
            okform = s_sym == absint.SYM(pre + "[arg2]") and e_sym == absint.SYM(pre + "[arg3]")
            detail = "range start = %s, end = %s" % (s_sym, e_sym)
    chk.ob("R02.4", "text_substring:form", okform,
           "text_substring is not text[char_to_str_pos[start]..char_to_str_pos[end]] (%s)" % detail, site=C.site(bt),
           sample={"derived": detail})
    # Token::tags
    bg, itg, outs = C.run_fn(w, "vaporetto::sentence::Token::tags")
    chk.fn(bg.fn)
    okt = False
    dt = ""
    for o in outs:
        if o.kind != "return":
            continue
        nz = forms.Normalizer(itg, o)
        for e in o.trace:
            if e[0] == "call" and e[2] and "Index" in e[2] and len(e[3]) > 1 and e[3][1][0] == "agg" and e[3][1][1].endswith("::Range"):
                d = dict(e[3][1][2])
                fs, fe = nz.form(d["start"]), nz.form(d["end"])
                nt = [m for m in fe if m and any("n_tags" in a for a in m)]
                dt = "start=%s end=%s" % (forms.show(fs), forms.show(fe))
                # end = end*n ; start = end*n - n
                if len(fe) == 1 and len(list(fe)[0]) == 2:
                    mon = list(fe)[0]
                    natom = [a for a in mon if "n_tags" in a]
                    eatom = [a for a in mon if a == "arg1.end"]
                    if natom and eatom:
                        okt = fs == forms.add(fe, {(natom[0],): 1}, -1) and ("f", "tags") in e[3][0][1]
    chk.ob("R02.4", "tags:form", okt, "Token::tags is not tags[(end-1)*n_tags .. end*n_tags]: %s" % dt, site=C.site(bg), sample={"derived": dt})
