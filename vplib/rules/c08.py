"""C08 - Reusing a sentence or sharing a predictor never changes results."""
from .. import facts, absint, effects, cfg as cfgmod, witness
from . import common as C
from . import c05, c06

EXPLANATION = (
    "R08.1 = R05.1/R05.2 (history clause: after any update_* every Sentence field is overwritten on every Ok path, every "
    "Err path ends in the full reset). R08.2 reads-before-kill (E5, interprocedural): Predictor::predict reads, before "
    "overwriting them, only text-derived fields of the sentence (text, char_types, str_to_char_pos, char_to_str_pos, "
    "boundaries as the iteration target); predict_tags additionally only the automaton state vectors; in particular no "
    "scores, tags, tag scores, tag count or predictor left by an earlier use. R08.3 typestate: the automaton states read by "
    "predict_tags are prepared by the tag scorers' add_scores (R06.3); Sentence.predictor is written only by set_predictor "
    "(called only from Predictor::predict with self) and by the resets. R08.4 schedule clause: Predictor is Send+Sync "
    "(witness), contains no UnsafeCell anywhere (deep type walk incl. dependencies' field types; positive example: "
    "CharWeightMerger's RefCell must be found), predict/predict_tags and every workspace function reachable from them take the "
    "predictor by shared reference, the workspace has no static mut / interior-mutable static / thread_local, so a call's "
    "result is a function of (*self, *sentence) only. R08.5: lifetime witness (a predicted sentence cannot outlive its predictor)."
)
THOROUGH_CONFIGS = [C.NO_TAG, C.MINIMAL]
QUICK_CONFIGS = [C.NO_TAG, C.MINIMAL]
NOT_DECIDED = ["equality of outputs as values", "behaviour of dependencies' unsafe code (daachorse) under concurrent shared access"]

ALLOWED_PREDICT = {"text", "char_types", "str_to_char_pos", "char_to_str_pos", "boundaries"}
ALLOWED_TAGS = ALLOWED_PREDICT | {"char_pma_states", "type_pma_states"}


def run(chk):
    w = C.world_for(chk)
    from . import ctors as _acc
    _acc.accessors(chk, w, only=["vaporetto::sentence::"])
    for rid, txt in (("R05.1", "kill sets of the updates (shared with C05)"), ("R05.2", "error paths reset (shared with C05)"),
                     ("R08.2", "prediction reads no history-dependent sentence field before overwriting it"),
                     ("R08.3", "automaton state / predictor typestate"), ("R08.4", "no shared mutable state behind &Predictor"), ("R08.5", "lifetime witness")):
        chk.rule(rid, txt)
    c05.kill_rules(chk, w)
    # the tag slots of a reused sentence: tags.len() == n_tags * len() at every exit (shared with C05)
    chk.rule("R05.3", "tags length form == n_tags form * len() at every exit of a function that changes either (shared with C05)")
    c05.r053(chk, w)
    R = effects.ReadsBeforeKill(w, C.summaries(w))
    for fn, allowed in ((C.P + "::predict", ALLOWED_PREDICT), (C.P + "::predict_tags", ALLOWED_TAGS)):
        if chk.config != "W" and w.body(fn) is None:
            continue   # tag prediction is not part of this configuration
        b = C.body(w, fn)
        chk.fn(fn)
        r = R.rbk(fn)
        if r is None:
            chk.undecided("R08.2", fn.split("::")[-1], "no summary", site=C.site(b))
            continue
        got = sorted({p[1][1] for p in r.get(2, ()) if len(p) > 1})
        for f in C.sentence_fields(w):
            chk.ob("R08.2", "%s:%s" % (fn.split("::")[-1], f), f not in got or f in allowed,
                   "%s reads Sentence.%s before overwriting it: the result depends on what an earlier use of the sentence object (other text, predictor, filter, tag fill) left there"
                   % (fn, f), site=C.site(b), sample={"fn": fn, "reads_before_kill": got} if f == "text" else None)
    for fn in sorted(R.analysed):
        chk.fn(fn)
    chk.floor("R08.2", "functions analysed", len(R.analysed), 10, other=5)
    # R08.3
    if w.body(C.P + "::predict_tags") is not None:
        c06.r063(chk, w)
    writers = {}
    for bd in w.all_bodies("vaporetto"):
        if bd.promoted is not None:
            continue
        for blk in bd.blocks:
            if blk["cleanup"]:
                continue
            for s in blk["stmts"]:
                for pl in [s["place"]] + ([s["rv"]["place"]] if s.get("rv", {}).get("k") == "ref" and s["rv"].get("mut") else []):
                    if any(isinstance(e, dict) and e.get("field") == "predictor" and e.get("of") == C.S for e in pl["proj"]):
                        if s["k"] == "assign" and (pl is s["place"] or s["rv"].get("mut")):
                            writers.setdefault(bd.fn, 0)
    reset = C.find_reset_fn(w)
    allowed_w = {C.S + "::set_predictor", reset} | {C.S + "::" + u for u in c05.UPDATES}
    chk.ob("R08.3", "predictor-field:writers", set(writers) <= allowed_w and C.S + "::set_predictor" in writers,
           "Sentence.predictor is written in %s; only set_predictor and the resets may write it" % sorted(set(writers) - allowed_w), sample={"writers": sorted(writers)})
    callers = [bd.fn for bd in w.all_bodies() if bd.promoted is None for _, t in cfgmod.calls(bd) if cfgmod.callee(t) == C.S + "::set_predictor"]
    chk.ob("R08.3", "set_predictor:callers", callers == [C.P + "::predict"], "set_predictor is called from %s; only Predictor::predict may register itself" % callers)

    # ---- R08.4
    if chk.config == "W":
        witness.check(chk, "R08.4", "W084SendSync", 0, 1, "Predictor/Model must be Send + Sync and Sentence Send")
    for p in (C.P, "vaporetto::predictor::PredictorData", "vaporetto::model::Model"):
        a = w.adt(p)
        chk.ob("R08.4", "no-interior-mutability:%s" % p.split("::")[-1], a is not None and a["deep_cell"] is None,
               "type %s can reach an UnsafeCell: %s -- prediction through a shared &Predictor could then mutate shared state" % (p, a and a["deep_cell"]), site=a and a["span"],
               sample={"type": p})
    if chk.config != "W":
        return   # witnesses and the workspace-wide scans are configuration independent
    pos = w.adt("vaporetto::char_scorer::CharWeightMerger")
    chk.ob("R08.4", "positive-example:RefCell-is-found", pos is not None and pos["deep_cell"] is not None and "UnsafeCell" in pos["deep_cell"],
           "the deep interior-mutability walk no longer finds the RefCell inside CharWeightMerger (positive example)", nontrivial=False)
    # reachable functions take the predictor / scorers by shared reference
    reach = set()
    todo = [C.P + "::predict", C.P + "::predict_tags"]
    while todo:
        f = todo.pop()
        if f in reach or w.body(f) is None:
            continue
        reach.add(f)
        for _, c, _t in C.local_callees(w, w.body(f)):
            todo.append(c)
    pred_types = ("predictor::Predictor", "Scorer", "PositionalWeight", "WeightVector", "TagPredictor", "PredictorData")
    n = 0
    for f in sorted(reach):
        bd = w.body(f)
        for i in range(1, bd.arg_count + 1):
            l = bd.locals[i]
            if l["tk"] == "refmut" and any(x in l["ty"] for x in pred_types):
                chk.ob("R08.4", "shared-ref:%s" % f.replace("vaporetto::", ""), False, "%s takes predictor state by &mut (%s)" % (f, l["ty"]), site=C.site(bd))
            n += 1
    chk.ob("R08.4", "predictor-taken-by-shared-ref", True, "", sample={"reachable_functions": len(reach)})
    chk.floor("R08.4", "functions reachable from predict/predict_tags", len(reach), 15)
    statics = [(c.name, s["path"], s["mutable"], s["deep_cell"]) for c in w.crates.values() for s in c.statics]
    bad = [s for s in statics if s[2] or s[3]]
    tls = [bd.fn for bd in w.all_bodies() if bd.promoted is None for blk in bd.blocks for s in blk["stmts"] if s["k"] == "assign" and s["rv"]["k"] == "tls"]
    chk.ob("R08.4", "no-mutable-statics", not bad and not tls, "mutable / interior-mutable statics or thread-locals in the workspace: %s %s" % (bad, tls), sample={"statics": statics})
    # ---- R08.5
    witness.check(chk, "R08.5", "W085Lifetime", 1, 1, "a sentence holding a reference to a dropped predictor must not compile (E0597)")
