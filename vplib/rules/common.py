"""anchors shared by the rule modules (public API paths; private helpers are found through calls)"""
import re as _re
from .. import facts, absint, effects, cfg as cfgmod, forms

S = "vaporetto::sentence::Sentence"
P = "vaporetto::predictor::Predictor"
TOKIT_NEXT = "<vaporetto::sentence::TokenIterator as core::iter::traits::iterator::Iterator>::next"
CB = "vaporetto::sentence::CharacterBoundary"
CT = "vaporetto::sentence::CharacterType"


class AnchorLost(Exception):
    pass


def body(w, fn, crate=None):
    b = w.body(fn, crate=crate)
    if b is None:
        raise AnchorLost("function %s not found in the analysed program (public anchor renamed/removed?)" % fn)
    return b


def site(body_, bb=None):
    if bb is None:
        return "%s (%s)" % (body_.fn, body_.span)
    t = body_.blocks[bb]["term"]
    sp = t.get("span")
    if not sp:
        for s in body_.blocks[bb]["stmts"]:
            if s.get("span"):
                sp = s["span"]
    return "%s bb%d (%s)" % (body_.fn, bb, sp or body_.span)


def sentence_fields(w):
    a = w.adt(S)
    if a is None:
        raise AnchorLost("struct %s not found" % S)
    return [f["name"] for f in a["variants"][0]["fields"]]


def local_callees(w, b):
    """[(bb, callee path, term)] of calls whose callee has a body in the analysed workspace"""
    out = []
    for bb, t in cfgmod.calls(b):
        c = cfgmod.callee(t)
        if c and w.body(c) is not None:
            out.append((bb, c, t))
    return out


def find_reset_fn(w):
    """the private reset: the workspace function `<Sentence as Default>::default` calls with &mut Sentence"""
    d = body(w, "<%s as core::default::Default>::default" % S)
    for bb, c, t in local_callees(w, d):
        cb = w.body(c)
        if cb.arg_count == 1 and cb.locals[1]["adt"] == S and cb.locals[1]["tk"] == "refmut":
            return c
    raise AnchorLost("no reset function called from <Sentence as Default>::default")


def find_parser(w, update_fn):
    """the parser helper of an update_*: the workspace callee that receives >= 3 `&mut` references"""
    b = body(w, update_fn)
    best = None
    for bb, c, t in local_callees(w, b):
        cb = w.body(c)
        n = sum(1 for i in range(1, cb.arg_count + 1) if cb.locals[i]["tk"] == "refmut")
        if n >= 3 and (best is None or n > best[1]):
            best = (c, n)
    if best is None:
        raise AnchorLost("no parser helper found under %s" % update_fn)
    return best[0]


_EFF = {}


def summaries(w):
    if id(w) not in _EFF:
        _EFF[id(w)] = effects.Effects(w)
    return _EFF[id(w)]


def run_fn(w, fn, models=None, entry=0, **kw):
    b = body(w, fn)
    it = absint.Interp(w, b, models=models if models is not None else effects.EXTRA_MODELS, summaries=summaries(w))
    outs = it.run(entry, **kw)
    return b, it, outs


def fpath(i, *fields):
    return (("A", i),) + tuple(("f", f) for f in fields)


def all_calls(outs, pred=None):
    """call events of all explored paths (incl. loop back-edge paths), de-duplicated by (bb, callee, args)"""
    seen = {}
    for o in outs:
        for e in o.trace:
            if e[0] == "call" and (pred is None or pred(e)):
                seen.setdefault((e[1], e[2], e[3], e[5] if len(e) > 5 else None), (e, o))
    return list(seen.values())


def static_calls(w, fn_prefix, include_closures=True):
    """[(body, bb, term)] for every call terminator in fn and (optionally) its closures"""
    out = []
    for k, bs in w.bodies.items():
        if k == fn_prefix or (include_closures and k in closure_keys(w, fn_prefix)):
            for bd in bs:
                if bd.promoted is not None:
                    continue
                for bb, t in cfgmod.calls(bd):
                    out.append((bd, bb, t))
    return out


def move_targets(b, local):
    """locals that receive `local`'s value through plain `_x = move/copy _local` chains"""
    out = {local}
    packed = set()   # (tuple local, field index) holding the value
    changed = True
    while changed:
        changed = False
        for blk in b.blocks:
            if blk["cleanup"]:
                continue
            for s in blk["stmts"]:
                if s["k"] != "assign" or s["place"]["proj"]:
                    continue
                if s["rv"]["k"] == "use":
                    o = s["rv"]["a"]
                    p = o.get("copy") or o.get("move")
                    if p and not p["proj"] and p["local"] in out and s["place"]["local"] not in out:
                        out.add(s["place"]["local"])
                        changed = True
                    # unpacking `_x = move (_t.i)` of a tuple that was packed from the value
                    if p and len(p["proj"]) == 1 and isinstance(p["proj"][0], dict) and "field" in p["proj"][0] \
                            and (p["local"], str(p["proj"][0]["field"])) in packed and s["place"]["local"] not in out:
                        out.add(s["place"]["local"])
                        changed = True
                elif s["rv"]["k"] == "tuple":
                    for i, f in enumerate(s["rv"]["fields"]):
                        q = f.get("copy") or f.get("move")
                        if q and not q["proj"] and q["local"] in out:
                            for tl in move_targets_plain(b, s["place"]["local"]):
                                if (tl, str(i)) not in packed:
                                    packed.add((tl, str(i)))
                                    changed = True
    return out


def move_targets_plain(b, local):
    out = {local}
    changed = True
    while changed:
        changed = False
        for blk in b.blocks:
            if blk["cleanup"]:
                continue
            for s in blk["stmts"]:
                if s["k"] == "assign" and s["rv"]["k"] == "use" and not s["place"]["proj"]:
                    o = s["rv"]["a"]
                    p = o.get("copy") or o.get("move")
                    if p and not p["proj"] and p["local"] in out and s["place"]["local"] not in out:
                        out.add(s["place"]["local"])
                        changed = True
    return out


def iterator_names(b, outs):
    """local id -> 'it<k>' for every iterator variable initialised from an into_iter call, k = ordinal of
    the into_iter call in block order; also returns k -> the into_iter argument value"""
    calls = {}
    for e, o in all_calls(outs, lambda e: e[2] and e[2].endswith("into_iter")):
        calls.setdefault(e[1], (e, o))
    names, origin = {}, {}
    for k, bb in enumerate(sorted(calls)):
        e, o = calls[bb]
        for l in move_targets(b, e[4]):
            names[l] = "it%d" % k
        origin["it%d" % k] = (e[3][0], o)
    return names, origin


def renamer(names):
    def rn(s):
        def sub(m):
            l = int(m.group(1))
            return "&" + names.get(l, "_%d" % l)
        s = _re.sub(r"&_(\d+)", sub, s)
        s = _re.sub(r"<[^<>]*(?:<[^<>]*>[^<>]*)*>::next\(&(it\d+)\)", r"\1.next()", s)
        return s
    return rn


def show_arg(nz, a):
    if a[0] == "agg" and "Range" in a[1]:
        return "%s{%s}" % (a[1].split("::")[-1], ", ".join("%s: %s" % (n, forms.show(nz.form(v))) for n, v in a[2]))
    if a[0] in ("expr", "sym", "i"):
        return forms.show(nz.form(a))
    if a[0] == "ref":
        return "&" + nz.path_atom(a[1])
    return str(a)[:100]


def body_fields(cb):
    out = set()
    def scan(p):
        for e in p["proj"]:
            if isinstance(e, dict) and "field" in e:
                out.add("%s.%s" % (e.get("of", ""), e["field"]))
    for blk in cb.blocks:
        if blk["cleanup"]:
            continue
        for s in blk["stmts"]:
            scan(s["place"])
            rv = s.get("rv", {})
            if "place" in rv:
                scan(rv["place"])
            for k in ("a", "b"):
                o = rv.get(k)
                if isinstance(o, dict):
                    p = o.get("copy") or o.get("move")
                    if p:
                        scan(p)
    return out


def backward_slice(b, local, depth=40, w=None):
    """static backward slice through single-definition temporaries: returns (callee names, field names, param ids)
    that the value of `local` is computed from (used only to classify the role of a value)"""
    defs = {}
    for blk in b.blocks:
        if blk["cleanup"]:
            continue
        for s in blk["stmts"]:
            if s["k"] == "assign" and not s["place"]["proj"]:
                defs.setdefault(s["place"]["local"], []).append(("assign", s["rv"]))
        t = blk["term"]
        if t["k"] == "call" and not t["dest"]["proj"]:
            defs.setdefault(t["dest"]["local"], []).append(("call", t))
    callees, fields, params = set(), set(), set()
    seen = set()

    def place_locals(p):
        for e in p["proj"]:
            if isinstance(e, dict) and "field" in e:
                fields.add(("%s.%s" % (e.get("of", ""), e["field"])))
        return [p["local"]]

    def op_locals(o):
        p = o.get("copy") or o.get("move")
        return place_locals(p) if p else []

    def visit(l, d):
        if l in seen or d > depth:
            return
        seen.add(l)
        if 1 <= l <= b.arg_count:
            params.add(l)
        for kind, x in defs.get(l, []):
            if kind == "assign":
                rv = x
                if rv["k"] in ("use", "cast", "un"):
                    for y in op_locals(rv["a"]):
                        visit(y, d + 1)
                elif rv["k"] in ("ref", "rawptr", "discr"):
                    for y in place_locals(rv["place"]):
                        visit(y, d + 1)
                elif rv["k"] == "bin":
                    for y in op_locals(rv["a"]) + op_locals(rv["b"]):
                        visit(y, d + 1)
                elif rv["k"] in ("aggr", "tuple", "array", "closure"):
                    for f in rv["fields"]:
                        for y in op_locals(f):
                            visit(y, d + 1)
                    if rv["k"] == "closure" and w is not None:
                        cb = w.body(rv["fn"])
                        if cb is not None:
                            fields.update(body_fields(cb))
            else:
                t = x
                c = cfgmod.callee(t)
                if c:
                    callees.add(c)
                for a in t["args"]:
                    for y in op_locals(a):
                        visit(y, d + 1)
                    if w is not None and "const" in a:
                        z = a["const"].get("zst", "")
                        m = _re.search(r"\{closure@", z) if isinstance(z, str) else None
                        if m:
                            # non-capturing closure passed by value: find it among this function's closures
                            for k, bs in w.bodies.items():
                                if k in closure_keys(w, b.fn):
                                    sp = bs[0].span.split(":")
                                    if sp[0].split("/")[-1] in z and (":" + sp[-1] + ":") in z:
                                        fields.update(body_fields(bs[0]))
    visit(local, 0)
    return callees, fields, params


def iter_source_local(b, header_bb):
    """the local holding the iterator advanced by the `next` call in a loop header block"""
    for s in b.blocks[header_bb]["stmts"]:
        if s["k"] == "assign" and s["rv"]["k"] == "ref" and not s["rv"]["place"]["proj"]:
            return s["rv"]["place"]["local"]
    return None


def chase_const(w, b, operand, depth=6):
    """constant an operand evaluates to, following single-definition temporaries (use / reborrow chains)"""
    if "const" in operand:
        return absint.Interp(w, b).const_val(operand["const"])
    p = operand.get("move") or operand.get("copy")
    if p is None or depth == 0:
        return None
    defs = []
    for blk in b.blocks:
        if blk["cleanup"]:
            continue
        for s in blk["stmts"]:
            if s["k"] == "assign" and not s["place"]["proj"] and s["place"]["local"] == p["local"]:
                defs.append(s["rv"])
    if len(defs) != 1:
        return None
    rv = defs[0]
    if rv["k"] in ("use", "cast"):
        return chase_const(w, b, rv["a"], depth - 1)
    if rv["k"] == "ref":
        return chase_const(w, b, {"copy": {"local": rv["place"]["local"], "proj": []}}, depth - 1)
    return None


def impl_fn(w, adt, trait, method, crate="vaporetto", hand_written=None):
    """path of `method` in the impl of `trait` for `adt` (located through the impl table, not by name)"""
    c = w.crates[crate]
    for i in c.impls:
        if i["self_adt"] == adt and i["trait"] == trait:
            if hand_written is True and i.get("derive"):
                continue
            for it_ in i["items"]:
                if it_.endswith("::" + method):
                    return it_, i
    return None, None


def world_for(chk):
    chk.configs.add(chk.config)
    return facts.world(chk.config)


ALLF = ["std", "cache-type-score", "fix-weight-length", "charwise-pma", "tag-prediction"]


def fcfg(drop=(), add=()):
    return "F:" + ",".join([f for f in ALLF if f not in drop] + list(add))


NO_CHARWISE = fcfg(["charwise-pma"])
NO_CACHE = fcfg(["cache-type-score"])
NO_FIX = fcfg(["fix-weight-length"])
NO_TAG = fcfg(["tag-prediction"])
MINIMAL = "F:"
SIMD = fcfg(add=["portable-simd"])


def tyn(s):
    """type spelling independent of std / alloc / core (no_std configurations print alloc:: paths)"""
    s = _re.sub(r"\b(std|alloc|core)::", "S::", s or "")
    # the default allocator parameter is spelled out in no_std configurations
    return _re.sub(r", S::S::Global>", ">", s)


def _operand_locals(x, out):
    """locals read by an operand / rvalue / terminator description (any nested {'copy'|'move': place} or 'place')"""
    if isinstance(x, dict):
        for k, v in x.items():
            if k in ("copy", "move") and isinstance(v, dict) and "local" in v:
                out.add(v["local"])
                for pe in v.get("proj", []):
                    if isinstance(pe, dict) and "index" in pe:
                        out.add(pe["index"])
            elif k == "place" and isinstance(v, dict) and "local" in v:
                out.add(v["local"])
            else:
                _operand_locals(v, out)
    elif isinstance(x, (list, tuple)):
        for y in x:
            _operand_locals(y, out)


def loop_carried(b, cf, h, local):
    """True when `local` is live at the loop header h: on some path from h through the loop it is read before it is
    (wholly) re-assigned.  Pattern variables bound afresh in every iteration are therefore not loop-carried."""
    blks = cf.natural_loops()[h]
    seen = set()
    st = [h]
    while st:
        bb = st.pop()
        if bb in seen or bb not in blks:
            continue
        seen.add(bb)
        blk = b.blocks[bb]
        killed = False
        for s in blk["stmts"]:
            rd = set()
            _operand_locals(s.get("rv"), rd)
            if s["place"]["proj"]:
                rd.add(s["place"]["local"])
            if local in rd:
                return True
            if s["place"]["local"] == local and not s["place"]["proj"]:
                killed = True
                break
        if killed:
            continue
        t = blk["term"]
        rd = set()
        _operand_locals({k: v for k, v in t.items() if k not in ("dest",)}, rd)
        if t.get("dest") and t["dest"]["proj"]:
            rd.add(t["dest"]["local"])
        if local in rd:
            return True
        if t["k"] == "call" and t["dest"]["local"] == local and not t["dest"]["proj"]:
            continue
        for s in cf.succ.get(bb, []):
            st.append(s)
    return False


def backward_locals(b, local, depth=40):
    """the locals the value of `local` is computed from (through assignments, references and call arguments)"""
    defs = {}
    for blk in b.blocks:
        if blk["cleanup"]:
            continue
        for s in blk["stmts"]:
            if s["k"] == "assign" and not s["place"]["proj"]:
                defs.setdefault(s["place"]["local"], []).append(s["rv"])
        t = blk["term"]
        if t["k"] == "call" and not t["dest"]["proj"]:
            defs.setdefault(t["dest"]["local"], []).append({"args": t["args"]})
    seen = set()
    st = [(local, 0)]
    while st:
        l, d = st.pop()
        if l in seen or d > depth:
            continue
        seen.add(l)
        for rv in defs.get(l, []):
            rd = set()
            _operand_locals(rv, rd)
            for y in rd:
                st.append((y, d + 1))
    return seen


def blocks_defining_operand(b, bb, argi):
    """blocks of the calls whose results flow (through moves / the `?` operator's Try::branch and enum payload reads)
    into argument `argi` of the call terminating block bb"""
    t = b.blocks[bb]["term"]
    a = t["args"][argi]
    p = a.get("move") or a.get("copy")
    if not p:
        return set()
    ls = backward_locals(b, p["local"])
    out = set()
    for i, blk in enumerate(b.blocks):
        tt = blk["term"]
        if tt["k"] == "call" and tt["dest"]["local"] in ls:
            out.add(i)
    return out


def closure_keys(w, fn):
    """keys of the closure bodies that belong to `fn`: its own closures and those of helper functions that were inlined into
    callers (inline.py) in the same crate - after a helper extraction the closure is named after the helper"""
    crate = fn.split("::")[0]
    owners = [fn] + [h for h, done in getattr(w, "inlined", {}).items() if done and h.split("::")[0] == crate]
    return [k for k in w.bodies if "#promoted" not in k and any(k.startswith(o + "::{closure") for o in owners)]


def field_writers(w, adt, fields, crate="vaporetto"):
    """{field: {fn: count}}: the functions (closures under their own name) that take a mutable borrow of the field, assign to (a
    projection of) it, write a call result into it, or move it out"""
    out = {f: {} for f in fields}

    def hit(pl):
        for e in pl["proj"]:
            if isinstance(e, dict) and e.get("of") == adt and e.get("field") in out:
                return e["field"]
        return None
    for bd in w.all_bodies(crate):
        if bd.promoted is not None:
            continue
        for blk in bd.blocks:
            if blk["cleanup"]:
                continue
            for s in blk["stmts"]:
                if s["k"] != "assign":
                    continue
                f = hit(s["place"])
                if f:
                    out[f][bd.fn] = out[f].get(bd.fn, 0) + 1
                rv = s["rv"]
                if rv["k"] in ("ref", "rawptr") and rv.get("mut"):
                    f = hit(rv["place"])
                    if f:
                        out[f][bd.fn] = out[f].get(bd.fn, 0) + 1
                if rv["k"] == "use" and "move" in rv["a"]:
                    f = hit(rv["a"]["move"])
                    if f:
                        out[f][bd.fn] = out[f].get(bd.fn, 0) + 1
            t = blk["term"]
            if t and t["k"] == "call":
                f = hit(t["dest"])
                if f:
                    out[f][bd.fn] = out[f].get(bd.fn, 0) + 1
                for a in t["args"]:
                    if "move" in a:
                        f = hit(a["move"])
                        if f:
                            out[f][bd.fn] = out[f].get(bd.fn, 0) + 1
    return out
