"""C09 - A trained model computes exactly the function the learner produced."""
import re

from .. import facts, absint, forms, cfg as cfgmod
from . import common as C

EXPLANATION = (
    "R09.1 kind consistency (E8c): field/parameter names char_* / type_* are the role table. In Trainer::train the arm "
    "selected by BoundaryFeature::CharacterNgram (resp. CharacterTypeNgram) may only read char_* (resp. type_*) "
    "configuration; the map filled in the char arm flows to Model::new's character n-gram argument, the other to the "
    "type argument; char_window_size/type_window_size are passed in that order; Trainer::new forwards its four sizes "
    "in order to the struct and to TagTrainer::new; Predictor::new builds the char scorer from (char n-grams, dictionary, "
    "char window, char tag n-grams) and the type scorer from the type counterparts. R09.2 (E4/E8b): both arms compute "
    "position W - len - rel and vector length 2W - len + 1 and are twins after char<->type substitution. "
    "R09.3 role flow: Left/Inside/Right -> tuple fields .0/.1/.2 -> first/fill(1..len)/last of the word's weight vector; "
    "bucket index min(len, buckets) - 1 on both sides. R09.4: the bias handed to Model::new is the quantised "
    "label_bias of the class whose label equals WordBoundary's discriminant."
)
NOT_DECIDED = ["equality with liblinear's coefficients (numeric; would need a runtime hook, not used)"]

T = "vaporetto::trainer::Trainer"
BF = "vaporetto::trainer::BoundaryFeature"


def kinds_in(s):
    ks = set()
    for m in re.finditer(r"arg1\.(char|type)_(window|ngram)_size", s):
        ks.add(m.group(1))
    return ks


THOROUGH_CONFIGS = [C.NO_CHARWISE, C.NO_CACHE, C.NO_FIX, C.NO_TAG, C.MINIMAL]
QUICK_CONFIGS = [C.NO_CHARWISE, C.NO_CACHE, C.NO_FIX]


def run_trainer_shapes(chk, w):
    """the trainer-side rules of this module alone (for properties that need the produced vector shapes: C11)"""
    _trainer_rules(chk, w)


def run(chk):
    w = C.world_for(chk)
    # the function a trained model computes is the one Predictor::predict evaluates: every structural scoring rule of C01
    # (threshold, padding, pipeline, iterator/weight pairing, offsets, cache, scorer absence, placement, suffix merge) is a
    # necessary condition here as well
    from . import c01 as _c01
    _c01.run(chk)
    if chk.config != "W":
        # feature configurations of crate vaporetto alone: the predictor side only (the trainer is not compiled there)
        return
    _trainer_rules(chk, w)


def _trainer_rules(chk, w):
    from . import ctors as _ctors9
    _ctors9.run(chk, w, only=["model::Model::new", "DictModel::new"])
    # the predictor adds the weight of feature f at boundary i exactly when the trainer's feature extraction emits f for i: the
    # feature loops (window ranges, relative positions, all dictionary matches incl. suffixes) are the other half of the function
    # the model computes (shared with C10)
    # (one closure when both kinds go through a shared generic helper)
    plain_records(chk, w, T + "::train", 1)
    plain_records(chk, w, "vaporetto::tag_trainer::TagTrainer::train_tag", 1)
    from . import c10 as _c10f
    chk.rule("R10.3", "feature loop forms, char/type twins, dictionary feature positions and guards (shared with C10)")
    _c10f.r103(chk, w)
    for rid, txt in (("R09.1", "kind consistency char<->type"), ("R09.2", "arm forms and twins"),
                     ("R09.3", "dictionary role flow"), ("R09.4", "bias provenance")):
        chk.rule(rid, txt)
    fn = T + "::train"
    b = C.body(w, fn)
    chk.fn(fn)
    it = absint.Interp(w, b, models=C.effects.EXTRA_MODELS, summaries=C.summaries(w))
    it.trace_deref_stores = True
    outs = it.run(0)
    names, origin = C.iterator_names(b, outs)
    rn = C.renamer(names)

    def arm_of(o):
        for k, v in o.cons.items():
            if v[0] == "varis" and v[1] == BF:
                return v[2], k
        return None, None

    cf_ = cfgmod.cfg_of(b)

    def loop_sources(h):
        """shown origins of the iterators advanced in loop h"""
        blks = cf_.natural_loops().get(h, set())
        res = []
        for bb2, t2 in cfgmod.calls(b):
            if bb2 not in blks or not (cfgmod.callee(t2) or "").endswith("::next"):
                continue
            pl = t2["args"][0].get("move") or t2["args"][0].get("copy")
            loc = pl["local"] if pl else None
            for _ in range(4):
                if loc in names or loc is None:
                    break
                for st in b.blocks[bb2]["stmts"]:
                    if st["k"] == "assign" and st["place"]["local"] == loc and not st["place"]["proj"] and st["rv"]["k"] == "ref":
                        loc = st["rv"]["place"]["local"]
                        break
                else:
                    break
            if loc in names and names[loc] in origin:
                arg, oo = origin[names[loc]]
                res.append(rn(C.show_arg(forms.Normalizer(it, oo, rename=rn), arg)))
        return res

    arm_forms = {}
    map_of_arm = {}
    n_flows = 0
    for e, o in C.all_calls(outs):
        arm, fsym = arm_of(o)
        if arm not in ("CharacterNgram", "CharacterTypeNgram"):
            continue
        kind = "char" if arm == "CharacterNgram" else "type"
        nz = forms.Normalizer(it, o, rename=rn)
        callee = e[2] or ""
        if callee.endswith("from_elem") or "IndexMut" in callee or "::insert" in callee or "::get_mut" in callee:
            shown = [C.show_arg(nz, a) for a in e[3]]
            for sarg in shown:
                ks = kinds_in(sarg)
                if ks:
                    n_flows += 1
                    chk.ob("R09.1", "train:%s-arm:%s" % (kind, callee.split("::")[-1]), ks == {kind},
                           "in the %s n-gram arm of Trainer::train, `%s` is computed from the %s configuration: %s "
                           "(every stored n-gram weight vector must cover the positions of its own window)"
                           % (kind, callee.split("::")[-1], "/".join(sorted(ks - {kind})) or kind, sarg),
                           site=C.site(b, e[1]), sample={"arm": arm, "callee": callee, "form": sarg})
            if callee.endswith("from_elem"):
                arm_forms.setdefault(kind, {})["size"] = shown[1]
            if "IndexMut" in callee and len(shown) > 1:
                arm_forms.setdefault(kind, {}).setdefault("pos", set()).add(shown[1])
            if callee.endswith("::insert") and e[3][0][0] == "ref":
                map_of_arm[kind] = e[3][0][1]
    chk.floor("R09.1", "kind flows in train arms", n_flows, 6)

    # ---- R09.2 forms + twins
    canon = {}
    for kind in ("char", "type"):
        d = arm_forms.get(kind)
        if not d or "size" not in d or not d.get("pos"):
            chk.undecided("R09.2", "%s-arm" % kind, "vector size / position forms not found in the %s arm" % kind, site=C.site(b))
            continue
        def cz(s):
            s = re.sub(r"<core::str::iter::Chars as core::iter::traits::iterator::Iterator>::count\(str::chars\(&\*\{[^}]*\}\)\)", "LEN", s)
            s = re.sub(r"\[T\]::len\(&\*\{[^}]*\}\)", "LEN", s)
            s = re.sub(r"it\d+\.next\(\)@Some\.0\.0@Character(Type)?Ngram\.0\.rel_position", "REL", s)
            s = s.replace("arg1.%s_window_size" % kind, "W")
            return s
        size = cz(d["size"])
        poss = {cz(p) for p in d["pos"]}
        canon[kind] = (size, poss)
        chk.ob("R09.2", "%s:size" % kind, size == "1 - LEN + 2*W", "%s n-gram weight vector length is `%s`, specification `2*W - LEN + 1` with W the %s window" % (kind, size, kind), site=C.site(b), sample={"kind": kind, "size": size})
        chk.ob("R09.2", "%s:pos" % kind, poss == {"-LEN + W - REL"}, "%s n-gram weight position is %s, specification `W - LEN - REL`" % (kind, sorted(poss)), site=C.site(b), sample={"kind": kind, "pos": sorted(poss)})
    if len(canon) == 2:
        chk.ob("R09.2", "twin(T2)", canon["char"] == canon["type"], "the two n-gram arms of Trainer::train disagree after char<->type substitution: %s vs %s" % (canon["char"], canon["type"]), site=C.site(b))

    # ---- Model::new argument flow
    mn = C.all_calls(outs, lambda e: e[2] == "vaporetto::model::Model::new")
    if len(mn) != 1:
        chk.undecided("R09.1", "train:Model::new", "expected one call of Model::new, found %d" % len(mn), site=C.site(b))
    else:
        e, o = mn[0]
        nz = forms.Normalizer(it, o, rename=rn)
        a = e[3]
        chk.ob("R09.1", "train:Model::new:windows", C.show_arg(nz, a[4]) == "arg1.char_window_size" and C.show_arg(nz, a[5]) == "arg1.type_window_size",
               "Model::new receives window sizes (%s, %s); expected (char_window_size, type_window_size)" % (C.show_arg(nz, a[4]), C.show_arg(nz, a[5])), site=C.site(b, e[1]))
        for i, kind in ((0, "char"), (1, "type")):
            s = C.show_arg(nz, a[i]) if a[i][0] != "agg" else nz.value_atom(dict(a[i][2]).get("0"))
            mh = re.match(r"hv:loop(\d+):", s)
            if mh:
                # the vector is filled by an explicit loop (or a desugared `.map(..).collect()`): its source is what the loop iterates over
                s = " ; ".join(loop_sources(int(mh.group(1)))) or s
            mp = map_of_arm.get(kind)
            ok = mp is not None and ("&" + absint.pstr(mp) in rn(s) or absint.pstr(mp) + ")" in rn(s) or re.search(r"\b%s\b" % re.escape(absint.pstr(mp)), rn(s)) is not None)
            other = map_of_arm.get("type" if kind == "char" else "char")
            bad = other is not None and re.search(r"\b%s\b" % re.escape(absint.pstr(other)), rn(s)) is not None
            chk.ob("R09.1", "train:Model::new:%s-ngrams" % kind, bool(ok) and not bad,
                   "the %s n-gram model argument of Model::new is built from `%s`; expected the map filled in the %s arm (%s)" % (kind, s[:160], kind, absint.pstr(mp) if mp else "?"),
                   site=C.site(b, e[1]), sample={"arg": i, "from": s[:160]})
        # R09.4 bias
        sb = C.show_arg(nz, a[3])
        okb = "to_int_unchecked" in sb and "label_bias(" in sb and "Div(" in sb
        chk.ob("R09.4", "bias:quantised-label-bias", okb, "the model bias is `%s`; expected to_int_unchecked(label_bias(wb_idx) / quantize_multiplier)" % sb[:200], site=C.site(b, e[1]), sample={"bias": sb[:200]})
        coef = [x for x in C.all_calls(outs, lambda e: (e[2] or "").endswith("to_int_unchecked"))]
        divs = set()
        for e2, o2 in coef:
            s2 = C.show_arg(forms.Normalizer(it, o2, rename=rn), e2[3][0])
            m = re.match(r"Div\((.*), (Div\(.*\))\)$", s2)
            if m:
                divs.add(m.group(2))
        chk.ob("R09.4", "same-quantiser", len(divs) == 1, "bias and weights are not divided by the same quantisation multiplier: %s" % sorted(divs), site=C.site(b), sample={"divisors": sorted(divs)})
    # wb_idx closure: compares the class label with WordBoundary's discriminant
    lb = C.all_calls(outs, lambda e: (e[2] or "").endswith("label_bias"))
    pos_ok = False
    for e, o in lb:
        s = C.show_arg(forms.Normalizer(it, o, rename=rn), e[3][1])
        m = re.search(r"closure:([^']*)'", s)
        if "::position(" in s and m:
            cb = w.body(m.group(1))
            if cb is not None:
                ci = absint.Interp(w, cb)
                couts = [x for x in ci.run(0) if x.kind == "return"]
                discr = {v["name"]: v["discr"] for v in w.adt(C.CB)["variants"]}["WordBoundary"]
                # the closure returns (const == *cls): the only integer constraint on the argument must be == discr
                vals = set()
                for x in couts:
                    rv = x.value_at((("L", 0),))
                    for k, c in x.cons.items():
                        if c[0] == "eq" and c[1][0] == "i":
                            vals.add((c[1][1], rv))
                pos_ok = (discr, absint.B(True)) in vals and all(v[0] == discr or v[1] == absint.B(False) for v in vals)
    chk.ob("R09.4", "wb_idx:class-of-WordBoundary", pos_ok, "the class index used for bias/weights is not `position(label == WordBoundary as i32)`", site=C.site(b))

    r093(chk, w, b, it, outs, rn)
    r091_new(chk, w)
    r091_predictor(chk, w)


def r093(chk, w, b, it, outs, rn):
    # the bucket table has exactly dict_word_max_len rows: the record builder derives a word's bucket from the table length
    # (min(word_len, table.len())), which is the trainer's feature length min(word_len, dict_word_max_len) only for that size
    sizes = set()
    for e, o in C.all_calls(outs, lambda e: (e[2] or "").endswith("from_elem") and len(e[3]) > 1 and e[3][0][0] == "agg"):
        sizes.add(C.show_arg(forms.Normalizer(it, o, rename=rn), e[3][1]))
    chk.ob("R09.3", "train:bucket-table-size", sizes == {"arg1.dict_word_max_len"},
           "the table of per-length dictionary weights is allocated with %s rows; expected dict_word_max_len: with another size, words longer than the last bucket are given the "
           "weights of a row that no feature was learned for" % sorted(sizes), site=C.site(b), sample={"sizes": sorted(sizes)})
    # DictionaryWord arm: position -> tuple field
    DP = "vaporetto::trainer::DictionaryWordPosition"
    got = {}
    idxforms = set()
    for o in outs:
        pos = None
        for k, v in o.cons.items():
            if v[0] == "varis" and v[1] == DP:
                pos = v[2]
        if pos is None:
            continue
        nz = forms.Normalizer(it, o, rename=rn)
        for e in o.trace:
            if e[0] == "store" and e[2][-1][0] == "f" and e[2][-1][1] in ("0", "1", "2") and any(x[0] == "f" and str(x[1]).startswith("[") for x in e[2]):
                got.setdefault(pos, set()).add(e[2][-1][1])
            if e[0] == "call" and e[2] and "IndexMut" in e[2]:
                idxforms.add(re.sub(r"it\d+\.next\(\)@Some\.0\.0@DictionaryWord\.0\.length", "LENGTH", C.show_arg(nz, e[3][1])))
    want = {"Left": {"0"}, "Inside": {"1"}, "Right": {"2"}}
    for p in want:
        chk.ob("R09.3", "train:%s" % p, got.get(p) == want[p], "dictionary feature %s is stored into tuple field %s; expected .%s" % (p, sorted(got.get(p, [])), list(want[p])[0]), site=C.site(b), sample={"position": p, "field": sorted(got.get(p, []))})
    chk.ob("R09.3", "train:bucket", idxforms == {"-1 + LENGTH"}, "dictionary weights are stored at bucket %s; expected length - 1" % sorted(idxforms), site=C.site(b))
    # the closure that builds the records
    cl = None
    for e, o in C.all_calls(outs, lambda e: (e[2] or "").endswith("::map")):
        for a in e[3]:
            if a[0] == "agg" and a[1].startswith("closure:"):
                cb = w.body(a[1][len("closure:"):])
                if cb is not None and (any((cfgmod.callee(t) or "").endswith("first_mut") for _, t in cfgmod.calls(cb)) or "WordWeightRecord" in cb.locals[0]["ty"]):
                    cl = cb
    n0 = 0
    if cl is None:
        # the records are built by an explicit loop in Trainer::train itself: one abstract iteration of that loop
        cf_ = cfgmod.cfg_of(b)
        fm = [bb for bb, t in cfgmod.calls(b) if (cfgmod.callee(t) or "").endswith("first_mut")]
        lp = cf_.innermost_loop_of(fm[0]) if len(fm) == 1 else None
        pre = [o for o in it.run(0, stop=[lp[0]]) if o.kind == "stop"] if lp else []
        if not pre:
            chk.undecided("R09.3", "record-builder", "neither a closure nor a loop building WordWeightRecord found", site=C.site(b))
            return
        h, blks = lp
        cl, ci = b, it
        n0 = len(pre[0].trace)
        couts = [x for x in it.run(h, stop=set(cf_.blocks) - blks, env=pre[0].env, cons=pre[0].cons, stop_at_entry_again=True, trace=pre[0].trace)
                 if x.kind == "stop" and x.info == h and (x.cons.get("ret:%d" % h) or (0, 0, None))[2] == "Some"]
    else:
        chk.fn(cl.fn)
        ci = absint.Interp(w, cl, models=C.effects.EXTRA_MODELS)
        ci.trace_deref_stores = True
        couts = [x for x in ci.run(0) if x.kind == "return"]
    roles = {}
    bucket = set()
    size = set()
    for x in couts:
        nz = forms.Normalizer(ci, x)
        idx_forms = {}
        for e in x.trace[n0:]:
            if e[0] == "call" and e[2] and "IndexMut" in e[2] and len(e[3]) > 1 and e[3][1][0] != "agg":
                idx_forms["ret:%d" % e[1]] = C.show_arg(nz, e[3][1])
        for e in x.trace[n0:]:
            slot = e[2][-1][1] if e[0] == "store" and e[2][-1][0] == "f" else None
            if slot is not None and slot not in ("[first]", "[last]") and re.fullmatch(r"\[.*\]", str(slot)):
                # `weights[0] = ..` / `weights[word_len] = ..` (the vector has word_len + 1 entries): the first / last entry
                inner = str(slot)[1:-1]
                f_ = "0" if inner == "0" else forms.show(nz.form(absint.SYM(inner))) if inner.startswith("ret:") else idx_forms.get(inner, inner)
                LEN_ = r"<core::str::iter::Chars as core::iter::traits::iterator::Iterator>::count\(str::chars\(&?[^()]*\)\)"
                slot = "[first]" if f_ == "0" else "[last]" if re.fullmatch(LEN_, f_) else None
            if slot in ("[first]", "[last]"):
                m = re.search(r"\[([^\]]*)\]\.(\d)$", nz.value_atom(e[3]))
                roles[slot] = m.group(2) if m else "?"
                if m:
                    bucket.add(m.group(1))
            if e[0] == "call" and e[2] == "[T]::fill":
                m = re.search(r"\[([^\]]*)\]\.(\d)$", nz.value_atom(e[3][1]))
                roles["fill"] = m.group(2) if m else "?"
            if e[0] == "call" and e[2] and "IndexMut" in e[2] and e[3][1][0] == "agg":
                roles["fill-range"] = C.show_arg(nz, e[3][1])
            if e[0] == "call" and (e[2] or "").endswith("from_elem"):
                size.add(C.show_arg(nz, e[3][1]))
    wl = re.compile(r"<core::str::iter::Chars as core::iter::traits::iterator::Iterator>::count\(str::chars\(&?[^()]*\)\)")
    fr = wl.sub("LEN", roles.get("fill-range") or "")
    chk.ob("R09.3", "record:first<-left(.0)", roles.get("[first]") == "0", "first weight of a dictionary word comes from tuple field .%s; expected .0 (left)" % roles.get("[first]"), site=C.site(cl))
    chk.ob("R09.3", "record:inside<-.1", roles.get("fill") == "1" and fr == "Range{start: 1, end: LEN}", "inside weights come from .%s over %s; expected .1 over 1..word_len" % (roles.get("fill"), fr), site=C.site(cl))
    chk.ob("R09.3", "record:last<-right(.2)", roles.get("[last]") == "2", "last weight of a dictionary word comes from tuple field .%s; expected .2 (right)" % roles.get("[last]"), site=C.site(cl))
    sz = {wl.sub("LEN", s) for s in size}
    chk.ob("R09.3", "record:size", sz == {"1 + LEN"}, "dictionary weight vector length %s; expected word_len + 1" % sorted(sz), site=C.site(cl))
    # bucket index form: min(word_len, buckets) - 1, taken from the value read for idx
    idxv = None
    for x in couts:
        nz = forms.Normalizer(ci, x)
        for e in x.trace[n0:]:
            if e[0] == "call" and e[2] and "Index<" in e[2] and "IndexMut" not in e[2] and len(e[3]) > 1 and e[3][1][0] in ("expr", "sym"):
                idxv = wl.sub("LEN", C.show_arg(nz, e[3][1]))
    if idxv is None and len(ci.index_vals) == 1 and couts:
        # the bucket table is a slice: the index is a built-in index projection, not an Index::index call
        idxv = wl.sub("LEN", C.show_arg(forms.Normalizer(ci, couts[0]), ci.index_vals[0]))
    idxv = forms.resort(idxv) if idxv is not None else None
    chk.ob("R09.3", "record:bucket", idxv is not None and re.match(r"-1 \+ min\(LEN, (alloc::vec::Vec::len|\[T\]::len)\(&.*\)\)$", idxv) is not None,
           "bucket index for a dictionary word is `%s`; expected min(word_len, number of buckets) - 1" % idxv, site=C.site(cl), sample={"bucket": idxv})


def r091_new(chk, w):
    fn = T + "::new"
    b, it, outs = C.run_fn(w, fn)
    chk.fn(fn)
    roles = ["char_window_size", "char_ngram_size", "type_window_size", "type_ngram_size"]
    pnames = [d["name"] for d in sorted((d for d in b.debug if d["arg"]), key=lambda d: d["arg"])]
    n = 0
    for o in outs:
        if o.kind != "return":
            continue
        v = o.value_at((("L", 0),))
        if not (v[0] == "var" and v[2] == "Ok"):
            continue
        agg = v[3][0]
        if agg[0] != "agg" or agg[1] != T:
            chk.undecided("R09.1", "new:literal", "Ok value is not a Trainer literal", site=C.site(b))
            continue
        d = dict(agg[2])
        for i, r in enumerate(roles):
            n += 1
            chk.ob("R09.1", "new:field:%s" % r, d.get(r) == absint.SYM("arg%d" % (i + 1)),
                   "Trainer::new stores %s into field %s (parameter order: %s)" % (d.get(r), r, pnames[:4]), site=C.site(b))
        tt = [e for e in o.trace if e[0] == "call" and e[2] == "vaporetto::tag_trainer::TagTrainer::new"]
        ok = len(tt) == 1 and tt[0][3][:4] == tuple(absint.SYM("arg%d" % (i + 1)) for i in range(4))
        chk.ob("R09.1", "new:TagTrainer::new", ok, "TagTrainer::new does not receive (char_window, char_ngram, type_window, type_ngram) in order", site=C.site(b))
        tb = w.body("vaporetto::tag_trainer::TagTrainer::new")
        if tb is not None:
            tn = [d["name"] for d in sorted((d for d in tb.debug if d["arg"]), key=lambda d: d["arg"])][:4]
            chk.ob("R09.1", "TagTrainer::new:param-kinds", [x.split("_")[0] for x in tn] == ["char", "char", "type", "type"], "TagTrainer::new parameters are %s" % tn, site=C.site(tb))
    chk.floor("R09.1", "Trainer::new fields", n, 4)


def plain_records(chk, w, fn, floor):
    """R09.5: the n-gram records of the model are built from the learned (n-gram, weight vector) pairs as they are: the weight
    vector keeps the length its arm gave it (R09.2) - the predictor's placement arithmetic and its fixed-length fast path rely on it"""
    from . import fmt as _fmt
    chk.rule("R09.5", "NgramData / TagNgramData records hold the learned (ngram, weights) pair unchanged")
    n = 0
    for k in C.closure_keys(w, fn):
        cb = w.body(k)
        if cb is None or "NgramData" not in cb.locals[0]["ty"]:
            continue
        n += 1
        ci = absint.Interp(w, cb, models=C.effects.EXTRA_MODELS)
        ok = True
        why = []
        for x in ci.run(0):
            if x.kind != "return":
                ok = False
                why.append(x.kind)
                continue
            v = ci.resolve(x, x.value_at((("L", 0),)))
            calls = [e[2] for e in x.trace if e[0] == "call"]
            d = dict(v[2]) if v[0] == "agg" else {}
            good = v[0] == "agg" and ci.resolve(x, d.get("ngram")) == absint.SYM("arg2.0") and ci.resolve(x, d.get("weights")) == absint.SYM("arg2.1") and not calls
            if not good:
                ok = False
                why.append("returns %s, calls %s" % (str(v)[:120], calls))
        chk.ob("R09.5", "%s:record[%d]:plain" % (fn.split("::")[-1], n - 1), ok,
               "a closure of %s builds an n-gram record that is not simply {ngram: pair.0, weights: pair.1} (%s)" % (fn, "; ".join(why)[:300]), site=C.site(cb), sample={"closure": k})
    b = C.body(w, fn)
    if n == 0:
        # explicit loops instead of closures: no call that removes / reorders entries of a weight vector in the function
        bad = [cfgmod.callee(t) for _, t in cfgmod.calls(b) if (cfgmod.callee(t) or "").startswith("alloc::vec::Vec") and (cfgmod.callee(t) or "").split("::")[-1] in _fmt.SHRINKERS
               and t["args"] and "i32" in b.locals[(t["args"][0].get("move") or t["args"][0].get("copy") or {"local": 0})["local"]]["ty"]]
        has = any(s_["k"] == "assign" and s_["rv"]["k"] == "aggr" and "NgramData" in str(s_["rv"].get("adt")) for bl in b.blocks for s_ in bl["stmts"])
        chk.ob("R09.5", "%s:records-inline" % fn.split("::")[-1], has and not bad, "%s builds its n-gram records inline and shrinks weight vectors with %s" % (fn, bad) if has else "%s builds no n-gram record" % fn, site=C.site(b))
    else:
        chk.floor("R09.5", "record closures of %s" % fn.split("::")[-1], n, floor)


def tag_loop_body(w, fn):
    """the body that holds the tag model loop of Predictor::new: a closure of it (`predict_tags.then(|| ..)`) or the function itself"""
    for k in C.closure_keys(w, fn) + [fn]:
        cb = w.body(k)
        if cb is None:
            continue
        cs = [cfgmod.callee(t) or "" for _, t in cfgmod.calls(cb)]
        if any(c.endswith("HashMap::insert") for c in cs) and any(c.endswith("Vec::push") for c in cs):
            return cb
    return None


def r091_predictor(chk, w):
    fn = C.P + "::new"
    b, it, outs = C.run_fn(w, fn)
    chk.fn(fn)
    found = {"char": set(), "type": set()}
    for e, o in C.all_calls(outs, lambda e: e[2] in ("vaporetto::char_scorer::CharScorer::new", "vaporetto::type_scorer::TypeScorer::new")):
        kind = "char" if "char_scorer" in e[2] else "type"
        nz = forms.Normalizer(it, o)
        shown = [C.show_arg(nz, a) for a in e[3]]
        found[kind].add(e[1])       # call sites, not paths: the same call is reached with and without tag prediction
        if kind == "char":
            ok = shown[0] == "arg1.0.char_ngram_model" and shown[1] == "arg1.0.dict_model" and shown[2] == "arg1.0.char_window_size"
            tagarg = e[3][3] if len(e[3]) > 3 else None
        else:
            ok = shown[0] == "arg1.0.type_ngram_model" and shown[1] == "arg1.0.type_window_size"
            tagarg = e[3][2] if len(e[3]) > 2 else None
        chk.ob("R09.1", "Predictor::new:%s-scorer-args" % kind, ok, "%sScorer::new receives %s" % (kind.capitalize(), shown), site=C.site(b, e[1]), sample={"kind": kind, "args": shown})
    found = {k: len(v) for k, v in found.items()}
    chk.ob("R09.1", "Predictor::new:scorers", found == {"char": 1, "type": 1}, "scorer constructor calls found: %s" % found, site=C.site(b))
    # tag n-gram vectors: the tag model loop (in the `predict_tags.then(|| ..)` closure, or in Predictor::new itself when written as
    # if/else) pushes char_ngram_model to the vector handed to the char scorer
    cl = tag_loop_body(w, fn)
    if cl is not None and cl.fn == fn:
        pushes = {}
        for x in outs:
            nz = forms.Normalizer(it, x)
            for e in x.trace:
                if e[0] == "call" and e[2] == "alloc::vec::Vec::push" and "ngram_model" in nz.value_atom(e[3][1]):
                    pushes[nz.value_atom(e[3][0])] = nz.value_atom(e[3][1])
        kinds = sorted((k, v) for k, v in pushes.items())
        okc = any("char_ngram_model" in v for k, v in kinds) and any("type_ngram_model" in v for k, v in kinds)
        chk.ob("R09.1", "Predictor::new:tag-model-vectors", okc and len(kinds) == 2, "tag n-gram model vectors are filled from %s" % kinds, site=C.site(cl), sample={"pushes": kinds})
        loc = {}
        for k, v in kinds:
            m = re.fullmatch(r"&_(\d+)", k)
            if m:
                loc["char" if "char_ngram_model" in v else "type"] = int(m.group(1))
        args_c = [t for _, t in cfgmod.calls(b) if cfgmod.callee(t) == "vaporetto::char_scorer::CharScorer::new"]
        args_t = [t for _, t in cfgmod.calls(b) if cfgmod.callee(t) == "vaporetto::type_scorer::TypeScorer::new"]

        def last_arg_local_(t):
            p_ = t["args"][-1].get("move") or t["args"][-1].get("copy")
            return p_["local"] if p_ else None
        okflow = len(loc) == 2 and bool(args_c and args_t) and last_arg_local_(args_c[0]) in C.move_targets(b, loc["char"]) and last_arg_local_(args_t[0]) in C.move_targets(b, loc["type"])
        chk.ob("R09.1", "Predictor::new:tag-vectors-to-scorers", okflow, "the vector collecting char tag n-grams is not the one handed to CharScorer::new (or type/TypeScorer)", site=C.site(b))
    elif cl is not None:
        ci = absint.Interp(w, cl, models=C.effects.EXTRA_MODELS)
        pushes = {}
        for x in ci.run(0):
            nz = forms.Normalizer(ci, x)
            for e in x.trace:
                if e[0] == "call" and e[2] == "alloc::vec::Vec::push":
                    pushes[nz.value_atom(e[3][0])] = nz.value_atom(e[3][1])
        kinds = sorted((k, v) for k, v in pushes.items())
        okc = any("char_ngram_model" in v for k, v in kinds) and any("type_ngram_model" in v for k, v in kinds)
        chk.ob("R09.1", "Predictor::new:tag-model-vectors", okc and len(kinds) == 2, "tag n-gram model vectors are filled from %s" % kinds, site=C.site(cl), sample={"pushes": kinds})
        # which captured vector goes to which scorer: upvar index order = (n_tags, tag_char, tag_type) by capture;
        # check that the vector receiving char_ngram_model is the one passed to CharScorer::new
        up = {}
        for k, v in kinds:
            m = re.search(r"arg1\.(\d+)", k)
            if m:
                up["char" if "char_ngram_model" in v else "type"] = int(m.group(1))
        pb = b
        # closure aggregate in Predictor::new: fields are refs to the captured locals
        cap = None
        for blk in pb.blocks:
            for s in blk["stmts"]:
                if s["k"] == "assign" and s["rv"]["k"] == "closure" and s["rv"]["fn"] == cl.fn:
                    cap = s["rv"]["fields"]
        okflow = False
        if cap and len(up) == 2:
            def cap_local(i):
                o_ = cap[i]
                p_ = o_.get("move") or o_.get("copy")
                # the captured operand is a temp holding `&mut local`
                for blk in pb.blocks:
                    for s in blk["stmts"]:
                        if s["k"] == "assign" and s["place"]["local"] == p_["local"] and s["rv"]["k"] == "ref":
                            return s["rv"]["place"]["local"]
                return None
            lc, lt = cap_local(up["char"]), cap_local(up["type"])
            args_c = [t for _, t in cfgmod.calls(pb) if cfgmod.callee(t) == "vaporetto::char_scorer::CharScorer::new"]
            args_t = [t for _, t in cfgmod.calls(pb) if cfgmod.callee(t) == "vaporetto::type_scorer::TypeScorer::new"]
            def last_arg_local(t):
                a = t["args"][-1]
                p_ = a.get("move") or a.get("copy")
                return p_["local"] if p_ else None
            okflow = bool(args_c and args_t) and last_arg_local(args_c[0]) in C.move_targets(pb, lc) and last_arg_local(args_t[0]) in C.move_targets(pb, lt)
        chk.ob("R09.1", "Predictor::new:tag-vectors-to-scorers", okflow, "the vector collecting char tag n-grams is not the one handed to CharScorer::new (or type/TypeScorer)", site=C.site(pb))
