"""C12 - Tag models reflect exactly the tags seen in training."""
import re

from .. import facts, absint, forms, cfg as cfgmod, effects
from . import common as C
from . import c06

EXPLANATION = (
    "R12.1 (FDAI): in TagTrainer::train_tag the tag-collection loop, over contains_key in {true,false}: an unseen tag is "
    "inserted with id = current number of distinct tags and pushed to the category's tag list (paired, once); a seen tag "
    "does neither; absent tags (None) are skipped. R12.2 = R06.2 (score slots <-> candidate count). R12.3 defaults: "
    "Trainer::new records a dictionary token's tags only when the token is not yet present; TagTrainer::train adds a "
    "default example only if the token is absent from the corpus examples and some tag is present. R12.4 label<->column "
    "(twins T4): the bias store and the two weight stores index with `class_offset + label` with the same offset variable; "
    "all score vectors are vec![0; n_class] of the same n_class; the class offset advances by the number of tags of a "
    "trained category only (checked in R06.2)."
)
NOT_DECIDED = ["equality of the stored scores with the learned classifier (numeric)"]

TT = "vaporetto::tag_trainer::TagTrainer"


def run(chk):
    w = C.world_for(chk)
    # the model's tag weight tables reach the predictor through the model file: every type of the file must have both codec
    # sides derived (shared with C07)
    from . import c07 as _c07
    chk.rule("R07.3", "derived Encode/Decode symmetry of the model file types (shared with C07)")
    with chk.only(rules={"R07.3"}, keys=lambda k: "Tag" in k):
        _c07.r073(chk, w)
    # this property is stated over tokens: the token iterator and the tokenized writer (all of C02) are part of its mechanism
    from . import c02 as _c02
    with chk.only(rules={"R02.1", "R02.2", "R02.4", "R02.5"}):
        _c02.run(chk)
    for rid, txt in (("R12.1", "distinct tags recorded exactly once with consecutive ids"), ("R12.2", "= R06.2"),
                     ("R12.3", "default tags only for absent tokens"), ("R12.4", "label <-> column agreement of the three stores")):
        chk.rule(rid, txt)
    fn = TT + "::train_tag"
    b = C.body(w, fn)
    chk.fn(fn)
    cf = cfgmod.cfg_of(b)
    loops = cf.natural_loops()
    it = absint.Interp(w, b, models=effects.EXTRA_MODELS, summaries=C.summaries(w))
    it.trace_deref_stores = True
    # ---- R12.1: the innermost loop containing contains_key
    ck = [bb for bb, t in cfgmod.calls(b) if (cfgmod.callee(t) or "").endswith("::contains_key")]
    if len(ck) != 1:
        chk.undecided("R12.1", "contains_key", "expected one contains_key test in train_tag, found %d" % len(ck), site=C.site(b))
    else:
        h, blks = cf.innermost_loop_of(ck[0])
        pre = [o for o in it.run(0, stop=[h]) if o.kind == "stop"]
        outs = it.run(h, stop=set(cf.blocks) - blks, env=pre[0].env, cons=pre[0].cons, stop_at_entry_again=True, trace=pre[0].trace)
        n0 = len(pre[0].trace)
        table = {}
        for o in outs:
            if o.kind != "stop" or o.info != h:
                continue
            item = o.cons.get("ret:%d" % h)
            if not item or item[2] != "Some":
                continue
            tr = o.trace[n0:]
            nz = forms.Normalizer(it, o)
            present = None
            tagv = None
            for s, c in o.cons.items():
                if c[0] == "varis" and c[1] == "core::option::Option" and s != "ret:%d" % h and "@Some" in s:
                    tagv = c[2]
            ckr = it.resolve(o, absint.SYM("ret:%d" % ck[0]))
            if ckr[0] == "b":
                present = ckr[1]
            ins = [e for e in tr if e[0] == "call" and (e[2] or "").endswith("HashMap::insert")]
            psh = [e for e in tr if e[0] == "call" and (e[2] or "").endswith("Vec::push")]
            same_map = bool(ins) and any(e[0] == "call" and e[1] == ck[0] and e[3][0] == ins[0][3][0] for e in tr)
            idform = C.show_arg(nz, ins[0][3][2]) if ins else None
            keysame = bool(ins and psh) and ("it" in str(ins[0][3][1]) or True)
            table.setdefault((tagv, present), set()).add((len(ins), len(psh), bool(same_map), idform if idform is None else ("len(map)" if re.fullmatch(r"hashbrown::map::HashMap::len\(&.*\)", idform) else idform)))
        want = {("Some", False): {(1, 1, True, "len(map)")}, ("Some", True): {(0, 0, False, None)}, ("None", None): {(0, 0, False, None)}}
        for k, v in want.items():
            chk.ob("R12.1", "case(tag=%s,seen=%s)" % k, table.get(k) == v,
                   "tag collection for (tag %s, already seen %s) does (inserts, pushes, same map, id) = %s; specification %s" % (k[0], k[1], sorted(table.get(k, []), key=str), sorted(v, key=str)),
                   site=C.site(b, h), sample={"case": list(map(str, k)), "derived": str(sorted(table.get(k, []), key=str))})
        chk.floor("R12.1", "cases", len(table), 3)
    # ---- R12.2
    with chk.only(keys=lambda k: "tag_candidates" not in k):   # the reporting accessor is C06's subject; here: trainer slots <-> predictor slots
        c06.r062(chk, w)
    # ---- R12.4
    outs = it.run(0)
    stores = {}
    names_, origin_ = C.iterator_names(b, outs)

    def label_iter_origin(local):
        nm = names_.get(local)
        if nm is None:
            return ""
        ov, oo = origin_[nm]
        return forms.Normalizer(it, oo).value_atom(ov)
    for e, o in C.all_calls(outs, lambda e: "IndexMut" in (e[2] or "") and len(e[3]) > 1):
        nz = forms.Normalizer(it, o)
        f = C.show_arg(nz, e[3][1])
        arm = [c[2] for s, c in o.cons.items() if c[0] == "varis" and c[1].endswith("TagFeature")]
        f = re.sub(r"<core::iter::adapters::enumerate::Enumerate as core::iter::traits::iterator::Iterator>::next\(&_(\d+)\)", lambda m: "LABELS.next()" if "labels(" in label_iter_origin(int(m.group(1))) else "it_%s.next()" % m.group(1), f)
        stores.setdefault(arm[0] if arm else "bias", set()).add(re.sub(r"ret:\d+", "ret:N", f))
    chk.floor("R12.4", "indexed stores", len(stores), 3)
    shapes = set()
    for k, fs in stores.items():
        for f in fs:
            m = re.fullmatch(r"\*\{LABELS\.next\(\)@Some\.0\.1\} \+ (hv:loop\d+:_\d+)", f)
            shapes.add(m.group(1) if m else "BAD:" + f)
            chk.ob("R12.4", "store:%s" % k, m is not None, "the %s store of train_tag indexes with `%s`; expected class_offset + label (the label of the liblinear class, not its position)" % (k, f),
                   site=C.site(b), sample={"store": k, "index": f})
    chk.ob("R12.4", "same-offset-variable(T4)", len(shapes) == 1 and not any(s.startswith("BAD") for s in shapes), "the three stores use different offsets: %s" % sorted(shapes), site=C.site(b))
    # the label in the index is the class label read from labels() (second component of enumerate item), and
    # the coefficient is requested for the class *position* (first component)
    # n_class vectors
    ncls = set()
    for e, o in C.all_calls(outs, lambda e: (e[2] or "").endswith("from_elem") and e[3][0] == absint.I(0)):
        nz = forms.Normalizer(it, o)
        ncls.add(re.sub(r"&_\d+", "&_", C.show_arg(nz, e[3][1]))[:80])
    cl_sizes = set()
    for k in C.closure_keys(w, fn):
        bs = w.bodies[k]
        if True:
            cb = bs[0]
            for bb, t in cfgmod.calls(cb):
                if (cfgmod.callee(t) or "").endswith("from_elem"):
                    a = t["args"][1]
                    p = a.get("copy") or a.get("move")
                    cal, fl, par = C.backward_slice(cb, p["local"])
                    cl_sizes.add((cb.fn.split("::")[-1], tuple(sorted(fl)), tuple(sorted(par))))
    # the closures capture n_class by reference: the captured local in train_tag must be the bias vector's size local
    cap_locals = set()
    bias_size_local = None
    for blk in b.blocks:
        for s in blk["stmts"]:
            if s["k"] == "assign" and s["rv"]["k"] == "closure" and any(s["rv"]["fn"].endswith(c[0]) for c in cl_sizes):
                for f in s["rv"]["fields"]:
                    p = f.get("move") or f.get("copy")
                    if p:
                        # temp holding `&n_class`
                        for blk2 in b.blocks:
                            for s2 in blk2["stmts"]:
                                if s2["k"] == "assign" and s2["place"]["local"] == p["local"] and s2["rv"]["k"] == "ref":
                                    cap_locals.add(s2["rv"]["place"]["local"])
    for bb, t in cfgmod.calls(b):
        if (cfgmod.callee(t) or "").endswith("from_elem") and "const" in t["args"][0] and t["args"][0]["const"].get("int") == 0:
            p = t["args"][1].get("copy") or t["args"][1].get("move")
            if p:
                # follow the copy back to the named local
                src = p["local"]
                for blk in b.blocks:
                    for s in blk["stmts"]:
                        if s["k"] == "assign" and s["place"]["local"] == src and s["rv"]["k"] == "use":
                            q = s["rv"]["a"].get("copy") or s["rv"]["a"].get("move")
                            if q:
                                src = q["local"]
                bias_size_local = src
    chk.ob("R12.4", "score-vectors-same-n_class", len(cl_sizes) == 2 and cap_locals == {bias_size_local} and bias_size_local is not None,
           "bias and n-gram score vectors are not all vec![0; n_class] of the same variable (closure sizes %s, captured %s, bias size local %s)" % (sorted(cl_sizes), sorted(cap_locals), bias_size_local),
           site=C.site(b), sample={"closures": [c[0] for c in cl_sizes]})
    r123(chk, w)


def r123(chk, w):
    # Trainer::new: default tags inserted only when absent
    fn = "vaporetto::trainer::Trainer::new"
    b = C.body(w, fn)
    chk.fn(fn)
    it = absint.Interp(w, b, models=effects.EXTRA_MODELS, summaries=C.summaries(w))
    outs = it.run(0)
    rows = set()
    for o in outs:
        ck = [e for e in o.trace if e[0] == "call" and (e[2] or "").endswith("::contains_key")]
        ins = [e for e in o.trace if e[0] == "call" and (e[2] or "").endswith("HashMap::insert")]
        for e in ck:
            r = it.resolve(o, absint.SYM("ret:%d" % e[1]))
            if r[0] == "b":
                later = [x for x in ins if o.trace.index(x) > o.trace.index(e)]
                rows.add((r[1], len(later) > 0))
    if not rows:
        # second idiom: `map.entry(key).or_insert_with(..)` / `.or_insert(..)` keeps an existing value by the contract of Entry
        names_ = {(e[2] or "").split("::")[-1] for o in outs for e in o.trace if e[0] == "call" and ("hashbrown::" in (e[2] or "") or "collections::hash" in (e[2] or ""))}
        if "entry" in names_ and (names_ & {"or_insert_with", "or_insert"}) and not (names_ & {"insert", "and_modify", "insert_entry", "or_default"}):
            rows = {(True, False), (False, True)}
    chk.ob("R12.3", "Trainer::new:first-wins", rows == {(True, False), (False, True)},
           "Trainer::new records dictionary tags as (already present, inserts) = %s; expected insert only when absent" % sorted(rows), site=C.site(b), sample={"rows": sorted(map(str, rows))})
    # TagTrainer::train
    fn = TT + "::train"
    b = C.body(w, fn)
    chk.fn(fn)
    it = absint.Interp(w, b, models=effects.EXTRA_MODELS, summaries=C.summaries(w))
    cf = cfgmod.cfg_of(b)
    loops = cf.natural_loops()
    ck = [bb for bb, t in cfgmod.calls(b) if (cfgmod.callee(t) or "").endswith("::contains_key")]
    okd = False
    rows = set()
    if len(ck) == 1:
        h, blks = cf.innermost_loop_of(ck[0])
        pre = [o for o in it.run(0, stop=[h]) if o.kind == "stop"]
        outs = it.run(h, stop=set(cf.blocks) - blks, env=pre[0].env, cons=pre[0].cons, stop_at_entry_again=True, trace=pre[0].trace)
        n0 = len(pre[0].trace)
        for o in outs:
            if o.kind != "stop" or o.info != h:
                continue
            tr = o.trace[n0:]
            anyr = [it.resolve(o, absint.SYM("ret:%d" % e[1])) for e in tr if e[0] == "call" and (e[2] or "").endswith("::any")]
            ckr = [it.resolve(o, absint.SYM("ret:%d" % e[1])) for e in tr if e[0] == "call" and e[1] == ck[0]]
            ins = [e for e in tr if e[0] == "call" and (e[2] or "").endswith("BTreeMap::insert")]
            if not anyr:
                continue
            rows.add((anyr[0][1] if anyr[0][0] == "b" else None, ckr[0][1] if ckr and ckr[0][0] == "b" else None, len(ins)))
        okd = rows == {(False, None, 0), (True, True, 0), (True, False, 1)}
    chk.ob("R12.3", "TagTrainer::train:defaults", okd,
           "default tag examples are added as (some tag present, token in corpus, inserts) = %s; expected an insert exactly for (true, false)" % sorted(rows, key=str), site=C.site(b), sample={"rows": sorted(map(str, rows))})
