"""C12 - Tag models reflect exactly the tags seen in training."""
import re

from .. import facts, absint, forms, cfg as cfgmod, effects
from . import common as C
from . import c06

EXPLANATION = (
    "R12.1 (FDAI): in TagTrainer::train_tag the tag-collection loop, over contains_key in {true,false}: an unseen tag is "
    "inserted with id = current number of distinct tags and pushed to the category's tag list (paired, once); a seen tag "
    "does neither; absent tags (None) are skipped. R12.2 = R06.2 (score slots <-> candidate count). R12.3 defaults: "
    "Trainer::new records a dictionary token's tags only when the token is not yet present; TagTrainer::train adds a "
    "default example only if the token is absent from the corpus examples and some tag is present. R12.4 label<->column "
    "(twins T4): the bias store and the two weight stores index with `class_offset + label` with the same offset variable; "
    "all score vectors are vec![0; n_class] of the same n_class; the class offset advances by the number of tags of a "
    "trained category only (checked in R06.2). R12.5 (E4+E8b): the tag feature loops of TagTrainer::add_example: for n in "
    "0..N, L = token length + n + 1, starts i in satsub(token end, L) .. min(token start + 1, satsub(len, L - 1)), content "
    "(i, i + L), relative position i + L - token end; saturating differences are compared by their linear difference, "
    "min/max arguments in any order; the character and the character-type loops are twins."
)
NOT_DECIDED = ["equality of the stored scores with the learned classifier (numeric)"]

TT = "vaporetto::tag_trainer::TagTrainer"


def run(chk):
    w = C.world_for(chk)
    # the model's tag weight tables reach the predictor through the model file: every type of the file must have both codec
    # sides derived (shared with C07)
    from . import c07 as _c07
    chk.rule("R07.3", "derived Encode/Decode symmetry of the model file types (shared with C07)")
    with chk.only(rules={"R07.3"}, keys=lambda k: "Tag" in k):
        _c07.r073(chk, w)
    # this property is stated over tokens: the token iterator and the tokenized writer (all of C02) are part of its mechanism
    from . import c02 as _c02
    with chk.only(rules={"R02.1", "R02.2", "R02.4", "R02.5"}):
        _c02.run(chk)
    for rid, txt in (("R12.1", "distinct tags recorded exactly once with consecutive ids"), ("R12.2", "= R06.2"),
                     ("R12.3", "default tags only for absent tokens"), ("R12.4", "label <-> column agreement of the three stores")):
        chk.rule(rid, txt)
    fn = TT + "::train_tag"
    b = C.body(w, fn)
    chk.fn(fn)
    cf = cfgmod.cfg_of(b)
    loops = cf.natural_loops()
    it = absint.Interp(w, b, models=effects.EXTRA_MODELS, summaries=C.summaries(w))
    it.trace_deref_stores = True
    # ---- R12.1: the innermost loop containing contains_key
    ck = [bb for bb, t in cfgmod.calls(b) if (cfgmod.callee(t) or "").endswith("::contains_key")]
    if len(ck) != 1:
        chk.undecided("R12.1", "contains_key", "expected one contains_key test in train_tag, found %d" % len(ck), site=C.site(b))
    else:
        h, blks = cf.innermost_loop_of(ck[0])
        pre = [o for o in it.run(0, stop=[h]) if o.kind == "stop"]
        outs = it.run(h, stop=set(cf.blocks) - blks, env=pre[0].env, cons=pre[0].cons, stop_at_entry_again=True, trace=pre[0].trace)
        n0 = len(pre[0].trace)
        table = {}
        for o in outs:
            if o.kind != "stop" or o.info != h:
                continue
            item = o.cons.get("ret:%d" % h)
            if not item or item[2] != "Some":
                continue
            tr = o.trace[n0:]
            nz = forms.Normalizer(it, o)
            present = None
            tagv = None
            for s, c in o.cons.items():
                if c[0] == "varis" and c[1] == "core::option::Option" and s != "ret:%d" % h and "@Some" in s:
                    tagv = c[2]
            ckr = it.resolve(o, absint.SYM("ret:%d" % ck[0]))
            if ckr[0] == "b":
                present = ckr[1]
            ins = [e for e in tr if e[0] == "call" and (e[2] or "").endswith("HashMap::insert")]
            psh = [e for e in tr if e[0] == "call" and (e[2] or "").endswith("Vec::push")]
            same_map = bool(ins) and any(e[0] == "call" and e[1] == ck[0] and e[3][0] == ins[0][3][0] for e in tr)
            idform = C.show_arg(nz, ins[0][3][2]) if ins else None
            keysame = bool(ins and psh) and ("it" in str(ins[0][3][1]) or True)
            table.setdefault((tagv, present), set()).add((len(ins), len(psh), bool(same_map), idform if idform is None else ("len(map)" if re.fullmatch(r"hashbrown::map::HashMap::len\(&.*\)", idform) else idform)))
        want = {("Some", False): {(1, 1, True, "len(map)")}, ("Some", True): {(0, 0, False, None)}, ("None", None): {(0, 0, False, None)}}
        for k, v in want.items():
            chk.ob("R12.1", "case(tag=%s,seen=%s)" % k, table.get(k) == v,
                   "tag collection for (tag %s, already seen %s) does (inserts, pushes, same map, id) = %s; specification %s" % (k[0], k[1], sorted(table.get(k, []), key=str), sorted(v, key=str)),
                   site=C.site(b, h), sample={"case": list(map(str, k)), "derived": str(sorted(table.get(k, []), key=str))})
        chk.floor("R12.1", "cases", len(table), 3)
    # ---- R12.2
    with chk.only(keys=lambda k: "tag_candidates" not in k):   # the reporting accessor is C06's subject; here: trainer slots <-> predictor slots
        c06.r062(chk, w)
    # ---- R12.4
    outs = it.run(0)
    stores = {}
    names_, origin_ = C.iterator_names(b, outs)

    def label_iter_origin(local):
        nm = names_.get(local)
        if nm is None:
            return ""
        ov, oo = origin_[nm]
        return forms.Normalizer(it, oo).value_atom(ov)
    for e, o in C.all_calls(outs, lambda e: "IndexMut" in (e[2] or "") and len(e[3]) > 1):
        nz = forms.Normalizer(it, o)
        f = C.show_arg(nz, e[3][1])
        arm = [c[2] for s, c in o.cons.items() if c[0] == "varis" and c[1].endswith("TagFeature")]
        f = re.sub(r"<core::iter::adapters::enumerate::Enumerate as core::iter::traits::iterator::Iterator>::next\(&_(\d+)\)", lambda m: "LABELS.next()" if "labels(" in label_iter_origin(int(m.group(1))) else "it_%s.next()" % m.group(1), f)
        stores.setdefault(arm[0] if arm else "bias", set()).add(re.sub(r"ret:\d+", "ret:N", f))
    chk.floor("R12.4", "indexed stores", len(stores), 3)
    shapes = set()
    for k, fs in stores.items():
        for f in fs:
            m = re.fullmatch(r"\*\{LABELS\.next\(\)@Some\.0\.1\} \+ (hv:loop\d+:_\d+)", f)
            shapes.add(m.group(1) if m else "BAD:" + f)
            chk.ob("R12.4", "store:%s" % k, m is not None, "the %s store of train_tag indexes with `%s`; expected class_offset + label (the label of the liblinear class, not its position)" % (k, f),
                   site=C.site(b), sample={"store": k, "index": f})
    chk.ob("R12.4", "same-offset-variable(T4)", len(shapes) == 1 and not any(s.startswith("BAD") for s in shapes), "the three stores use different offsets: %s" % sorted(shapes), site=C.site(b))
    # the label in the index is the class label read from labels() (second component of enumerate item), and
    # the coefficient is requested for the class *position* (first component)
    # n_class vectors
    ncls = set()
    for e, o in C.all_calls(outs, lambda e: (e[2] or "").endswith("from_elem") and e[3][0] == absint.I(0)):
        nz = forms.Normalizer(it, o)
        ncls.add(re.sub(r"&_\d+", "&_", C.show_arg(nz, e[3][1]))[:80])
    cl_sizes = set()
    for k in C.closure_keys(w, fn):
        bs = w.bodies[k]
        if True:
            cb = bs[0]
            for bb, t in cfgmod.calls(cb):
                if (cfgmod.callee(t) or "").endswith("from_elem"):
                    a = t["args"][1]
                    p = a.get("copy") or a.get("move")
                    cal, fl, par = C.backward_slice(cb, p["local"])
                    cl_sizes.add((cb.fn.split("::")[-1], tuple(sorted(fl)), tuple(sorted(par))))
    # the closures capture n_class by reference: the captured local in train_tag must be the bias vector's size local
    cap_locals = set()
    bias_size_local = None
    for blk in b.blocks:
        for s in blk["stmts"]:
            if s["k"] == "assign" and s["rv"]["k"] == "closure" and any(s["rv"]["fn"].endswith(c[0]) for c in cl_sizes):
                for f in s["rv"]["fields"]:
                    p = f.get("move") or f.get("copy")
                    if p:
                        # temp holding `&n_class`
                        for blk2 in b.blocks:
                            for s2 in blk2["stmts"]:
                                if s2["k"] == "assign" and s2["place"]["local"] == p["local"] and s2["rv"]["k"] == "ref":
                                    cap_locals.add(s2["rv"]["place"]["local"])
    for bb, t in cfgmod.calls(b):
        if (cfgmod.callee(t) or "").endswith("from_elem") and "const" in t["args"][0] and t["args"][0]["const"].get("int") == 0:
            p = t["args"][1].get("copy") or t["args"][1].get("move")
            if p:
                # follow the copy back to the named local
                src = p["local"]
                for blk in b.blocks:
                    for s in blk["stmts"]:
                        if s["k"] == "assign" and s["place"]["local"] == src and s["rv"]["k"] == "use":
                            q = s["rv"]["a"].get("copy") or s["rv"]["a"].get("move")
                            if q:
                                src = q["local"]
                bias_size_local = src
    chk.ob("R12.4", "score-vectors-same-n_class", len(cl_sizes) == 2 and cap_locals == {bias_size_local} and bias_size_local is not None,
           "bias and n-gram score vectors are not all vec![0; n_class] of the same variable (closure sizes %s, captured %s, bias size local %s)" % (sorted(cl_sizes), sorted(cap_locals), bias_size_local),
           site=C.site(b), sample={"closures": [c[0] for c in cl_sizes]})
    r123(chk, w)
    r125(chk, w)
    r126(chk, w)


def r126(chk, w):
    """the per-category tables of train_tag (tag -> id maps, tag lists) have one entry per tag category of the WIDEST example: the
    collection loop zips every example's tags with them, and a zip stops at the shorter side - categories beyond the tables' size
    are silently never recorded"""
    chk.rule("R12.6", "train_tag sizes its per-category tables by the maximum number of tag categories over all examples")
    fn = TT + "::train_tag"
    b, it, outs = C.run_fn(w, fn)
    sizes = []
    for e, o in C.all_calls(outs, lambda e_: (e_[2] or "").endswith("from_elem")):
        ty = C.tyn(b.locals[e[4]]["ty"]) if len(e) > 4 and e[4] is not None else ""
        if not ("HashMap<" in ty or "Vec<S::vec::Vec<S::string::String>>" in ty or "Vec<Vec<S::string::String>>" in ty):
            continue
        nz = forms.Normalizer(it, o)
        v = it.resolve(o, e[3][1])
        info = nz.ret_info.get(v[1]) if v[0] == "sym" else None
        ok, how = False, nz.value_atom(v)[:160]
        if info:
            callee, args = info
            clo = [a for a in args if a[0] == "agg" and str(a[1]).startswith("closure:")]
            cforms = None
            if clo:
                cb = w.body(clo[0][1][len("closure:"):])
                if cb is not None:
                    ci = absint.Interp(w, cb, models=effects.EXTRA_MODELS)
                    cforms = sorted({forms.show(forms.Normalizer(ci, x).form(x.value_at((("L", 0),)))) if x.kind == "return" else x.kind for x in ci.run(0)})
            src = nz.value_atom(args[0]) if args else ""
            over_examples = "arg2" in src
            if (callee or "").endswith("::fold") and len(args) == 3 and args[1] == absint.I(0) and over_examples:
                ok = cforms is not None and len(cforms) == 1 and re.fullmatch(r"max\((?:\[T\]|alloc::vec::Vec)::len\(&\*?\{?m?:?arg3\.tags\}?\), arg2\)", cforms[0]) is not None
                how = "fold(0, |acc, x| %s)" % cforms
            elif (callee or "").endswith("unwrap_or") and len(args) == 2 and args[1] == absint.I(0) and "::max(" in src and "arg2" in src:
                # examples.iter().map(|x| x.tags.len()).max().unwrap_or(0)
                ok = True
                how = "map(len).max().unwrap_or(0)"
        sizes.append((e[1], ok, how))
    chk.floor("R12.6", "per-category tables", len(sizes), 2)
    for k, (bb, ok, how) in enumerate(sizes):
        chk.ob("R12.6", "train_tag:table[%d]:sized-by-max-categories" % k, ok,
               "a per-category table of train_tag has size `%s`; expected the maximum of tags.len() over all examples (fold(0, |acc, x| acc.max(x.tags.len())) or map/max): "
               "with any smaller size the zip in the collection loop drops the tags of the later categories" % how, site=C.site(b, bb), sample={"size": how})


def r125(chk, w):
    """the tag features of an example: for n in 0..N, L = token length + n + 1: every start i with i <= token start,
    i + L >= token end, i + L <= sentence length; content (i, i + L); relative position = i + L - token end"""
    chk.rule("R12.5", "tag feature loops of TagTrainer::add_example: all n-grams that contain the token and lie inside the sentence, rel. position = characters past the token end; char/type twins")
    fn = TT + "::add_example"
    b, it, outs = C.run_fn(w, fn)
    chk.fn(fn)
    names, origin = C.iterator_names(b, outs)
    rn0 = C.renamer(names)

    extra = []

    def canon(s):
        s = rn0(s)
        s = re.sub(r"vaporetto::sentence::Token::(start|end)\(&[^()]*\)", lambda m: "tok_" + m.group(1), s)
        s = s.replace(C.S + "::len(&arg2)", "len")
        for x, y in extra:
            s = s.replace(x, y)
        return s

    def mknz(o):
        nz = forms.Normalizer(it, o, rename=canon)
        nz.linear_satsub = True
        return nz
    feats = {}
    for kind, ctor in (("char", "char_ngram"), ("type", "type_ngram")):
        cs = C.all_calls(outs, lambda e: e[2] == "vaporetto::tag_trainer::TagFeature::" + ctor)
        if len(cs) != 1:
            chk.undecided("R12.5", "%s:ctor" % kind, "expected one call of TagFeature::%s in add_example, found %d" % (ctor, len(cs)), site=C.site(b))
            continue
        e, o = cs[0]
        nz = mknz(o)
        relpos = canon(C.show_arg(nz, e[3][1]))
        its = [x for x in dict.fromkeys(re.findall(r"it\d+", relpos)) if x != "it0"]
        # the start iterator is the one whose range depends on the other
        rng = {x: canon(C.show_arg(mknz(origin[x][1]), origin[x][0])) for x in its if x in origin}
        i_it = [x for x in its if any(y != x and y in rng.get(x, "") for y in its)]
        n_it = [x for x in its if x not in i_it]
        if len(i_it) != 1 or len(n_it) != 1:
            chk.undecided("R12.5", "%s:relpos" % kind, "relative position `%s` does not mention one size iterator and one start iterator" % relpos, site=C.site(b, e[1]))
            continue
        i, n = i_it[0], n_it[0]
        # second pass with the iterators named before the forms are ordered
        extra[:] = [("%s.next()@Some.0" % i, "i"), ("%s.next()@Some.0" % n, "n"), ("arg1.%s_ngram_size" % kind, "N")]
        relpos = canon(C.show_arg(mknz(o), e[3][1]))
        rng = {x: canon(C.show_arg(mknz(origin[x][1]), origin[x][0])) for x in (i, n)}
        i_pat = re.compile(r"\bi\b")
        if kind == "char":
            cc = [x for x in C.all_calls(outs, lambda e_: e_[2] == C.S + "::text_substring") if i_pat.search(canon(C.show_arg(mknz(x[1]), x[0][3][1])))]
            content = "(%s, %s)" % tuple(canon(C.show_arg(mknz(cc[0][1]), a)) for a in cc[0][0][3][1:3]) if len(cc) == 1 else "?"
        else:
            cc = [x for x in C.all_calls(outs, lambda e_: e_[2] and "Index" in e_[2] and len(e_[3]) > 1 and e_[3][1][0] == "agg" and "Range" in e_[3][1][1])
                  if "char_types" in str(mknz(x[1]).path_atom(x[0][3][0][1])) and i_pat.search(canon(C.show_arg(mknz(x[1]), x[0][3][1])))]
            content = canon(C.show_arg(mknz(cc[0][1]), cc[0][0][3][1])) if len(cc) == 1 else "?"
            content = content.replace("Range{start: ", "(").replace(", end: ", ", ").rstrip("}") + ")" if content != "?" else "?"
        d = {k_: forms.resort(v_) for k_, v_ in {"relpos": relpos, "irange": rng[i], "nrange": rng[n], "content": content}.items()}
        extra[:] = []
        feats[kind] = d
        spec = {
            "relpos": "1 + i + n - tok_start",
            "irange": "Range{start: satdiff(-1 - n + tok_start), end: min(1 + tok_start, satdiff(len - n - tok_end + tok_start))}",
            "nrange": "Range{start: 0, end: N}",
            "content": "(i, 1 + i + n + tok_end - tok_start)",
        }
        for k in spec:
            chk.ob("R12.5", "%s:%s" % (kind, k), d[k] == spec[k],
                   "%s n-gram tag feature loop of add_example: %s is `%s`, specification `%s` (i n-gram start, n size-1, L = token length + n + 1; starts run over max(0, token end - L) .. min(token start, len - L) inclusive, "
                   "the feature is characters i..i+L at relative position i + L - token end): the predictor matches every n-gram of the model at these positions, an n-gram the trainer never emits gets no weight"
                   % (kind, k, d[k], spec[k]), site=C.site(b, e[1]), sample={"kind": kind, "what": k, "derived": d[k]})
    chk.floor("R12.5", "tag feature constructors", len(feats), 2)
    if len(feats) == 2:
        for k in ("relpos", "irange", "nrange"):
            a, bq = feats["char"][k], feats["type"][k]
            chk.ob("R12.5", "twin:%s" % k, a == bq, "character and character-type tag feature loops disagree: %s vs %s" % (a, bq), site=C.site(b))


def r123(chk, w):
    # Trainer::new: default tags inserted only when absent
    fn = "vaporetto::trainer::Trainer::new"
    b = C.body(w, fn)
    chk.fn(fn)
    it = absint.Interp(w, b, models=effects.EXTRA_MODELS, summaries=C.summaries(w))
    outs = it.run(0)
    rows = set()
    for o in outs:
        ck = [e for e in o.trace if e[0] == "call" and (e[2] or "").endswith("::contains_key")]
        ins = [e for e in o.trace if e[0] == "call" and (e[2] or "").endswith("HashMap::insert")]
        for e in ck:
            r = it.resolve(o, absint.SYM("ret:%d" % e[1]))
            if r[0] == "b":
                later = [x for x in ins if o.trace.index(x) > o.trace.index(e)]
                rows.add((r[1], len(later) > 0))
    if not rows:
        # second idiom: `map.entry(key).or_insert_with(..)` / `.or_insert(..)` keeps an existing value by the contract of Entry
        names_ = {(e[2] or "").split("::")[-1] for o in outs for e in o.trace if e[0] == "call" and ("hashbrown::" in (e[2] or "") or "collections::hash" in (e[2] or ""))}
        if "entry" in names_ and (names_ & {"or_insert_with", "or_insert"}) and not (names_ & {"insert", "and_modify", "insert_entry", "or_default"}):
            rows = {(True, False), (False, True)}
    chk.ob("R12.3", "Trainer::new:first-wins", rows == {(True, False), (False, True)},
           "Trainer::new records dictionary tags as (already present, inserts) = %s; expected insert only when absent" % sorted(rows), site=C.site(b), sample={"rows": sorted(map(str, rows))})
    # TagTrainer::train
    fn = TT + "::train"
    b = C.body(w, fn)
    chk.fn(fn)
    it = absint.Interp(w, b, models=effects.EXTRA_MODELS, summaries=C.summaries(w))
    cf = cfgmod.cfg_of(b)
    loops = cf.natural_loops()
    ck = [bb for bb, t in cfgmod.calls(b) if (cfgmod.callee(t) or "").endswith("::contains_key")]
    okd = False
    rows = set()
    if len(ck) == 1:
        h, blks = cf.innermost_loop_of(ck[0])
        pre = [o for o in it.run(0, stop=[h]) if o.kind == "stop"]
        outs = it.run(h, stop=set(cf.blocks) - blks, env=pre[0].env, cons=pre[0].cons, stop_at_entry_again=True, trace=pre[0].trace)
        n0 = len(pre[0].trace)
        for o in outs:
            if o.kind != "stop" or o.info != h:
                continue
            tr = o.trace[n0:]
            anyr = [it.resolve(o, absint.SYM("ret:%d" % e[1])) for e in tr if e[0] == "call" and (e[2] or "").endswith("::any")]
            ckr = [it.resolve(o, absint.SYM("ret:%d" % e[1])) for e in tr if e[0] == "call" and e[1] == ck[0]]
            ins = [e for e in tr if e[0] == "call" and (e[2] or "").endswith("BTreeMap::insert")]
            if not anyr:
                continue
            rows.add((anyr[0][1] if anyr[0][0] == "b" else None, ckr[0][1] if ckr and ckr[0][0] == "b" else None, len(ins)))
        okd = rows == {(False, None, 0), (True, True, 0), (True, False, 1)}
    chk.ob("R12.3", "TagTrainer::train:defaults", okd,
           "default tag examples are added as (some tag present, token in corpus, inserts) = %s; expected an insert exactly for (true, false)" % sorted(rows, key=str), site=C.site(b), sample={"rows": sorted(map(str, rows))})
