"""C07 - Model files round-trip; partial or foreign files are rejected."""
import re

from .. import facts, absint, forms, cfg as cfgmod, effects
from . import common as C

EXPLANATION = (
    "R07.1 (E6+E8a): both writers emit the bytes of MODEL_MAGIC (the compiler-evaluated constant) before the payload on "
    "the same sink; both readers return Err unless the first MODEL_MAGIC.len() input bytes equal the whole constant, on a "
    "path that precedes the decode call. R07.2: every bincode entry point of model.rs/predictor.rs receives the value of "
    "bincode::config::standard() unmodified. R07.3: every type reachable from ModelData through fields has Encode and "
    "Decode both produced by the derive macro. R07.4 (E7): every fallible call in to_vec/write/read/read_slice is "
    "propagated (no unwrap/ignore/default). R07.5: a panicking range index on the caller's slice is preceded on the path "
    "by a check that implies the needed length (starts_with(constant), explicit len comparison), or its bound is the "
    "decoder's consumed-size (accepted idiom, assumption recorded). R07.6: read_slice returns &slice[MAGIC.len()+size..]."
)
THOROUGH_CONFIGS = [C.MINIMAL, C.NO_TAG]
QUICK_CONFIGS = [C.MINIMAL, C.NO_TAG]
NOT_DECIDED = [
    "that bincode errors on every truncated payload and never yields a different model (trusted base)",
    "equality of re-serialised bytes / of predictions",
]

M = "vaporetto::model::Model"
MAGIC = "vaporetto::model::MODEL_MAGIC"
BINCODE_ENTRY = ("encode_into_writer", "encode_into_std_write", "decode_from_slice", "decode_from_std_read",
                 "encode_to_vec", "borrow_decode_from_slice", "encode_into_slice", "decode_from_reader")


def magic_bytes(w):
    c = w.const(MAGIC)
    v = absint.Interp(w, next(iter(w.all_bodies("vaporetto")))).const_val(c["value"]) if c and "value" in c else None
    if not v or v[0] != "bytes":
        raise C.AnchorLost("constant %s not found / not a byte string" % MAGIC)
    return v


def run(chk):
    w = C.world_for(chk)
    # rejecting an input means returning an error value: building it must not be able to fail (shared with C05)
    from . import c05_total as _c05t
    chk.rule("R05.4", "error constructors are straight-line conversions (shared with C05)")
    _c05t.error_ctors(chk, w)
    from . import ctors as _ctors
    _ctors.accessors(chk, w, only=["vaporetto::utils"])
    chk.rule("R07.7", "buffering adaptors around the caller's sink are flushed with the error propagated")
    for rid, txt in (("R07.1", "magic written first / compared whole before decoding"), ("R07.2", "one bincode configuration"),
                     ("R07.3", "derived Encode/Decode symmetry"), ("R07.4", "error discipline in model IO"),
                     ("R07.5", "guarded indexing of the caller's slice"), ("R07.6", "remainder slice form")):
        chk.rule(rid, txt)
    mg = magic_bytes(w)
    mlen = len(mg[1])

    # ---------------------------------------------------------------- writers
    for fnm, sink_call in (("to_vec", "encode_into_writer"), ("write", "encode_into_std_write")):
        fn = M + "::" + fnm
        if chk.config != "W" and w.body(fn) is None:
            continue   # reader/writer based I/O exists only with std
        b, it, outs = C.run_fn(w, fn)
        chk.fn(fn)
        oks = [o for o in outs if o.kind == "return" and effects.ret_class(o.value_at((("L", 0),))) == "Ok"]
        if not oks:
            chk.undecided("R07.1", "%s:ok-path" % fnm, "no Ok path", site=C.site(b))
        for o in oks:
            ev = [e for e in o.trace if e[0] == "call"]
            # R07.7: a buffering adaptor around the caller's sink must be flushed (error propagated) after the last write
            bufs = [k for k, e in enumerate(ev) if re.search(r"(BufWriter|LineWriter)(<[^>]*>)?::(new|with_capacity)$", e[2] or "")]
            if bufs:
                fl = [k for k, e in enumerate(ev) if (e[2] or "").split("::")[-1] in ("flush", "into_inner") and k > bufs[-1]]
                wr = [k for k, e in enumerate(ev) if (e[2] or "").split("::")[-1] in ("write_all", sink_call, "write")]
                okf = bool(fl) and (not wr or fl[-1] > wr[-1])
                chk.ob("R07.7", "%s:buffered-sink-flushed" % fnm, okf,
                       "Model::%s wraps the caller's writer in a buffering adaptor but returns Ok without flushing it: bytes still in the buffer are written when the adaptor is dropped, where write errors are discarded, "
                       "so a writer that fails part-way yields Ok and a truncated file" % fnm, site=C.site(b, ev[bufs[-1]][1]))
            enc = [k for k, e in enumerate(ev) if (e[2] or "").endswith(sink_call)]
            if fnm == "write":
                wa = [k for k, e in enumerate(ev) if (e[2] or "").endswith("write_all") and len(e[3]) > 1
                      and (e[3][1] == mg or _deref_const(it, o, e[3][1]) == mg)]
                ok = len(enc) == 1 and len(wa) == 1 and wa[0] < enc[0] and ev[wa[0]][3][0] == ev[enc[0]][3][1] or \
                    (len(enc) == 1 and len(wa) == 1 and wa[0] < enc[0] and _same_sink(ev[wa[0]][3][0], ev[enc[0]][3][1]))
                chk.ob("R07.1", "write:magic-first", bool(ok), "Model::write does not write all of MODEL_MAGIC to the sink before the payload", site=C.site(b), sample={"events": [e[2] for e in ev][:6]})
            else:
                tv = [k for k, e in enumerate(ev) if (e[2] or "").endswith("to_vec") and e[3] and (e[3][0] == mg or _deref_const(it, o, e[3][0]) == mg)]
                ok = len(enc) == 1 and len(tv) == 1 and tv[0] < enc[0]
                # the writer handed to the encoder wraps that vector and the same vector is returned
                rv = o.value_at((("L", 0),))
                ret_sym = rv[3][0] if rv[0] == "var" and rv[3] else None
                wrapped = False
                if ok:
                    sink = ev[enc[0]][3][1]
                    if sink[0] == "ref":
                        wrapped = True
                chk.ob("R07.1", "to_vec:magic-first", bool(ok and wrapped), "Model::to_vec does not start the output vector with MODEL_MAGIC before encoding into it", site=C.site(b), sample={"events": [e[2] for e in ev][:6]})

    # ---------------------------------------------------------------- readers
    for fnm, dec_call in (("read", "decode_from_std_read"), ("read_slice", "decode_from_slice")):
        fn = M + "::" + fnm
        if chk.config != "W" and w.body(fn) is None:
            continue
        b, it, outs = C.run_fn(w, fn)
        chk.fn(fn)
        oks = [o for o in outs if o.kind == "return" and effects.ret_class(o.value_at((("L", 0),))) == "Ok"]
        if not oks:
            chk.undecided("R07.1", "%s:ok-path" % fnm, "no Ok path", site=C.site(b))
        for o in oks:
            ev = list(o.trace)
            dec = [k for k, e in enumerate(ev) if e[0] == "call" and (e[2] or "").endswith(dec_call)]
            # a comparison against the whole constant, decided "equal" on this path, before the decode
            cmpk = None
            what = None
            for k, e in enumerate(ev):
                if e[0] != "call":
                    continue
                nm = e[2] or ""
                if nm.endswith("strip_prefix") and len(e[3]) > 1 and _deref_const(it, o, e[3][1]) == mg:
                    # idiom: `match slice.strip_prefix(MAGIC) { Some(body) => .., None => return Err }`
                    r = o.cons.get("ret:%d" % e[1])
                    if r and r[0] == "varis" and r[2] == "Some":
                        cmpk, what = k, ("strip_prefix", e[3][0])
                    continue
                if ("PartialEq" in nm and (nm.endswith("::eq") or nm.endswith("::ne"))) or nm.endswith("starts_with"):
                    vals = [_deref_const(it, o, a) for a in e[3]]
                    if mg in vals:
                        other = [a for a, v in zip(e[3], vals) if v != mg]
                        if nm.endswith("starts_with"):
                            r = it.resolve(o, absint.SYM("ret:%d" % e[1]))
                            if r == absint.B(True):
                                cmpk, what = k, ("starts_with", other[0] if other else None)
                        else:
                            # equality decided: the compared symbol is constrained to the constant
                            for a in other:
                                v = _deref_val(it, o, a)
                                if v == mg:
                                    cmpk, what = k, ("eq", a)
            ok = bool(dec) and cmpk is not None and cmpk < dec[0]
            chk.ob("R07.1", "%s:magic-checked-before-decode" % fnm, ok,
                   "an Ok path of Model::%s decodes the payload without first establishing that the input starts with the whole MODEL_MAGIC constant" % fnm,
                   site=C.site(b), sample={"compare": str(what)[:100]})
            if fnm == "read" and ok:
                # the compared buffer is the one filled by read_exact from the reader, sized MODEL_MAGIC.len()
                rx = [e for e in ev[:cmpk] if e[0] == "call" and (e[2] or "").endswith("read_exact")]
                chk.ob("R07.1", "read:read_exact-magic-len", len(rx) == 1, "Model::read does not fill the magic buffer with exactly one read_exact before comparing", site=C.site(b))
                arr = [l for l in b.locals if l["ty"].startswith("[u8; ")]
                chk.ob("R07.1", "read:buffer-size", any(l["ty"] == "[u8; %d]" % mlen for l in arr), "the magic buffer of Model::read is not MODEL_MAGIC.len() = %d bytes: %s" % (mlen, [l["ty"] for l in arr]), site=C.site(b))
        if fnm == "read_slice":
            slice_rules(chk, w, b, it, outs, mg, mlen)
        # no Err path may have decoded successfully and then be Ok... (covered by E7 below)

    with chk.only(keys=lambda k: not k.startswith("R07.2:") or "predictor::" not in k and "scorer" not in k):   # the predictor codec is C14's business
        r072(chk, w)
    r073(chk, w)
    r074(chk, w)


def _deref_val(it, o, a):
    v = a
    for _ in range(3):
        if v[0] == "ref":
            v = it.resolve(o, it._read(o, v[1]))
        else:
            break
    return it.resolve(o, v)


def _deref_const(it, o, a):
    """the constant a (chain of) reference(s) points to, without using path constraints"""
    v = a
    for _ in range(3):
        if v[0] == "ref":
            v = it._read(o, v[1])
        else:
            break
    return v if v[0] in ("bytes", "s") else None


def _same_sink(a, b):
    def root(v):
        return v[1][:1] if v[0] == "ref" else None
    return root(a) is not None and root(a) == root(b)


def slice_rules(chk, w, b, it, outs, mg, mlen):
    """R07.5 / R07.6 on Model::read_slice"""
    n_idx = 0
    for o in outs:
        if o.kind not in ("return", "panic"):
            continue
        min_len = 0
        nz = forms.Normalizer(it, o)
        stripped = {}   # symbol of the slice that remains after a successful strip_prefix(MAGIC) -> bytes stripped
        for k, e in enumerate(o.trace):
            if e[0] != "call":
                continue
            nm = e[2] or ""
            if nm.endswith("strip_prefix") and e[3][0][0] == "ref" and e[3][0][1][:1] == (("A", 1),) and len(e[3]) > 1:
                c = _deref_const(it, o, e[3][1])
                r = o.cons.get("ret:%d" % e[1])
                if c and r and r[0] == "varis" and r[2] == "Some":
                    stripped["ret:%d@Some.0" % e[1]] = len(c[1])
                    min_len = max(min_len, len(c[1]))
            if nm.endswith("starts_with") and e[3][0][0] == "ref" and e[3][0][1][:1] == (("A", 1),):
                c = _deref_const(it, o, e[3][1])
                if c and it.resolve(o, absint.SYM("ret:%d" % e[1])) == absint.B(True):
                    min_len = max(min_len, len(c[1]))
            if nm.endswith("::len") and e[3][0][0] == "ref" and e[3][0][1][:1] == (("A", 1),):
                c = o.cons.get("ret:%d" % e[1])
                if c and c[0] == "ival" and c[1] is not None:
                    min_len = max(min_len, c[1])
                if c and c[0] == "eq" and c[1][0] == "i":
                    min_len = max(min_len, c[1][1])
            recv_off = None
            if "Index" in nm and e[3][0][0] == "ref" and len(e[3]) > 1 and e[3][1][0] == "agg":
                r0 = e[3][0][1][:1]
                if r0 == (("A", 1),):
                    recv_off = 0
                elif r0 and r0[0][0] == "S" and r0[0][1] in stripped:
                    recv_off = stripped[r0[0][1]]   # an index into the stripped slice, expressed in coordinates of the input
            if recv_off is not None:
                rng = e[3][1]
                d = dict(rng[2])
                bound = d.get("end") if "RangeTo" in rng[1] else d.get("start") if "RangeFrom" in rng[1] else d.get("end")
                n_idx += 1
                f = nz.form(bound)
                cst = f.get((), 0) + recv_off
                rest = {m: c for m, c in f.items() if m != ()}
                kind = "RangeTo" if "RangeTo" in rng[1] else "RangeFrom" if "RangeFrom" in rng[1] else "Range"
                key = "read_slice:index[%s:%d%s]" % (kind, cst, "+consumed" if rest else "")
                if not rest:
                    ok = min_len >= cst
                    # an index that returned implies the length it needed
                    min_len = max(min_len, cst)
                    chk.ob("R07.5", key, ok,
                           "read_slice indexes the caller's slice with bound %d but only %d byte(s) are known to exist on this path: inputs shorter than %d bytes panic instead of returning an error"
                           % (cst, min_len, cst), site=C.site(b, e[1]), sample={"bound": cst, "known_min_len": min_len})
                else:
                    atoms = [m[0] for m in rest if len(m) == 1 and rest[m] == 1]
                    dec_ok = len(rest) == 1 and atoms and "decode_from_slice(" in atoms[0] and (atoms[0].endswith("@Ok.0.1") or atoms[0].endswith(".1")) and min_len >= cst
                    chk.ob("R07.5", key, bool(dec_ok), "range bound %s on the caller's slice is neither guarded nor the decoder's consumed size" % forms.show(f), site=C.site(b, e[1]),
                           sample={"bound": forms.show(f), "idiom": "decoder consumed-size (assumed <= remaining input)"})
                    if dec_ok and o.kind == "return":
                        # R07.6: returned remainder = &slice[mlen + size ..] and decode consumed slice[mlen..]
                        m2 = re.search(r"decode_from_slice\(&arg1\.<content>", atoms[0])
                        chk.ob("R07.6", "read_slice:remainder", cst == mlen and "RangeFrom" in rng[1],
                               "read_slice returns slice[%s..]; expected slice[MODEL_MAGIC.len() + consumed ..]" % forms.show(f), site=C.site(b, e[1]), sample={"form": forms.show(f)})
        # decode input slice starts at mlen
        for e in o.trace:
            if e[0] == "call" and (e[2] or "").endswith("decode_from_slice"):
                pass
    any_strip = any((e[2] or "").endswith("strip_prefix") for o in outs for e in o.trace if e[0] == "call")
    # (no floor: a reader that takes no range of the input slice at all - strip_prefix / split_at - has nothing to guard)
    # decode input = slice[mlen..]
    dec_in = set()
    for e, o in C.all_calls(outs, lambda e: "Index" in (e[2] or "") and e[3][0][0] == "ref" and e[3][0][1][:1] == (("A", 1),) and len(e[3]) > 1 and e[3][1][0] == "agg" and "RangeFrom" in e[3][1][1]):
        dec_in.add(forms.show(forms.Normalizer(it, o).form(dict(e[3][1][2])["start"])))
    # idiom B: the decoder is handed the slice that strip_prefix(MAGIC) returned
    for e, o in C.all_calls(outs, lambda e: (e[2] or "").endswith("decode_from_slice") and e[3] and e[3][0][0] == "ref" and e[3][0][1][:1] and e[3][0][1][0][0] == "S"):
        sym = e[3][0][1][0][1]
        for e2 in o.trace:
            if e2[0] == "call" and (e2[2] or "").endswith("strip_prefix") and sym == "ret:%d@Some.0" % e2[1] and _deref_const(it, o, e2[3][1]) == mg and e2[3][0][0] == "ref" and e2[3][0][1][:1] == (("A", 1),):
                dec_in.add(str(mlen))
    chk.ob("R07.6", "read_slice:payload-after-magic", str(mlen) in dec_in, "the payload is not decoded from slice[MODEL_MAGIC.len()..]: ranges %s" % sorted(dec_in), site=C.site(b))


STD_CFG = re.compile(r"bincode::config::Configuration(<bincode::config::LittleEndian,bincode::config::Varint,bincode::config::NoLimit>)?")


def r072(chk, w):
    n = 0
    mods = []
    for bd in w.all_bodies("vaporetto"):
        if bd.promoted is not None:
            continue
        for bb, t in cfgmod.calls(bd):
            c = cfgmod.callee(t) or ""
            if c.startswith("bincode::config::") and "::with_" in c or (c.startswith("bincode::config::") and c.endswith("legacy")):
                mods.append((bd, bb, c))
    for bd, bb, c in mods:
        chk.ob("R07.2", "modifier:%s:%s" % (bd.fn.replace("vaporetto::", ""), c.split("::")[-1]), False, "%s changes the bincode configuration with %s: writer and reader configurations can diverge" % (bd.fn, c), site=C.site(bd, bb))
    for bd in w.all_bodies("vaporetto"):
        if bd.promoted is not None:
            continue
        entry = [(bb, t) for bb, t in cfgmod.calls(bd) if (cfgmod.callee(t) or "").startswith("bincode::") and (cfgmod.callee(t) or "").split("::")[-1] in BINCODE_ENTRY]
        if not entry:
            continue
        it = absint.Interp(w, bd, models=effects.EXTRA_MODELS, summaries=C.summaries(w))
        outs = it.run(0)
        chk.fn(bd.fn)
        for e, o in C.all_calls(outs, lambda e: (e[2] or "").startswith("bincode::") and (e[2] or "").split("::")[-1] in BINCODE_ENTRY):
            cfgarg = e[3][-1]
            info = it.ret_info.get(cfgarg[1]) if cfgarg[0] == "sym" else None
            ok = bool(info) and info[0] == "bincode::config::standard"
            if not ok:
                # a bincode configuration is a zero-sized value whose behaviour is its TYPE: a constant / static of the type that
                # standard() returns is the standard configuration (every with_* modifier changes a type parameter)
                a_ = bd.blocks[e[1]]["term"]["args"][-1]
                p_ = a_.get("move") or a_.get("copy")
                ty_ = bd.locals[p_["local"]]["ty"] if p_ and not p_["proj"] else (a_.get("const", {}).get("zst") or a_.get("const", {}).get("ty") or "")
                ok = STD_CFG.fullmatch(C.tyn(ty_).replace(" ", "")) is not None
            n += 1
            chk.ob("R07.2", "%s:%s" % (bd.fn.replace("vaporetto::", ""), e[2].split("::")[-1]), ok,
                   "%s passes a configuration that is not the plain value of bincode::config::standard(): %s" % (bd.fn, (info or [cfgarg])[0]), site=C.site(bd, e[1]),
                   sample={"fn": bd.fn, "entry": e[2]})
    chk.floor("R07.2", "bincode entry points", n, 10, other=4)


def r073(chk, w):
    c = w.crates["vaporetto"]
    root = "vaporetto::model::ModelData"
    seen, todo = set(), [root]
    while todo:
        p = todo.pop()
        if p in seen or p not in c.adts:
            continue
        seen.add(p)
        for v in c.adts[p]["variants"]:
            for f in v["fields"]:
                for q in c.adts:
                    if q.split("::", 1)[1] in f["ty"] or q in f["ty"]:
                        todo.append(q)
    n = 0
    for p in sorted(seen):
        enc = [i for i in c.impls if i["self_adt"] == p and i["trait"] == "bincode::enc::Encode"]
        dec = [i for i in c.impls if i["self_adt"] == p and i["trait"] == "bincode::de::Decode"]
        ok = len(enc) == 1 and len(dec) == 1 and enc[0].get("derive") == "Encode" and dec[0].get("derive") == "Decode"
        n += 1
        chk.ob("R07.3", p.split("::")[-1], ok, "type %s (part of the model file) does not have both Encode and Decode produced by the derive macro (Encode: %s, Decode: %s): a hand-written side can disagree with the other"
               % (p, [i.get("derive") for i in enc], [i.get("derive") for i in dec]), site=c.adts[p]["span"], sample={"type": p})
    chk.floor("R07.3", "model types", n, 9, other=9)


ERR_TYPES = ("VaporettoError", "io::Error", "std::io::Error", "EncodeError", "DecodeError", "TryFromIntError", "FromUtf8Error")


def error_discipline(chk, w, rule, fns, floor, extra_ok=(), err_types=None):
    """E7: every call returning Result<_, repo error> in `fns` must be propagated: on the Err refinement of
    its result the function returns Err; `unwrap/expect/ok/unwrap_or*/is_ok` on it, or dropping it, is reported."""
    n = 0
    for fn in fns:
        b = C.body(w, fn)
        chk.fn(fn)
        it = absint.Interp(w, b, models=effects.EXTRA_MODELS, summaries=C.summaries(w))
        outs = it.run(0)
        sites = {}
        for bb, t in cfgmod.calls(b):
            dl = t["dest"]
            ty = b.locals[dl["local"]]["ty"] if not dl["proj"] else ""
            if C.tyn(ty).startswith("S::result::Result<") and any(x in ty for x in (err_types or ERR_TYPES)):
                nm = cfgmod.callee(t) or ""
                if nm.endswith("map_err") or nm.endswith("from_residual") or nm.endswith("::branch"):
                    continue
                sites[bb] = (nm, ty)
        for bb, (nm, ty) in sorted(sites.items()):
            n += 1
            dropped_ok = []
            consumed_bad = []
            for o in outs:
                if o.kind == "backedge":
                    continue
                evs = [e for e in o.trace if e[0] == "call"]
                if not any(e[1] == bb for e in evs):
                    continue
                r = it.resolve(o, absint.SYM("ret:%d" % bb))
                rcls = effects.ret_class(r)
                # consumers of this result on the path
                for e in evs:
                    if any(a == absint.SYM("ret:%d" % bb) or (a[0] == "var" and a[3] is not None and len(a[3]) == 2 and a[3][0] == "symp" and a[3][1] == "ret:%d" % bb) for a in e[3]):
                        cn = (e[2] or "").split("::")[-1]
                        if cn in ("unwrap", "expect", "ok", "unwrap_or", "unwrap_or_default", "unwrap_or_else", "unwrap_unchecked", "err"):
                            consumed_bad.append((e[1], cn))
                if rcls == "Err" and o.kind == "return":
                    fr = effects.ret_class(o.value_at((("L", 0),)))
                    if fr != "Err":
                        dropped_ok.append(o)
                if rcls == "any" and o.kind == "return":
                    # never inspected on this path (by value, or through a reference as in `.is_ok()`)
                    def mentions(a):
                        if a == absint.SYM("ret:%d" % bb):
                            return True
                        if a[0] == "ref":
                            return it._read(o, a[1]) == absint.SYM("ret:%d" % bb)
                        return False
                    if not any(any(mentions(a) for a in e[3]) for e in evs):
                        dropped_ok.append(o)
            ok = not dropped_ok and not consumed_bad
            why = ""
            if consumed_bad:
                why = "its Result is consumed by `%s` (a failure panics or is silently ignored)" % consumed_bad[0][1]
            elif dropped_ok:
                why = "the function can return successfully although this call failed / its Result is never inspected"
            chk.ob(rule, "%s:%s@%s" % (fn.split("::")[-1] if "<" not in fn else fn.split(" as ")[0].split("::")[-1] + "::" + fn.split("::")[-1], nm.split("::")[-1], _ordinal(sites, bb, nm)), ok,
                   "%s: call of %s: %s" % (fn, nm, why), site=C.site(b, bb), sample={"fn": fn, "callee": nm} if n <= 3 else None)
    chk.floor(rule, "fallible calls", n, floor, other=2)
    return n


def _ordinal(sites, bb, nm):
    same = sorted(b for b, (n, _) in sites.items() if n == nm)
    return same.index(bb)


def r074(chk, w):
    fns = [f for f in (M + "::to_vec", M + "::write", M + "::read", M + "::read_slice") if chk.config == "W" or w.body(f) is not None]
    error_discipline(chk, w, "R07.4", fns, 6)
