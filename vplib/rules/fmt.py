"""Shared analysis of the two annotation formats (C03, C04): parser special-character tables and
writer escape sets, both derived by abstract interpretation of the MIR (E3 + E8a)."""
import re

from .. import facts, absint, forms, cfg as cfgmod, effects
from . import common as C


class ParserTable:
    def __init__(self):
        self.specials = {}      # char code -> effect signature (frozenset of strings) in unescaped annotation context
        self.escape_char = None
        self.escaped_pushes_all = None
        self.label_of = {}      # char code -> CharacterBoundary variant pushed
        self.content_chars_literal = None
        self.cases = 0
        self.fn = None
        self.body = None


def parser_table(w, fn):
    """derive the special-character table of parse_tokenized / parse_partial_annotation"""
    b = C.body(w, fn)
    it = absint.Interp(w, b, models=effects.EXTRA_MODELS, summaries=C.summaries(w))
    it.trace_deref_stores = True
    outs = it.run(0)
    pt = ParserTable()
    pt.fn, pt.body = fn, b
    # the character loop: the loop whose header calls Chars::next
    chars_next = [bb for bb, t in cfgmod.calls(b) if (cfgmod.callee(t) or "").endswith("Chars as core::iter::traits::iterator::Iterator>::next")]
    if len(chars_next) != 1:
        raise C.AnchorLost("expected one chars() loop in %s, found %d" % (fn, len(chars_next)))
    H = chars_next[0]
    csym = "ret:%d@Some.0" % H
    # bool state variables assigned constants inside the loop (escape, prev_boundary / is_char)
    names = b.names()
    per_char = {}
    esc_true_paths = []
    for o in outs:
        if o.kind not in ("backedge", "return"):
            continue
        if not any(e[0] == "call" and e[1] == H for e in o.trace):
            continue
        r = o.cons.get("ret:%d" % H)
        if not r or r[0] != "varis" or r[2] != "Some":
            continue
        # only the events after the last Chars::next call belong to this character
        k0 = max(k for k, e in enumerate(o.trace) if e[0] == "call" and e[1] == H)
        ev = o.trace[k0 + 1:]
        cc = o.cons.get(csym)
        pushes_c = [e for e in ev if e[0] == "call" and (e[2] or "").endswith("String::push") and len(e[3]) > 1 and
                    (e[3][1] == absint.SYM(csym) or (cc and cc[0] == "eq" and e[3][1] == cc[1]))]
        bools = {}
        for l, nm in names.items():
            if b.locals[l]["tk"] == "bool":
                c0 = o.cons.get("m:_%d" % l) or o.cons.get("hv:loop%d:_%d" % (_loop_header_of(b, H), l))
                bools[nm] = (c0[1][1] if c0 and c0[0] == "eq" else None, o.value_at((("L", l),)))
        labels = [e[3][1][2] for e in ev if e[0] == "call" and (e[2] or "").endswith("Vec::push") and len(e[3]) > 1 and e[3][1][0] == "var" and e[3][1][1] == C.CB]
        sets_true = sorted(nm for nm, (vin, vout) in bools.items() if vout == absint.B(True) and vin is not True)
        opt_replace = [e for e in ev if e[0] == "call" and (e[2] or "").endswith("Option::replace")]
        rec = dict(c=cc, bools=bools, pushes_c=len(pushes_c), labels=labels, sets_true=sets_true, kind=o.kind,
                   ret=effects.ret_class(o.value_at((("L", 0),))) if o.kind == "return" else None, replace=len(opt_replace), o=o)
        pt.cases += 1
        per_char.setdefault(cc, []).append(rec)
    pt.raw = per_char
    return pt, it, outs, H


def _loop_header_of(b, bb):
    cf = cfgmod.cfg_of(b)
    best = cf.innermost_loop_of(bb)
    return best[0] if best else -1


def classify_parser(pt, escape_var="escape"):
    """specials = constants x such that with escape == false no path consumes x as content"""
    specials, labels = {}, {}
    esc_char = set()
    escaped_content = True
    for cc, recs in pt.raw.items():
        if cc is None:
            continue
        if cc[0] == "eq" and cc[1][0] in ("ch", "i"):
            x = cc[1][1]
            unesc = [r for r in recs if r["bools"].get(escape_var, (None, None))[0] is not True]
            # paths where escape is explicitly false
            unesc_f = [r for r in recs if r["bools"].get(escape_var, (None, None))[0] is False]
            use = unesc_f or unesc
            if use and all(r["pushes_c"] == 0 for r in use):
                sig = set()
                for r in use:
                    for s in r["sets_true"]:
                        sig.add("sets:" + s)
                    for l in r["labels"]:
                        sig.add("label:" + l)
                    if r["replace"]:
                        sig.add("starts-tag")
                    if r["kind"] == "return" and r["ret"] == "Err":
                        sig.add("may-err")
                specials[x] = frozenset(sig)
                for r in use:
                    for l in r["labels"]:
                        labels.setdefault(x, set()).add(l)
                if any(escape_var in r["sets_true"] for r in use):
                    esc_char.add(x)
    return specials, esc_char, labels


# ---------------------------------------------------------------------------------------------
# writers
# ---------------------------------------------------------------------------------------------

class Site:
    def __init__(self, role, kind, bb, escaped, esc, raw_once, detail, body):
        self.role = role          # "surface" | "tag" | "text" | "?"
        self.kind = kind          # "loop" | "push_str" | "push"
        self.bb = bb
        self.escaped = escaped    # set of codes that get the escape unit pushed first
        self.esc = esc            # set of escape units used
        self.raw_once = raw_once  # the iterated unit itself is pushed exactly once, last, on every path
        self.detail = detail
        self.body = body


def _role(s):
    if "Token::surface" in s or "text_substring" in s:
        return "surface"
    if "tags" in s or "Cow" in s or "tag" in s.lower():
        return "tag"
    if ".text" in s:
        return "text"
    return "?"


def role_of_local(b, local):
    """role of a string value by static provenance: surface/text (Sentence.text, Token::surface) or tag
    (Sentence.tags, Token::tags, any other Cow<str>)"""
    callees, fields, params = C.backward_slice(b, local)
    if any(c.endswith("Token::surface") or c.endswith("text_substring") for c in callees):
        return "surface"
    if any(f == C.S + ".tags" for f in fields) or any(c.endswith("Token::tags") or c.endswith("Sentence::tags") for c in callees):
        return "tag"
    if any(f == C.S + ".text" for f in fields) or any(c.endswith("as_raw_text") for c in callees):
        return "text"
    if any("alloc::borrow::Cow" in c for c in callees):
        return "tag"
    return "?"


def writer_sites(w, fn, out_param=2, depth=0):
    """emission sites of a writer: loops over bytes/chars of a string that push to the output, plus
    unescaped push_str / push sites.  Local helper callees that receive the output buffer are followed."""
    b = C.body(w, fn)
    it = absint.Interp(w, b, models=effects.EXTRA_MODELS, summaries=C.summaries(w))
    outs = it.run(0)
    cf = cfgmod.cfg_of(b)
    loops = cf.natural_loops()
    names, origin = C.iterator_names(b, outs)
    rn = C.renamer(names)
    out_root = (("A", out_param),)

    def origin_str(itname, depth_=0):
        ov, oo = origin[itname]
        s = rn(forms.Normalizer(it, oo, rename=rn).value_atom(ov))
        if depth_ < 3:
            for m in set(re.findall(r"it\d+", s)):
                if m != itname and m in origin:
                    s = s.replace(m, "%s{%s}" % (m, origin_str(m, depth_ + 1)))
        return s
    sites = []
    consts = []   # constant units pushed outside element loops: (bb, code, enclosing loop header)
    elem_loops = {}
    for h in sorted(loops):
        t = b.blocks[h]["term"]
        if t["k"] != "call":
            continue
        nm = cfgmod.callee(t) or ""
        if not nm.endswith("Iterator>::next"):
            continue
        a0 = t["args"][0]
        p0 = a0.get("move") or a0.get("copy")
        # which iterator variable
        itl = None
        for s in b.blocks[h]["stmts"]:
            if s["k"] == "assign" and s["rv"]["k"] == "ref" and not s["rv"]["place"]["proj"]:
                itl = s["rv"]["place"]["local"]
        itname = names.get(itl)
        if itname is None:
            continue
        src = origin_str(itname)
        dty = b.locals[t["dest"]["local"]]["ty"]
        is_units = dty.endswith("Option<&u8>") or dty.endswith("Option<char>") or dty.endswith("Option<u8>")
        if not is_units:
            continue
        # state at the header, then one abstract iteration
        pre = [o for o in it.run(0, stop=[h]) if o.kind == "stop"]
        if not pre:
            continue
        body_outs = it.run(h, stop=set(cf.blocks) - loops[h], env=pre[0].env, cons=pre[0].cons, stop_at_entry_again=True, trace=pre[0].trace)
        n0 = len(pre[0].trace)
        escaped, esc_units, raw_ok, npaths = set(), set(), True, 0
        paths_ = []
        for o in body_outs:
            if o.kind != "stop" or o.info != h:
                continue
            ev = o.trace[n0:]
            pushes = [e for e in ev if e[0] == "push" and e[2][:1] == out_root]
            if not pushes and not any(e[0] == "call" and e[1] == h for e in ev):
                continue
            npaths += 1
            paths_.append((o, pushes))
        # the iterated unit = the symbolic value pushed on the unconstrained path
        usyms = {e[3][1] for o, pushes in paths_ for e in pushes if e[3] is not None and e[3][0] == "sym"}
        if len(usyms) != 1:
            raw_ok = False
        usym = list(usyms)[0] if len(usyms) == 1 else None
        for o, pushes in paths_:
            vals = [e[3] for e in pushes]
            cc = o.cons.get(usym) if usym else None
            if cc and cc[0] == "eq":
                x = cc[1]
                if not vals or vals[-1][0] not in ("i", "ch") or vals[-1][1] != x[1]:
                    raw_ok = False
                pre = vals[:-1]
                if len(pre) > 1:
                    raw_ok = False   # more than one unit in front of the iterated unit (or the unit pushed twice)
                if pre:
                    escaped.add(x[1])
                for v in pre:
                    if v[0] in ("i", "ch"):
                        esc_units.add(v[1])
                    else:
                        raw_ok = False
            else:
                if len(vals) != 1 or vals[0] != absint.SYM(usym or ""):
                    raw_ok = False
        role = role_of_local(b, itl)
        sites.append(Site(role, "loop", h, escaped, esc_units, raw_ok and npaths > 0, "iterates %s" % src[:120], b))
        elem_loops[h] = loops[h]
    # unescaped emissions and constant pushes outside the unit loops
    in_unit_loop = set()
    for h, blks in elem_loops.items():
        in_unit_loop |= blks
    for e, o in C.all_calls(outs):
        nm = e[2] or ""
        if e[1] in in_unit_loop:
            continue
        if not e[3] or e[3][0][0] != "ref" or absint._coll_path(e[3][0])[:1] != out_root:
            continue
        nz = forms.Normalizer(it, o, rename=rn)
        term = b.blocks[e[1]]["term"]
        arg_local = None
        if len(term["args"]) > 1:
            pa = term["args"][1].get("move") or term["args"][1].get("copy")
            arg_local = pa["local"] if pa else None
        srole = role_of_local(b, arg_local) if arg_local is not None else "?"
        if nm.endswith("String::push_str") or nm.endswith("extend_from_slice") or nm.endswith("Vec::extend"):
            src = rn(nz.value_atom(e[3][1]) if e[3][1][0] != "ref" else "&" + nz.path_atom(e[3][1][1]))
            for m in set(re.findall(r"it\d+", src)):
                if m in origin:
                    src = src.replace(m, "%s{%s}" % (m, origin_str(m)))
            sites.append(Site(srole, "push_str", e[1], set(), set(), True, "appends %s unescaped" % src[:120], b))
        elif nm.endswith("String::push") or nm.endswith("Vec::push"):
            v = it.resolve(o, e[3][1])
            if v[0] in ("i", "ch"):
                consts.append((e[1], v[1]))
            elif v[0] == "sym":
                src = rn(nz.value_atom(v))
                for m in set(re.findall(r"it\d+", src)):
                    if m in origin:
                        src = src.replace(m, "%s{%s}" % (m, origin_str(m)))
                # a single unit pushed outside a unit loop: a character of the text (tags are strings)
                sites.append(Site("text", "push", e[1], set(), set(), True, "pushes %s" % src[:100], b))
        elif w.body(nm) is not None and depth < 2:
            # helper that receives the buffer: follow it
            j = [k for k, a in enumerate(e[3]) if a[0] == "ref" and absint._coll_path(a)[:1] == out_root]
            if j:
                sub_sites, sub_consts = writer_sites(w, nm, out_param=j[0] + 1, depth=depth + 1)
                other = [nz.value_atom(a) if a[0] != "ref" else "&" + nz.path_atom(a[1]) for k, a in enumerate(e[3]) if k != j[0]]
                caller_roles = []
                for k, a in enumerate(term["args"]):
                    if k == j[0]:
                        continue
                    pa = a.get("move") or a.get("copy")
                    if pa:
                        caller_roles.append(role_of_local(b, pa["local"]))
                caller_role = next((r for r in caller_roles if r != "?"), "?")
                for s in sub_sites:
                    if s.role == "?":
                        s.role = caller_role
                    s.detail += " (in helper %s called with %s)" % (nm, other)
                    sites.append(s)
                consts.extend(sub_consts)
    return sites, consts


def tag_slot_tables(w, fn, marker, out_param=2, depth=0):
    """loops of a writer (and of helpers that receive its buffer) that push the tag marker: for each, the element type of
    the iteration and, per Option variant of the element, how many markers are pushed.
    Returns [(fn, header bb, element type, {variant: set(marker pushes per path)})]"""
    b = C.body(w, fn)
    it = absint.Interp(w, b, models=effects.EXTRA_MODELS, summaries=C.summaries(w))
    cf = cfgmod.cfg_of(b)
    loops = cf.natural_loops()
    out_root = (("A", out_param),)
    res = []

    def is_marker_push(e, o):
        if e[0] != "call" or not ((e[2] or "").endswith("String::push") or (e[2] or "").endswith("Vec::push")):
            return False
        if not e[3] or e[3][0][0] != "ref" or absint._coll_path(e[3][0])[:1] != out_root:
            return False
        # a literal operand only: an iterated character that merely equals the marker on this path is content
        a1 = b.blocks[e[1]]["term"]["args"][1]
        if "const" not in a1:
            p1 = a1.get("move") or a1.get("copy")
            if not p1 or p1["proj"] or p1["local"] not in cf._const_locals():
                return False
        v = e[3][1]
        return v[0] in ("i", "ch") and v[1] == marker
    for h in sorted(loops):
        t = b.blocks[h]["term"]
        if t["k"] != "call" or not (cfgmod.callee(t) or "").endswith("Iterator>::next"):
            continue
        # innermost loops only w.r.t. marker pushes: the marker push block must belong to this loop and to no inner loop
        inner = [g for g in loops if g != h and loops[g] < loops[h]]
        pre = [o for o in it.run(0, stop=[h]) if o.kind == "stop"]
        if not pre:
            continue
        outs = it.run(h, stop=set(cf.blocks) - loops[h], env=pre[0].env, cons=pre[0].cons, stop_at_entry_again=True, trace=pre[0].trace)
        n0 = len(pre[0].trace)
        table = {}
        any_marker = False
        for o in outs:
            if o.kind != "stop" or o.info != h:
                continue
            item = o.cons.get("ret:%d" % h)
            if not item or item[2] != "Some":
                continue
            tr = o.trace[n0:]
            mk = [e for e in tr if is_marker_push(e, o) and not any(e[1] in loops[g] for g in inner)]
            if mk:
                any_marker = True
            var = None
            for s, c in o.cons.items():
                if c[0] == "varis" and c[1] == "core::option::Option" and ("ret:%d@Some.0" % h) in s:
                    var = c[2]
            table.setdefault(var, set()).add(len(mk))
        if any_marker:
            res.append((fn, h, C.tyn(b.locals[t["dest"]["local"]]["ty"]), table))
    # helpers receiving the buffer
    if depth < 2:
        seen = set()
        for bb, tt in cfgmod.calls(b):
            c = cfgmod.callee(tt) or ""
            if w.body(c) is None or c in seen or c == fn:
                continue
            cb = w.body(c)
            for j, a in enumerate(tt["args"]):
                p = a.get("move") or a.get("copy")
                if p and not p["proj"] and C.tyn(b.locals[p["local"]]["ty"]).startswith("&mut S::string::String") or \
                        (p and not p["proj"] and C.tyn(b.locals[p["local"]]["ty"]).startswith("&mut S::vec::Vec<u8>")):
                    sl = C.backward_slice(b, p["local"], depth=4)
                    if out_param in sl[2] or True:
                        seen.add(c)
                        res.extend(tag_slot_tables(w, c, marker, out_param=j + 1, depth=depth + 1))
                        break
    return res


def tag_count_order(w, fn):
    """the per-character tag lists are collected in a local Vec<Vec<_>>; the number of tag slots is the maximum of their
    lengths (a fold/max over an iterator of that local).  Returns (collection local, [count call bbs],
    [(count bb, bb of a later `&mut collection`)]): a mutable borrow of the collection reachable after the count was taken
    means a tag can still be appended that the count does not cover."""
    b = C.body(w, fn)
    cf = cfgmod.cfg_of(b)
    coll = [l for l in range(b.arg_count + 1, len(b.locals)) if re.fullmatch(r"S::vec::Vec<S::vec::Vec<(S::string::String|.*Cow<.*str>)>>", C.tyn(b.locals[l]["ty"])) and l in b.names()]
    if len(coll) > 1:
        # the collection handed on by value (to an inlined helper's parameter): the original is the one that is not a move target
        targets = set()
        for l in coll:
            targets |= set(C.move_targets_plain(b, l)) - {l}
        coll = [l for l in coll if l not in targets]
    if len(coll) != 1:
        return None, [], []
    coll = coll[0]
    aliases = set(C.move_targets_plain(b, coll)) | {coll}
    counts = []
    for bb, t in cfgmod.calls(b):
        c = cfgmod.callee(t) or ""
        if "Iterator" in c and c.rsplit("::", 1)[-1] in ("fold", "max", "max_by_key", "reduce"):
            a = t["args"][0]
            p = a.get("move") or a.get("copy")
            if p and aliases & C.backward_locals(b, p["local"]):
                counts.append(bb)
    late = []
    for cb in counts:
        reach = cf.reachable(cb) - {cb}
        for bb in sorted(reach):
            for s in b.blocks[bb]["stmts"]:
                if s["k"] == "assign" and s["rv"]["k"] in ("ref", "rawptr") and s["rv"].get("mut") and s["rv"]["place"]["local"] == coll:
                    late.append((cb, bb))
    return coll, counts, late


def tag_padding_amounts(w, fn):
    """subtractions `slot count - len(tag list of one character)` of a parser: the number of absent tags appended after a
    character's own tags.  Returns [(bb, uses count?, uses a Vec::len?)] for every Sub whose result is used."""
    b = C.body(w, fn)
    coll, counts, _ = tag_count_order(w, fn)
    if coll is None or not counts:
        return []
    count_dests = {b.blocks[bb]["term"]["dest"]["local"] for bb in counts}
    out = []
    for i, blk in enumerate(b.blocks):
        if blk["cleanup"]:
            continue
        for s in blk["stmts"]:
            if s["k"] == "assign" and s["rv"]["k"] == "bin" and s["rv"]["op"] in ("Sub", "SubWithOverflow", "SubUnchecked"):
                pa = s["rv"]["a"].get("copy") or s["rv"]["a"].get("move")
                pb = s["rv"]["b"].get("copy") or s["rv"]["b"].get("move")
                if not pa or not pb:
                    continue
                la = C.backward_locals(b, pa["local"])
                cb, _, _ = C.backward_slice(b, pb["local"])
                out.append((i, bool(count_dests & la), any(c.endswith("Vec::len") for c in cb)))
    # the other idiom: grow the flat vector to the end of the character's row, `tags.resize(row start + slot count, None)`
    # (only when no subtraction form exists: `resize(len + (count - own), None)` is the subtraction form again)
    if any(x[1] and x[2] for x in out):
        return out
    for bb, t in cfgmod.calls(b):
        if (cfgmod.callee(t) or "").endswith("Vec::resize") and len(t["args"]) == 3:
            p1 = t["args"][1].get("copy") or t["args"][1].get("move")
            if p1 and count_dests & C.backward_locals(b, p1["local"]):
                cb, _, _ = C.backward_slice(b, p1["local"])
                out.append((bb, True, any(c.endswith("Vec::len") for c in cb)))
    return out


TEXT_SCAN_OK = ("str::is_empty", "str::len", "str::chars", "str::char_indices")


def text_param_uses(w, fn):
    """calls of a parser that receive the input text parameter (parameter 1, a &str) directly or through reborrows:
    [(bb, callee)].  The formats give a meaning to characters only relative to the escape state, which exists only inside
    the per-character scan; any other inspection of the raw text (ends_with, contains, find, split, ...) decides on
    characters without knowing whether they are escaped."""
    b = C.body(w, fn)
    out = []
    if not b.locals[1]["ty"].startswith("&") or "str" not in b.locals[1]["ty"]:
        return None
    for bb, t in cfgmod.calls(b):
        for a in t["args"]:
            q = a.get("copy") or a.get("move")
            if q and "str" in b.locals[q["local"]]["ty"] and b.locals[q["local"]]["ty"].startswith("&") and 1 in C.backward_locals(b, q["local"], depth=4):
                # only direct reborrows of the parameter: no call in between
                if not any(b.blocks[i]["term"]["k"] == "call" and b.blocks[i]["term"]["dest"]["local"] in C.backward_locals(b, q["local"], depth=4) for i in range(len(b.blocks))):
                    out.append((bb, cfgmod.callee(t) or "?"))
    return out


def text_scan_rule(chk, w, rule, parser):
    uses = text_param_uses(w, parser)
    sh = parser.split("::")[-1]
    if uses is None:
        chk.undecided(rule, "parser:%s:text-only-scanned" % sh, "parameter 1 of %s is not the input &str" % parser, site=C.site(C.body(w, parser)))
        return
    bad = [(bb, c) for bb, c in uses if not any(c.endswith(x) for x in TEXT_SCAN_OK)]
    scans = [c for _, c in uses if c.endswith("str::chars") or c.endswith("str::char_indices")]
    chk.ob(rule, "parser:%s:text-only-scanned" % sh, not bad and len(scans) == 1,
           "%s inspects its input text through %s besides the single character scan (%d scan(s)); a predicate on the raw text cannot know whether a character is escaped, "
           "so text the writer produces (e.g. a token ending in an escaped space) can be rejected or split differently" % (parser, sorted({c for _, c in bad}), len(scans)),
           site=C.site(C.body(w, parser), bad[0][0] if bad else None), sample={"parser": sh, "uses": sorted({c for _, c in uses})})


_IT = "core::iter::traits::iterator::Iterator"
_PRED = r"(?:\('agg', 'closure:([^']+)', \(\)\)|\('fn', '([^']+)'\))"


def _pred_kind(w, clo, fnitem):
    """'is_some' / 'is_none' for the predicate handed to rposition / take_while (a capture-less closure or a fn item)"""
    if fnitem:
        m = re.search(r"Option::(is_some|is_none)$", fnitem)
        return m.group(1) if m else None
    cb = w.body(clo)
    if cb is None:
        return None
    ci = absint.Interp(w, cb, models=effects.EXTRA_MODELS)
    table = set()
    for o in ci.run(0):
        if o.kind != "return":
            return None
        rv = ci.resolve(o, o.value_at((("L", 0),)))
        var = [c[2] for k_, c in o.cons.items() if c[0] == "varis" and c[1].endswith("option::Option") and "arg2" in k_]
        if rv[0] != "b" or len(var) != 1:
            return None
        table.add((var[0], rv[1]))
    if table == {("Some", True), ("None", False)}:
        return "is_some"
    if table == {("Some", False), ("None", True)}:
        return "is_none"
    return None


def slot_range_sites(w, fn):
    """the tag slots written for one character are `ts[.. last present tag + 1]`.  Every prefix of a tag slice taken in `fn` (inlined
    helpers included; `&ts[..n]` or `ts.iter().take(n)`) is classified by the forms of its bound n over all paths:
      map_or   n = ts.iter().rposition(present).map_or(0, |x| x + 1)
      match    n = 1 + x on the Some(x) path of rposition(present), 0 on the None path
      trailing n = ts.len() - ts.iter().rev().take_while(absent).count()
    Returns [(bb, kind or None, detail)]."""
    b, it, outs = C.run_fn(w, fn)
    per = {}
    for o in outs:
        nz = forms.Normalizer(it, o)
        for e in o.trace:
            if e[0] != "call" or not e[2] or len(e[3]) < 2:
                continue
            if "Index" in e[2] and e[3][1][0] == "agg" and e[3][1][1].endswith("RangeTo"):
                v = dict(e[3][1][2])["end"]
            elif e[2] == _IT + "::take":
                v = e[3][1]
            else:
                continue
            t = b.blocks[e[1]]["term"]
            p0 = t["args"][0].get("move") or t["args"][0].get("copy")
            ty = b.locals[p0["local"]]["ty"] if p0 else ""
            if "Option<" not in ty:
                continue
            per.setdefault(e[1], set()).add(forms.show(nz.form(v)))
    RP = r"<core::slice::iter::Iter as %s>::rposition\(&[^,]*, %s\)" % (re.escape(_IT), _PRED)
    out = []
    for bb, fs in sorted(per.items()):
        kind, detail = None, sorted(fs)
        if len(fs) == 1:
            f = next(iter(fs))
            m = re.fullmatch(r"core::option::Option::map_or\(%s, (-?\d+), %s\)" % (RP, _PRED), f)
            if m:
                pk = _pred_kind(w, m.group(1), m.group(2))
                cb = w.body(m.group(4)) if m.group(4) else None
                cf = None
                if cb is not None:
                    ci = absint.Interp(w, cb, models=effects.EXTRA_MODELS)
                    cf = sorted({forms.show(forms.Normalizer(ci, o).form(o.value_at((("L", 0),)))) if o.kind == "return" else o.kind for o in ci.run(0)})
                detail = "rposition(%s).map_or(%s, |x| %s)" % (pk, m.group(3), cf)
                if pk == "is_some" and m.group(3) == "0" and cf == ["1 + arg2"]:
                    kind = "map_or"
            elif f.startswith("[T]::len(&") and " - %s::count(" % _IT in f:
                left, right = f.split(" - %s::count(" % _IT, 1)
                X = left[len("[T]::len(&"):-1]
                pre = "%s::take_while(%s::rev([T]::iter(&%s)), " % (_IT, _IT, X)
                m = re.fullmatch(_PRED + r"\)\)", right[len(pre):]) if right.startswith(pre) else None
                pk = _pred_kind(w, m.group(1), m.group(2)) if m else None
                detail = "len - rev().take_while(%s).count()" % pk
                if pk == "is_none":
                    kind = "trailing"
        elif len(fs) == 2 and "0" in fs:
            f = next(x for x in fs if x != "0")
            m = re.fullmatch(r"1 \+ %s@Some\.0" % RP, f)
            if m:
                pk = _pred_kind(w, m.group(1), m.group(2))
                detail = "match rposition(%s) { Some(x) => 1 + x, None => 0 }" % pk
                if pk == "is_some":
                    kind = "match"
        out.append((bb, kind, detail))
    return out


def slot_range_rule(chk, w, rule, fn, floor):
    sites = slot_range_sites(w, fn)
    chk.floor(rule, "tag slot ranges", len(sites), floor)
    for k, (bb, kind, detail) in enumerate(sites):
        chk.ob(rule, "writer:tag-slot-range[%d]" % k, kind is not None,
               "the tags of one character are written up to slot `%s`; expected the index of the last present tag + 1 (rposition(is_some).map_or(0, |x| x + 1) or an equivalent form): every slot "
               "up to AND INCLUDING the last present tag (otherwise the last tag of that character is not written and is lost on re-parsing)" % (detail,), site=C.site(C.body(w, fn), bb),
               sample={"kind": kind, "bound": str(detail)[:200]})


SHRINKERS = ("truncate", "pop", "remove", "drain", "retain", "retain_mut", "insert", "split_off", "set_len", "replace_range", "dedup", "dedup_by", "dedup_by_key",
             "swap_remove", "resize", "resize_with", "swap", "reverse", "sort", "sort_unstable", "rotate_left", "rotate_right", "insert_str")


def append_only_rule(chk, w, rule, fn, buf_param=2):
    """a writer builds its output by appending: after the initial clear() nothing that was written is removed, moved or
    overwritten (no truncate / pop / remove / drain / retain / insert / resize / sort ... on the output buffer or its byte vector)"""
    b = C.body(w, fn)
    bad = []
    n = 0
    for bb, t in cfgmod.calls(b):
        c = cfgmod.callee(t) or ""
        if not (c.startswith("alloc::vec::Vec") or c.startswith("alloc::string::String") or c.startswith("[T]::") or c.startswith("str::")) or not t["args"]:
            continue
        p0 = t["args"][0].get("move") or t["args"][0].get("copy")
        if not p0 or buf_param not in C.backward_locals(b, p0["local"], depth=12):
            continue
        n += 1
        m = c.split("::")[-1]
        if m in SHRINKERS:
            bad.append((bb, c))
    chk.floor(rule, "operations on the output buffer", n, 3)
    chk.ob(rule, "writer:%s:append-only" % fn.split("::")[-1], not bad,
           "%s removes / moves what it has already written to the output buffer (%s): the text is no longer the concatenation of what the token loop emitted"
           % (fn, [c for _, c in bad]), site=C.site(b, bad[0][0] if bad else None), sample={"calls": [c for _, c in bad]})


def tag_flatten_rule(chk, w, rule, parser):
    """the parsers collect, per character, the list of its tag strings (an empty string where the slot is left empty) and then
    flatten the lists into the sentence's tag vector: EVERY collected string becomes exactly one entry, in order - an absent entry
    for the empty string, the string otherwise.  Dropping (filtering) the empty ones moves later tags into earlier categories."""
    b = C.body(w, parser)
    cf = cfgmod.cfg_of(b)
    loops = cf.natural_loops()
    it = absint.Interp(w, b, models=effects.EXTRA_MODELS, summaries=C.summaries(w))
    targs = [i for i in range(1, b.arg_count + 1) if "Option<S::borrow::Cow" in C.tyn(b.locals[i]["ty"]) and C.tyn(b.locals[i]["ty"]).startswith("&mut S::vec::Vec<")]
    short = parser.split("::")[-1]
    if len(targs) != 1:
        chk.undecided(rule, "parser:%s:flatten" % short, "tag vector parameter not found", site=C.site(b))
        return
    tp = (("A", targs[0]),)
    cand = []
    for h, blks in loops.items():
        for bb, t in cfgmod.calls(b):
            if bb in blks and (cfgmod.callee(t) or "").endswith("::next") and cf.innermost_loop_of(bb)[0] == h \
                    and C.tyn(b.locals[t["dest"]["local"]]["ty"]) == "S::option::Option<S::string::String>":
                cand.append((h, blks, bb))
    rows = set()
    for h, blks, nbb in cand:
        pre = [o for o in it.run(0, stop=[h]) if o.kind == "stop"]
        if not pre:
            continue
        n0 = len(pre[0].trace)
        for o in it.run(h, stop=set(cf.blocks) - blks, env=pre[0].env, cons=pre[0].cons, stop_at_entry_again=True, trace=pre[0].trace):
            if o.kind != "stop" or o.info != h:
                continue
            item = o.cons.get("ret:%d" % nbb)
            if not item or item[2] != "Some":
                continue
            tr = o.trace[n0:]
            emp = None
            for e in tr:
                if e[0] == "call" and (e[2] or "").endswith("::is_empty"):
                    r = it.resolve(o, absint.SYM("ret:%d" % e[1]))
                    c_ = o.cons.get("ret:%d" % e[1])
                    emp = r[1] if r[0] == "b" else (c_[1][1] if c_ and c_[0] == "eq" else None)
                    if emp is None and e[3] and e[3][0][0] == "ref":
                        # emptiness is modelled as a case split on the tested string itself
                        pv = o.env.get(tuple(e[3][0][1]) + (("f", "<empty?>"),))
                        if pv is None:
                            pv = o.env.get(tuple(effects.strip_content(tuple(e[3][0][1]))) + (("f", "<empty?>"),))
                        emp = pv[1] if pv and pv[0] == "b" else None
            ps = []
            for e in tr:
                if e[0] == "push" and e[2][:1] == tp:
                    v = it.resolve(o, e[3])
                    ps.append(v[2] if v[0] == "var" else "?")
            rows.add((emp, tuple(ps)))
    chk.floor(rule, "flatten loops of %s" % short, len(cand), 1)
    want = {(True, ("None",)), (False, ("Some",))}
    chk.ob(rule, "parser:%s:one-entry-per-collected-tag" % short, rows == want,
           "flattening the collected tag strings in %s does (string empty?, entries pushed) = %s; expected one absent entry for an empty string and one present entry otherwise, "
           "so that every tag keeps the position of its `/` separator" % (parser, sorted(rows, key=str)), site=C.site(b, cand[0][0] if cand else None), sample={"rows": sorted(map(str, rows))})
