"""C05 - Sentence parsers are total and leave a consistent sentence."""
from .. import facts, absint, effects, forms, cfg as cfgmod
from . import common as C

EXPLANATION = (
    "R05.1 kill sets (E5): on every path of update_raw/update_tokenized/update_partial_annotation that returns Ok, "
    "and on every path of the private reset, every field of struct Sentence (field list read from the ADT) is fully "
    "overwritten (assignment, clear, take/replace, clone_from, Cow::to_mut + callee clear; callee summaries per return "
    "class, inlining bound 3). R05.2: every Err path of an update_* calls the reset (the function "
    "<Sentence as Default>::default itself uses) and writes nothing to the sentence afterwards; the three from_* "
    "struct literals initialise scores/padding/automaton states/predictor to empty/0/None. R05.3: in every function "
    "that changes the tags vector's length or n_tags, the final length form equals n_tags * len() (E4 forms). "
    "R05.4: FDAI totality of the three parse loops (no unwrap on None / explicit panic reachable) over the finite "
    "abstract state (escape, prev_boundary/is_char, tag_str variant, emptiness of text/tags_tmp, input character class)."
)
THOROUGH_CONFIGS = [C.NO_TAG, C.MINIMAL]
QUICK_CONFIGS = [C.NO_TAG, C.MINIMAL]
NOT_DECIDED = [
    "bounds of str_to_char_pos[pos] stores and the `n_tags - ts.len()` subtraction (numeric)",
    "that accessors/writers/iterators work on the result beyond the shape facts R05.1-R05.3",
]

UPDATES = ["update_raw", "update_tokenized", "update_partial_annotation"]
FROMS = ["from_raw", "from_tokenized", "from_partial_annotation"]


# ------------------------------------------------------------------------------------------
# models that track the abstract length of vectors (R05.3)
# ------------------------------------------------------------------------------------------

def m_resize(interp, st, t, args, bb):
    p = absint._coll_path(args[0])
    if p is None:
        return None
    s2 = st.fork()
    interp._write(s2, p + (("f", "<len>"),), args[1])
    if p[0][0] in ("A", "S"):
        s2.trace = s2.trace + (("resize", bb, p, args[1], args[2] if len(args) > 2 else None),)
    return [(s2, absint.UNIT)]


def m_clear_len(interp, st, t, args, bb):
    res = absint.m_clear(interp, st, t, args, bb)
    if res is None:
        return None
    out = []
    for s2, rv in res:
        p = absint._coll_path(args[0])
        interp._write(s2, p + (("f", "<len>"),), absint.I(0))
        out.append((s2, rv))
    return out


LEN_MODELS = dict(effects.EXTRA_MODELS)
LEN_MODELS.update({
    "alloc::vec::Vec::resize": m_resize,
    "alloc::vec::Vec::clear": m_clear_len,
})


def run(chk):
    w = C.world_for(chk)
    from . import ctors as _acc
    _acc.accessors(chk, w, only=["vaporetto::sentence::"])
    chk.rule("R05.1", "every Sentence field is killed on every Ok path of update_* and on every path of the reset")
    chk.rule("R05.2", "Err paths of update_* end in the full reset; from_* literals start with empty scores/padding 0/no predictor")
    chk.rule("R05.3", "tags length form == n_tags form * len() at every exit of a function that changes either")
    chk.rule("R05.4", "no unwrap-on-None / explicit panic reachable in the parse loops (finite abstract state fixpoint)")
    kill_rules(chk, w)
    literal_rules(chk, w)
    # "tags ... consistent with the input": every collected tag string lands in its own slot (shared with C03 / C04)
    from . import fmt as _fmt
    chk.rule("R05.5", "the parsers flatten the collected tag strings one entry per string, in order")
    for upd in ("update_tokenized", "update_partial_annotation"):
        _fmt.tag_flatten_rule(chk, w, "R05.5", C.find_parser(w, C.S + "::" + upd))
    # ---------------------------------------------------------------- R05.3
    r053(chk, w)
    # ---------------------------------------------------------------- R05.4
    from . import c05_total
    c05_total.run(chk, w)


def kill_rules(chk, w, only_fields=None):
    """R05.1 / R05.2 (also the history clause R08.1 of C08)"""
    fields = [f_ for f_ in C.sentence_fields(w) if only_fields is None or f_ in only_fields]
    E = effects.Effects(w)
    reset = C.find_reset_fn(w)
    chk.fn(reset)
    n_inst = 0
    targets = [(C.S + "::" + u, "Ok") for u in UPDATES] + [(reset, None)]
    for fn, cls in targets:
        b = C.body(w, fn)
        chk.fn(fn)
        pfs = E.paths(fn)
        if not pfs:
            chk.undecided("R05.1", fn, "no path facts")
            continue
        rets = [pf for pf in pfs if pf.kind == "return" and (cls is None or pf.rclass == cls)]
        if not rets:
            chk.undecided("R05.1", fn, "no %s return path found" % cls)
            continue
        for f in fields:
            missing = [pf for pf in rets if not effects.is_killed(pf.killed, C.fpath(1, f))]
            n_inst += 1
            short = fn.split("::")[-1]
            chk.ob("R05.1", "%s:%s" % (short, f), not missing,
                   "field `%s` of Sentence is not overwritten on %d of %d %s path(s) of %s: state from the previous "
                   "use of the sentence object survives the update" % (f, len(missing), len(rets), cls or "return", fn)
                   if missing else "killed on all %d paths" % len(rets),
                   site=C.site(b), sample={"fn": fn, "field": f, "paths": len(rets)} if f == fields[0] else None)
        if cls == "Ok":
            errs = [pf for pf in pfs if pf.kind == "return" and pf.rclass == "Err"]
            short = fn.split("::")[-1]
            if not errs:
                chk.undecided("R05.2", "%s:err-paths" % short, "no Err path found")
            for i, pf in enumerate(errs):
                idx = [k for k, e in enumerate(pf.outcome.trace) if e[0] == "call" and e[2] == reset
                       and e[3] and e[3][0] == ("ref", (("A", 1),))]
                ok = bool(idx)
                later = []
                if ok:
                    later = [e for e in pf.outcome.trace[idx[-1] + 1:]
                             if e[0] in ("store", "push", "clear", "havoc", "resize") and e[2][:1] == (("A", 1),)]
                chk.ob("R05.2", "%s:err-path-resets" % short, ok and not later,
                       "an Err return of %s is not preceded by the full reset %s (or writes to the sentence after it)"
                       % (fn, reset) if not (ok and not later) else "reset is the last write", site=C.site(b))
    chk.floor("R05.1", "functions x fields", n_inst, 4 * (12 if only_fields is None else len(only_fields)))


def literal_rules(chk, w):
    fields = C.sentence_fields(w)
    # from_* literals
    n_lit = 0
    for fr in FROMS:
        fn = C.S + "::" + fr
        b, it, outs = C.run_fn(w, fn)
        chk.fn(fn)
        oks = [o for o in outs if o.kind == "return" and effects.ret_class(o.value_at((("L", 0),))) == "Ok"]
        errs = [o for o in outs if o.kind == "return" and effects.ret_class(o.value_at((("L", 0),))) == "Err"]
        if not oks or not errs:
            chk.undecided("R05.2", "%s:paths" % fr, "expected Ok and Err return paths")
            continue
        for o in oks:
            v = o.value_at((("L", 0),))
            agg = v[3][0] if v[3] else None
            if not agg or agg[0] != "agg" or agg[1] != C.S:
                chk.undecided("R05.2", "%s:literal" % fr, "Ok value is not a Sentence struct literal: %r" % (agg,))
                continue
            vals = dict(agg[2])
            for f in fields:
                if f in ("text", "char_types", "boundaries", "str_to_char_pos", "char_to_str_pos", "tags", "n_tags"):
                    continue
                x = vals.get(f)
                if f == "score_padding":
                    ok = x == absint.I(0)
                elif f == "predictor":
                    ok = x is not None and x[0] == "var" and x[2] == "None"
                else:
                    ok = x is not None and x[0] == "agg" and dict(x[2]).get("<empty?>") == absint.B(True)
                n_lit += 1
                chk.ob("R05.2", "%s:init:%s" % (fr, f), ok,
                       "constructor %s initialises `%s` to %r instead of empty/0/None" % (fn, f, x) if not ok else "empty/0/None",
                       site=C.site(b))
    chk.floor("R05.2", "from_* literal fields", n_lit, 3 * 5)


def _writers_of_tag_shape(w):
    """functions of crate vaporetto that store Sentence.n_tags, take `&mut` of Sentence.tags, or build a Sentence literal"""
    out = {}
    for b in w.all_bodies("vaporetto"):
        if b.promoted is not None:
            continue
        hit = set()
        for blk in b.blocks:
            if blk["cleanup"]:
                continue
            for s in blk["stmts"]:
                if s["k"] != "assign":
                    continue
                for e in s["place"]["proj"]:
                    if isinstance(e, dict) and e.get("field") == "n_tags" and e.get("of") == C.S:
                        hit.add("n_tags")
                rv = s["rv"]
                if rv["k"] == "ref" and rv["mut"]:
                    pr = rv["place"]["proj"]
                    if pr and isinstance(pr[-1], dict) and pr[-1].get("field") == "tags" and pr[-1].get("of") == C.S:
                        hit.add("tags")
                if rv["k"] == "aggr" and rv["adt"] == C.S:
                    hit.add("literal")
        if hit:
            out[b.fn] = hit
    return out


def r053(chk, w):
    writers = _writers_of_tag_shape(w)
    chk.floor("R05.3", "functions touching tags shape", len(writers), 7)
    # a call to another checked writer re-establishes the pairing for its sentence argument
    def m_writer(interp, st, t, args, bb):
        cb = w.body(cfgmod.callee(t))
        s2 = st.fork()
        for j, a in enumerate(args):
            if a[0] == "ref" and cb.locals[j + 1]["adt"] == C.S and cb.locals[j + 1]["tk"] == "refmut":
                interp._havoc(s2, a[1], "writer%d" % bb)
                interp._write(s2, a[1] + (("f", "tags"), ("f", "<len>")), absint.SYM("pairL:%d" % bb))
                interp._write(s2, a[1] + (("f", "n_tags"),), absint.SYM("pairN:%d" % bb))
                s2.trace = s2.trace + (("havoc", bb, a[1], "writer"),)
        return [(s2, absint.SYM("ret:%d" % bb))]
    models = dict(LEN_MODELS)
    for fn in writers:
        cb = w.body(fn)
        if any(cb.locals[j]["adt"] == C.S and cb.locals[j]["tk"] == "refmut" for j in range(1, cb.arg_count + 1)):
            models[fn] = m_writer
    for fn, hit in sorted(writers.items()):
        b = C.body(w, fn)
        chk.fn(fn)
        # which parameter is the &mut Sentence
        sidx = [i for i in range(1, b.arg_count + 1) if b.locals[i]["adt"] == C.S and b.locals[i]["tk"] == "refmut"]
        it = absint.Interp(w, b, models={k: v for k, v in models.items() if k != fn})
        outs = [o for o in it.run(0) if o.kind == "return"]
        short = fn.split("::")[-1]
        if "literal" in hit and not sidx:
            for o in outs:
                v = o.value_at((("L", 0),))
                agg = None
                if v[0] == "var" and v[2] == "Ok" and v[3]:
                    agg = v[3][0]
                elif v[0] == "agg":
                    agg = v
                if not agg or agg[0] != "agg" or agg[1] != C.S:
                    continue
                vals = dict(agg[2])
                ok, why = _literal_shape_ok(it, o, vals)
                chk.ob("R05.3", "%s:literal" % short, ok, why, site=C.site(b),
                       sample={"fn": fn, "n_tags": str(vals.get("n_tags")), "tags": str(vals.get("tags"))[:80]})
            continue
        if not sidx:
            continue
        i = sidx[0]
        for o in outs:
            ok, why, sample = _shape_ok(it, o, i)
            rc = effects.ret_class(o.value_at((("L", 0),)))
            chk.ob("R05.3", "%s:%s" % (short, rc), ok, why, site=C.site(b), sample=sample)


def _is_len_call(it, sym, path_pred):
    info = it.ret_info.get(sym[1]) if sym[0] == "sym" else None
    if not info:
        return False
    callee, args = info
    if not callee or not (callee.endswith("::len")):
        return False
    return bool(args) and args[0][0] == "ref" and path_pred(effects.strip_content(args[0][1]))


def _shape_ok(it, o, i):
    nz = forms.Normalizer(it, o)
    tags_p = C.fpath(i, "tags")
    n_p = C.fpath(i, "n_tags")
    L = o.value_at(tags_p + (("f", "<len>"),))
    N = o.value_at(n_p)
    tags_events = [k for k, e in enumerate(o.trace) if e[0] in ("clear", "resize", "push", "havoc", "store") and effects.strip_content(e[2])[:len(tags_p)] == tags_p]
    n_changed = not (N[0] == "sym" and N[1] == "m:" + absint.pstr(n_p))
    l_unchanged = (L[0] == "sym" and L[1] == "m:" + absint.pstr(tags_p + (("f", "<len>"),))) and not tags_events
    sample = {"tags_len": forms.show(nz.form(L)) if not l_unchanged else "unchanged", "n_tags": forms.show(nz.form(N)) if n_changed else "unchanged"}
    if l_unchanged and not n_changed:
        return True, "neither changed on this path", None
    if L[0] == "sym" and N[0] == "sym" and L[1].startswith("pairL:") and N[1] == "pairN:" + L[1][6:]:
        return True, "both set by a callee that is itself checked by this rule", sample
    # (c) n_tags := len(tags) / len(char_types) evaluated after the last change of tags
    if N[0] == "expr" and N[1] == "Div":
        a, bq = N[2], N[3]
        if _is_len_call(it, a, lambda p: p == tags_p) and \
                (_is_len_call(it, bq, lambda p: p == C.fpath(i, "char_types")) or _is_sentence_len(it, bq, i)):
            bb_len = int(a[1].split(":")[1])
            pos = [k for k, e in enumerate(o.trace) if e[0] == "call" and e[1] == bb_len]
            if pos and (not tags_events or max(tags_events) < pos[-1]):
                return True, "n_tags = tags.len()/len() after the last change of tags", sample
            return False, "n_tags is computed from tags.len() before tags is changed again", sample
    if l_unchanged and n_changed:
        return False, "n_tags is changed (to %s) while the tags vector keeps its old length" % sample["n_tags"], sample
    if not n_changed:
        fl = nz.form(L) if L[0] != "sym" or not L[1].startswith("hv:") else None
        return False, ("the tags vector is resized/cleared (new length %s) but n_tags keeps its old value: "
                       "tags.len() != n_tags * len() afterwards" % (forms.show(fl) if fl is not None else "unknown")), sample
    if L[0] == "sym" and (L[1].startswith("hv:") or L[1].startswith("m:")):
        return False, "tags is modified by an unmodelled operation and n_tags is not recomputed from its length", sample
    fL, fN = nz.form(L), nz.form(N)
    if not fL and not fN:
        return True, "both 0", sample
    for lenatom in _len_atoms(it, o, i):
        if fL == forms.mul(fN, lenatom):
            return True, "tags.len() = n_tags * len()", sample
    return False, "tags length form %s is not n_tags form %s times len()" % (forms.show(fL), forms.show(fN)), sample


def _is_sentence_len(it, sym, i):
    info = it.ret_info.get(sym[1]) if sym[0] == "sym" else None
    return bool(info) and info[0] == C.S + "::len" and info[1] and info[1][0] == ("ref", (("A", i),))


def _len_atoms(it, o, i):
    out = []
    nz = forms.Normalizer(it, o)
    for name, (callee, args) in it.ret_info.items():
        if callee == C.S + "::len" and args and args[0] == ("ref", (("A", i),)):
            out.append(nz.form(absint.SYM(name)))
        if callee and callee.endswith("Vec::len") and args and args[0][0] == "ref" and effects.strip_content(args[0][1]) == C.fpath(i, "char_types"):
            out.append(nz.form(absint.SYM(name)))
    return out


def _literal_shape_ok(it, o, vals):
    t, n = vals.get("tags"), vals.get("n_tags")
    if t is None or n is None:
        return False, "literal without tags/n_tags"
    if t[0] == "agg" and dict(t[2]).get("<empty?>") == absint.B(True):
        ok = n == absint.I(0)
        return ok, "empty tags with n_tags %r" % (n,)
    if n[0] == "expr" and n[1] == "Div":
        a, bq = n[2], n[3]
        ia, ib = it.ret_info.get(a[1]) if a[0] == "sym" else None, it.ret_info.get(bq[1]) if bq[0] == "sym" else None
        if ia and ib and ia[0].endswith("::len") and ib[0].endswith("::len") and ia[1][0][0] == "ref" and ib[1][0][0] == "ref":
            va = o.value_at(effects.strip_content(ia[1][0][1]))
            vb = o.value_at(effects.strip_content(ib[1][0][1]))
            if va == t and vb == vals.get("char_types"):
                return True, "n_tags = tags.len()/char_types.len() of the vectors stored in the literal"
    return False, "n_tags %r is not derived from the stored tags/char_types vectors" % (n,)
