"""C15 - Post-filters apply exactly their rule and nothing else."""
import re

from .. import facts, absint, forms, cfg as cfgmod, effects, witness
from . import common as C

EXPLANATION = (
    "R15.1 effect confinement (E5 + API surface): the only `&mut Sentence` methods called (transitively, in the filter and "
    "its closures) by the three boundary filters is boundaries_mut, by the tagger tags_mut; the public API of Sentence hands "
    "out `&mut` only to boundaries and tags (item scan + compile-fail witnesses), so text and character types cannot change. "
    "R15.2 idempotence by shape: each boundary filter stores one constant label (wsconst/grapheme: NotWordBoundary, "
    "line-break: WordBoundary) and never reads boundary contents (only lengths), so its condition is a function of text/types "
    "alone: f(f(s)) = f(s) and uncovered boundaries keep their value. R15.3 rule tables (FDAI): wsconst stores at index i iff "
    "the types of characters i and i+1 both equal the filter's type; line-break stores at i iff the previous or the current "
    "character is CR/LF (i counts characters after the first); the tagger queues only slots that are None, from the rule of "
    "the token's surface, and writes them at (end-1)*n_tags + j."
)
NOT_DECIDED = ["grapheme segmentation itself (unicode-segmentation)", "ranges of the unchecked indexes (C18)"]

FILTERS = {
    "wsconst": "<vaporetto_rules::sentence_filters::kytea_wsconst::KyteaWsConstFilter as vaporetto_rules::SentenceFilter>::filter",
    "linebreak": "<vaporetto_rules::sentence_filters::split_linebreaks::SplitLinebreaksFilter as vaporetto_rules::SentenceFilter>::filter",
    "grapheme": "<vaporetto_rules::sentence_filters::concat_grapheme_clusters::ConcatGraphemeClustersFilter as vaporetto_rules::SentenceFilter>::filter",
    "tagger": "<vaporetto_rules::sentence_filters::pattern_match_tagger::PatternMatchTagger as vaporetto_rules::SentenceFilter>::filter",
}


def sentence_methods_called(w, fn):
    """(mutating, reading) Sentence methods called by fn, its closures and workspace callees outside crate vaporetto"""
    mut_, rd = set(), set()
    seen = set()
    todo = [fn]
    while todo:
        f = todo.pop()
        if f in seen:
            continue
        seen.add(f)
        for bd, bb, t in C.static_calls(w, f):
            c = cfgmod.callee(t) or ""
            it = w.fn_item(c)
            if c.startswith(C.S + "::") or c.startswith("vaporetto::sentence::Token"):
                ins = it["inputs"] if it else []
                if ins and ins[0].startswith("&mut "):
                    mut_.add(c)
                else:
                    rd.add(c)
            elif w.body(c) is not None and not c.startswith("vaporetto::"):
                todo.append(c)
    return mut_, rd


def run(chk):
    w = C.world_for(chk)
    # this property is stated over tokens: the token iterator and the tokenized writer (all of C02) are part of its mechanism
    from . import c02 as _c02
    with chk.only(rules={"R02.1", "R02.2", "R02.4", "R02.5"}):
        _c02.run(chk)
    from . import ctors as _acc
    _acc.accessors(chk, w, only=["vaporetto::sentence::"])
    for rid, txt in (("R15.1", "filters touch only boundaries (resp. tags); API surface"), ("R15.2", "single constant label, no read of boundary contents"),
                     ("R15.3", "rule tables of wsconst / line-break / tagger")):
        chk.rule(rid, txt)
    for name, fn in FILTERS.items():
        b = C.body(w, fn)
        chk.fn(fn)
        m, r = sentence_methods_called(w, fn)
        want = {C.S + "::tags_mut"} if name == "tagger" else {C.S + "::boundaries_mut"}
        chk.ob("R15.1", "%s:mutators" % name, m == want, "the %s filter calls the mutating Sentence methods %s; it may only use %s" % (name, sorted(m), sorted(want)), site=C.site(b),
               sample={"filter": name, "mutators": sorted(m), "readers": sorted(r)})
        if name != "tagger":
            chk.ob("R15.2", "%s:no-boundary-reads" % name, C.S + "::boundaries" not in r and C.S + "::iter_tokens" not in r,
                   "the %s filter reads boundary contents (%s): its decision then depends on its own earlier output and f(f(s)) = f(s) is no longer structural" % (name, sorted(x for x in r if "boundar" in x or "iter_tokens" in x)), site=C.site(b))
            # direct writes to fields are impossible outside the crate (pub(crate)); unsafe ops are inventoried in C18
        # "exactly their rule": the rule is applied by the filter's main loop over the sentence; a shortcut that returns before
        # that loop (a fast path for some class of texts) applies no rule at all to those texts
        cf_ = cfgmod.cfg_of(b)
        loops_ = cf_.natural_loops()
        outer_ = [h for h in loops_ if not any(h != g and loops_[h] < loops_[g] for g in loops_)]
        rets_ = [bl["id"] for bl in b.blocks if not bl["cleanup"] and bl["term"] and bl["term"]["k"] == "return"]
        okp = bool(outer_) and bool(rets_) and all(cf_.must_pass(0, {r_}, set(outer_)) for r_ in rets_)
        chk.ob("R15.3", "%s:no-return-before-the-rule-loop" % name, okp,
               "the %s filter can return without entering its loop over the sentence (loop headers %s): for such inputs the rule is not applied" % (name, sorted(outer_)), site=C.site(b))
    # API surface
    c = w.crates["vaporetto"]
    muts = sorted(p for p, f in c.fns.items() if p.startswith(C.S + "::") and f["vis"] == "pub" and "&mut" in f["output"])
    chk.ob("R15.1", "api:only-boundaries-and-tags-mut", muts == [C.S + "::boundaries_mut", C.S + "::tags_mut"],
           "public Sentence methods returning &mut: %s (expected boundaries_mut, tags_mut only)" % muts, sample={"methods": muts})
    fields = w.adt(C.S)["variants"][0]["fields"]
    pubf = [f["name"] for f in fields if f["vis"] == "pub"]
    chk.ob("R15.1", "api:no-public-fields", not pubf, "Sentence has public fields %s" % pubf)
    witness.check(chk, "R15.1", "W151ReadOnlyText", 2, 1, "text / character types must not be obtainable mutably")

    wsconst(chk, w)
    linebreak(chk, w)
    grapheme(chk, w)
    tagger(chk, w)


def _loop_of_call(b, cf, pred):
    for bb, t in cfgmod.calls(b):
        if pred(cfgmod.callee(t) or ""):
            l = cf.innermost_loop_of(bb)
            if l:
                return l
    return None


def wsconst(chk, w):
    fn = FILTERS["wsconst"]
    b = C.body(w, fn)
    cf = cfgmod.cfg_of(b)
    it = absint.Interp(w, b, models=effects.EXTRA_MODELS, summaries=C.summaries(w))
    it.trace_deref_stores = True
    lp = _loop_of_call(b, cf, lambda c: c.endswith("get_unchecked_mut"))
    if not lp:
        chk.undecided("R15.3", "wsconst:loop", "store loop not found", site=C.site(b))
        return
    h, blks = lp
    pre = [o for o in it.run(0, stop=[h]) if o.kind == "stop"]
    chk.floor("R15.3", "wsconst filter types", len(pre), 6)
    discr = {v["name"]: v["discr"] for v in w.adt(C.CT)["variants"]}
    for pr in pre:
        _wsconst_one(chk, w, b, cf, it, h, blks, pr, discr)


def _wsconst_one(chk, w, b, cf, it, h, blks, pr, discr):
    pre = [pr]
    own = [c[2] for s, c in pr.cons.items() if c[0] == "varis" and c[1] == C.CT]
    own = own[0] if own else "?"
    nzp = forms.Normalizer(it, pre[0])
    # loop range 0 .. char_types().len() - 1
    rng = [e for e in pre[0].trace if e[0] == "call" and (e[2] or "").endswith("into_iter") and e[3][0][0] == "agg" and "Range" in e[3][0][1]]
    rs = C.show_arg(nzp, rng[0][3][0]) if rng else None
    chk.ob("R15.3", "wsconst(%s):range" % own, rs is not None and re.fullmatch(r"Range\{start: 0, end: -1 \+ \[T\]::len\(&\*\{vaporetto::sentence::Sentence::char_types\(&arg2\)\}\)\}", rs) is not None,
           "wsconst iterates %s; expected 0 .. char_types().len()-1" % rs, site=C.site(b, h), sample={"range": rs})
    outs = it.run(h, stop=set(cf.blocks) - blks, env=pre[0].env, cons=pre[0].cons, stop_at_entry_again=True, trace=pre[0].trace)
    n0 = len(pre[0].trace)
    table = set()
    for o in outs:
        if o.kind != "stop" or o.info != h:
            continue
        item = o.cons.get("ret:%d" % h)
        if not item or item[2] != "Some":
            continue
        tr = o.trace[n0:]
        nz = forms.Normalizer(it, o, rename=lambda s: re.sub(r"<core::ops::range::Range as core::iter::traits::iterator::Iterator>::next\(&_\d+\)@Some\.0", "i", s))
        reads = [(e[1], C.show_arg(nz, e[3][1])) for e in tr if e[0] == "call" and (e[2] or "").endswith("[T]::get_unchecked") and "char_types" in nz.path_atom(e[3][0][1])]
        cmps = []
        for e in tr:
            if e[0] == "call" and (e[2] or "").endswith("[T]::get_unchecked"):
                c = o.cons.get("m:*{ret:%d}" % e[1])
                if c is not None:
                    cmps.append(c[0] == "eq" and c[1][1] == discr.get(own))
        st = [(C.show_arg(nz, e2[3][1]), e[3][2]) for e in tr if e[0] == "store" and e[3][0] == "var" and e[3][1] == C.CB
              for e2 in tr if e2[0] == "call" and (e2[2] or "").endswith("get_unchecked_mut")]
        table.add((tuple(sorted(set(r[1] for r in reads))), tuple(cmps), tuple(sorted(set(st)))))
    # specification: a store (at i, NotWordBoundary) exactly on the path where both comparisons held; both reads are i and 1 + i
    stores = [r for r in table if r[2]]
    nostores = [r for r in table if not r[2]]
    ok = len(stores) == 1 and stores[0][0] == ("1 + i", "i") and stores[0][1] == (True, True) and stores[0][2] == (("i", "NotWordBoundary"),) \
        and all(False in r[1] for r in nostores) and len(nostores) >= 1
    chk.ob("R15.3", "wsconst(%s):table" % own, ok, "wsconst derives (type reads, comparison outcomes, stores) = %s; specification: store NotWordBoundary at i iff types[i] == t and types[i+1] == t" % sorted(table, key=str),
           site=C.site(b, h), sample={"table": str(sorted(table, key=str))})
    chk.ob("R15.2", "wsconst(%s):constant" % own, {x[1] for r in table for x in r[2]} == {"NotWordBoundary"}, "wsconst stores %s" % {x[1] for r in table for x in r[2]}, site=C.site(b))


def linebreak(chk, w):
    fn = FILTERS["linebreak"]
    b = C.body(w, fn)
    cf = cfgmod.cfg_of(b)
    it = absint.Interp(w, b, models=effects.EXTRA_MODELS, summaries=C.summaries(w))
    it.trace_deref_stores = True
    lp = _loop_of_call(b, cf, lambda c: c.endswith("get_unchecked_mut"))
    if not lp:
        chk.undecided("R15.3", "linebreak:loop", "store loop not found", site=C.site(b))
        return
    h, blks = lp
    pre = [o for o in it.run(0, stop=[h]) if o.kind == "stop"]
    names = b.names()
    # roles by structure, not by the programmer's names: the previous character is the user variable of type `char` that is
    # carried around the loop; the counter is the loop-carried variable used as index of the store; the byte offset is the
    # remaining loop-carried usize
    carried = [l for l in sorted(it._loop_assigned_locals(h)) if l in names and C.loop_carried(b, cf, h, l)]
    prev_l = [l for l in carried if b.locals[l]["ty"] == "char"]
    role = {}
    outs = it.run(h, stop=set(cf.blocks) - blks, env=pre[0].env, cons=pre[0].cons, stop_at_entry_again=True, trace=pre[0].trace)
    n0 = len(pre[0].trace)
    rows = set()
    idx_forms = set()
    upd = set()
    for o in outs:
        if o.kind != "stop" or o.info != h:
            continue
        tr = o.trace[n0:]
        if not any(e[0] == "call" and (e[2] or "").endswith("Chars as core::iter::traits::iterator::Iterator>::next") for e in tr):
            continue
        cur = None
        prv = None
        for s, c in o.cons.items():
            if c[0] in ("eq", "notin") and ("@Some.0" in s) and "Chars" in (forms.Normalizer(it, o).ret_info.get(s.split("@")[0], ("",))[0] or ""):
                cur = c
            if prev_l and s == "hv:loop%d:_%d" % (h, prev_l[0]):
                prv = c
        def cls(c):
            if c is None:
                return "any"
            if c[0] == "eq":
                return {13: "CR", 10: "LF"}.get(c[1][1], "other")
            return "other" if {("i", 13), ("i", 10)} <= set(c[1]) or {("ch", 13), ("ch", 10)} <= set(c[1]) else "any"
        st = [e[3][2] for e in tr if e[0] == "store" and e[3][0] == "var" and e[3][1] == C.CB]
        rows.add((cls(prv), cls(cur), tuple(st)))
        nz = forms.Normalizer(it, o)
        for e in tr:
            if e[0] == "call" and (e[2] or "").endswith("get_unchecked_mut"):
                idx_forms.add(C.show_arg(nz, e[3][1]))
        # loop-carried updates: i += 1 ; prev_c = c
        for f_ in idx_forms:
            m_ = re.fullmatch(r"hv:loop%d:_(\d+)" % h, f_)
            if m_:
                role[int(m_.group(1))] = "i"
        for l in carried:
            n = "prev_c" if l in prev_l else role.get(l, "offset" if b.locals[l]["ty"] == "usize" else names[l])
            v = o.value_at((("L", l),))
            upd.add((n, forms.show(nz.form(v)) if v[0] in ("expr", "i") else nz.value_atom(v)))
    # complete decision table over (previous, current) in {CR, LF, other}^2; a component never tested on a path ("any") stands
    # for all three classes
    good = True
    full = {}
    for p, c_, st in rows:
        for pp in (("CR", "LF", "other") if p == "any" else (p,)):
            for cc in (("CR", "LF", "other") if c_ == "any" else (c_,)):
                full.setdefault((pp, cc), set()).add(st)
    for pp in ("CR", "LF", "other"):
        for cc in ("CR", "LF", "other"):
            want = {("WordBoundary",)} if (pp != "other" or cc != "other") else {()}
            if full.get((pp, cc)) != want:
                good = False
    chk.ob("R15.3", "linebreak:table", good and any(st for _, _, st in rows) and any(not st for _, _, st in rows),
           "line-break filter derives (previous char, current char, stores) = %s; specification: store WordBoundary iff previous or current is CR/LF" % sorted(rows), site=C.site(b, h),
           sample={"rows": str(sorted(rows))})
    chk.ob("R15.2", "linebreak:constant", {x for _, _, st in rows for x in st} == {"WordBoundary"}, "line-break filter stores %s" % {x for _, _, st in rows for x in st}, site=C.site(b))
    iname = [l for l, r_ in role.items() if r_ == "i"]
    chk.ob("R15.3", "linebreak:index", idx_forms == {"hv:loop%d:_%d" % (h, iname[0])} if iname else False, "the store index is %s; expected the running character counter i" % sorted(idx_forms), site=C.site(b, h))
    iupd = {u for u in upd if u[0] == "i"}
    pupd = {u for u in upd if u[0] == "prev_c"}
    chk.ob("R15.3", "linebreak:counter", all(re.fullmatch(r"1 \+ hv:loop\d+:_\d+", u[1]) for u in iupd) and len(iupd) == 1 and all(("Chars" in u[1] and "@Some.0" in u[1]) or u[1] in ("10", "13") for u in pupd) and any("Chars" in u[1] for u in pupd),
           "loop-carried updates %s; expected i := i + 1 and prev_c := current char on every iteration" % sorted(upd), site=C.site(b, h))
    # initial counter 0 and prev_c = first char
    v_i = it.resolve(pre[0], it._read(pre[0], (("L", iname[0]),))) if iname else None
    chk.ob("R15.3", "linebreak:initial", v_i == absint.I(0), "the character counter starts at %s" % (v_i,), site=C.site(b))


def grapheme(chk, w):
    fn = FILTERS["grapheme"]
    b = C.body(w, fn)
    it = absint.Interp(w, b, models=effects.EXTRA_MODELS, summaries=C.summaries(w))
    outs = it.run(0)
    fills = C.all_calls(outs, lambda e: (e[2] or "").endswith("[T]::fill"))
    vals = {str(e[3][1][2]) if e[3][1][0] == "var" else str(e[3][1]) for e, o in fills}
    chk.ob("R15.2", "grapheme:constant", vals == {"NotWordBoundary"}, "grapheme filter fills with %s" % vals, site=C.site(b))
    idx = set()
    for e, o in C.all_calls(outs, lambda e: (e[2] or "").endswith("get_unchecked_mut")):
        nz = forms.Normalizer(it, o)
        idx.add(re.sub(r"hv:loop\d+:_\d+", "START", re.sub(r"m:\*\{ret:\d+[^}]*\}|<[^>]*>::count\([^()]*(\([^()]*\))*[^()]*\)", "N_CHARS", C.show_arg(nz, e[3][1]))))
    chk.ob("R15.3", "grapheme:range", len(idx) == 1 and list(idx)[0].startswith("Range{start: START, end: -1 + ") and "START" in list(idx)[0].split("end:")[1],
           "grapheme filter clears boundaries %s; expected start .. start + n_chars - 1 for each cluster" % sorted(idx), site=C.site(b), sample={"range": sorted(idx)})
    segs = C.all_calls(outs, lambda e: "graphemes" in (e[2] or ""))
    ext = [e[3][1] for e, o in segs]
    chk.ob("R15.3", "grapheme:extended-clusters", bool(ext) and all(x == absint.B(True) for x in ext), "graphemes() is not called with is_extended = true", site=C.site(b))


def tagger(chk, w):
    fn = FILTERS["tagger"]
    b = C.body(w, fn)
    cf = cfgmod.cfg_of(b)
    it = absint.Interp(w, b, models=effects.EXTRA_MODELS, summaries=C.summaries(w))
    it.trace_deref_stores = True
    outs = it.run(0)
    # queue pushes only on paths where the slot is None and a rule exists
    rows = set()
    for o in outs:
        pushes = [e for e in o.trace if e[0] == "call" and (e[2] or "").endswith("Vec::push")]
        if not pushes and o.kind != "backedge":
            continue
        isnone = [e[5] for e in o.trace if e[0] == "call" and (e[2] or "").endswith("Option::is_none") and len(e) > 5]
        rule = [c[2] for s, c in o.cons.items() if c[0] == "varis" and c[1] == "core::option::Option" and "HashMap::get" in (forms.Normalizer(it, o).ret_info.get(s, ("",))[0] or "")]
        if isnone:
            rows.add((isnone[-1][1] if isnone[-1][0] == "b" else None, rule[-1] if rule else None, len(pushes) > 0))
    ok = (True, "Some", True) in rows and not any(r[2] and (r[0] is not True or r[1] != "Some") for r in rows)
    chk.ob("R15.3", "tagger:queue-only-absent-with-rule", ok, "tagger queues (slot is None, rule, pushed) = %s; expected a push only for (True, Some)" % sorted(rows, key=str), site=C.site(b), sample={"rows": str(sorted(rows, key=str))})
    # queued triple (end-1, j, tag) and the write index i*n_tags + j
    trip = set()
    for e, o in C.all_calls(outs, lambda e: (e[2] or "").endswith("Vec::push") and e[3][1][0] == "agg"):
        nz = forms.Normalizer(it, o)
        d = dict(e[3][1][2])
        trip.add((C.show_arg(nz, d["0"]), nz.value_atom(d["1"])))
    okt = len(trip) == 1 and re.fullmatch(r"-1 \+ vaporetto::sentence::Token::end\(&_\d+\)", list(trip)[0][0]) is not None and "Enumerate" in list(trip)[0][1] and list(trip)[0][1].endswith("@Some.0.0")
    chk.ob("R15.3", "tagger:queued-position", okt, "tagger queues %s; expected (token.end() - 1, j, tag)" % sorted(trip), site=C.site(b), sample={"queued": sorted(trip)})
    wr = set()
    for o in outs:
        nz = forms.Normalizer(it, o)
        for e in o.trace:
            if e[0] == "store" and e[2][-1][0] == "f" and str(e[2][-1][1]).startswith("[#") and "tags_mut" in nz.path_atom(e[2][:-1]):
                iv = it.index_vals[int(e[2][-1][1][2:-1])]
                wr.add(re.sub(r"<alloc::vec::into_iter::IntoIter as core::iter::traits::iterator::Iterator>::next\(&_\d+\)@Some\.0\.", "Q.", C.show_arg(nz, iv)))
    chk.ob("R15.3", "tagger:write-index", wr == {"Q.1 + Q.0*vaporetto::sentence::Sentence::n_tags(&arg2)"} or wr == {"Q.0*vaporetto::sentence::Sentence::n_tags(&arg2) + Q.1"},
           "tagger writes tags at %s; expected i * n_tags + j" % sorted(wr), site=C.site(b), sample={"index": sorted(wr)})
    # rule lookup key is the token surface; tag taken from position j of the rule
    keys = set()
    for e, o in C.all_calls(outs, lambda e: (e[2] or "").endswith("HashMap::get")):
        nz = forms.Normalizer(it, o)
        keys.add(nz.value_atom(e[3][1]) if e[3][1][0] != "ref" else nz.path_atom(e[3][1][1]))
    chk.ob("R15.3", "tagger:rule-by-surface", len(keys) == 1 and "Token::surface" in list(keys)[0], "rules are looked up by %s; expected the token surface" % sorted(keys), site=C.site(b))
