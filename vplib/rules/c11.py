"""C11 - Training is total and its output is always usable."""
import re

from .. import facts, absint, forms, cfg as cfgmod, effects
from . import common as C
from .c07 import error_discipline
from . import c06

EXPLANATION = (
    "R11.1 (fallible lookups): in every function and closure of trainer.rs / tag_trainer.rs an unwrap/expect, or a panicking "
    "map index, applied to the result of a data-dependent lookup (Iterator::position/find, map get/index, first/last...) is "
    "reported unless it is one of the confirmed exceptions frozen in the checker with its reason (index into a map built "
    "from the same examples; first/last of a vector created with length >= 1). R11.2 = R06.4 (model-derived index) and R09.1 "
    "(kind consistency; a wrong-kind window also panics). R11.3 quantisation: QUANTIZE_BIT_DEPTH = 16, both trainers divide "
    "by weight_max / (2^(DEPTH-1)-1), every to_int_unchecked operand is a quotient by that multiplier and the multiplier "
    "is non-zero on every path that reaches it (explicit == 0 -> Err, or a positive seed of the running maximum). "
    "R11.4 (E7): every fallible call in both train functions and Trainer::new is propagated."
)
NOT_DECIDED = [
    "liblinear's own behaviour", "integer conversions (try_from(..).unwrap() on sizes/ids)",
    "usability of the model by the predictor beyond R06.4 / C07",
]

LOOKUPS = ("::position", "::find", "::rposition", "::get", "::get_mut", "::first", "::last", "::first_mut", "::last_mut",
           "::min", "::max", "::pop", "::next", "::min_by", "::max_by", "::nth", "::find_map")
# confirmed by reading; one reason each (DESIGN §4 C11)
EXCEPTIONS = {
    ("vaporetto::trainer::Trainer::train", "first_mut"): "vector created as vec![0; word_len + 1]: length >= 1 (re-validated on every run)",
    ("vaporetto::trainer::Trainer::train", "last_mut"): "vector created as vec![0; word_len + 1]: length >= 1 (re-validated on every run)",
    ("vaporetto::tag_trainer::TagTrainer::gen_feature_vecs", "index"): "tag_ids is built in train_tag from the same examples, every Some tag of category idx is a key",
}
TRAIN_FILES = ("vaporetto/src/trainer.rs", "vaporetto/src/tag_trainer.rs")


def run(chk):
    w = C.world_for(chk)
    # rejecting an input means returning an error value: building it must not be able to fail (shared with C05)
    from . import c05_total as _c05t
    chk.rule("R05.4", "error constructors are straight-line conversions (shared with C05)")
    _c05t.error_ctors(chk, w)
    from . import c01_absent as _abs
    _abs.run(chk, w, directions=("empty-implies-absent",))   # acceptance by Predictor::new; the other direction only changes scores
    c06.r068(chk, w)
    # "every returned model ... predicts and tags any text without panicking": the bounds obligations of the unchecked code
    # (C18) are necessary conditions of that clause for trained models as for any other model
    from . import c18 as _c18
    # ... of those, the ones that depend on the MODEL (tables built from it, state vectors filled per prediction); rules about
    # sentence reuse, text formats or predictor serialisation do not concern "a trained model is usable"
    with chk.only(rules={"R18.2", "R06.3", "R15.3"}, keys=lambda k: not k.startswith("R18.2:STRPOS:parse") and "R18.2:inventory" not in k):
        _c18.run(chk)
    # the predictor's placement arithmetic (and the fixed-length fast path, which has no guard for a negative start) assumes the
    # vector lengths the trainer's arms produce: a record with another length is accepted by Predictor::new and panics in predict
    # (vector size forms R09.2 and plain records R09.5, shared with C09)
    from . import c09 as _c09r
    with chk.only(rules={"R09.2", "R09.5"}):
        _c09r.run_trainer_shapes(chk, w)
    # "can be serialised and re-read": the model file codec (shared with C07)
    from . import c07 as _c07
    with chk.only(rules={"R07.1", "R07.2", "R07.3", "R07.7"}):
        _c07.run(chk)
    for rid, txt in (("R11.1", "no unguarded unwrap of a data-dependent lookup in the trainers"), ("R11.2", "= R06.4 + R09.1"),
                     ("R11.3", "quantisation constants, shared multiplier, non-zero divisor"), ("R11.4", "error discipline in training")):
        chk.rule(rid, txt)
    n_sites = 0
    n_fn = 0
    for bd in w.all_bodies("vaporetto"):
        if bd.promoted is not None or not bd.span.startswith(TRAIN_FILES):
            continue
        if "core::fmt" in bd.fn or "core::cmp" in bd.fn or "core::hash" in bd.fn or "core::clone" in bd.fn:
            continue
        n_fn += 1
        chk.fn(bd.fn)
        for bb, t in cfgmod.calls(bd):
            nm = cfgmod.callee(t) or ""
            short = nm.split("::")[-1]
            lookup = None
            if short in ("unwrap", "expect") and ("Option" in nm):
                p = t["args"][0].get("move") or t["args"][0].get("copy")
                if not p:
                    continue
                callees, fields, params = C.backward_slice(bd, p["local"], depth=3)
                hits = [c for c in callees if any(c.endswith(l) for l in LOOKUPS)]
                if hits:
                    lookup = hits[0].split("::")[-1]
            elif "Index" in nm and ("HashMap" in nm or "BTreeMap" in nm):
                lookup = "index"
            if lookup is None:
                continue
            n_sites += 1
            owner = re.sub(r"(::\{closure#\d+\})+$", "", bd.fn)
            exc = EXCEPTIONS.get((owner, lookup))
            # exceptions are re-validated structurally where possible
            if exc and lookup in ("first_mut", "last_mut"):
                ok_len = False
                for bb2, t2 in cfgmod.calls(bd):
                    if (cfgmod.callee(t2) or "").endswith("from_elem"):
                        a = t2["args"][1]
                        pp = a.get("move") or a.get("copy")
                        for blk in bd.blocks:
                            for s in blk["stmts"]:
                                if s["k"] == "assign" and pp and s["place"]["local"] == pp["local"] and s["rv"]["k"] == "bin" and s["rv"]["op"] == "Add" and "const" in s["rv"]["b"] and s["rv"]["b"]["const"].get("int", 0) >= 1:
                                    ok_len = True
                exc = exc if ok_len else None
            chk.ob("R11.1", "%s:%s" % (owner.replace("vaporetto::", ""), lookup), exc is not None,
                   "%s unwraps/indexes the result of the data-dependent lookup `%s` without a guard: for a corpus in which the looked-up item is absent training panics instead of returning an error"
                   % (bd.fn, lookup) if exc is None else "confirmed exception: " + exc, site=C.site(bd, bb), sample={"fn": bd.fn, "lookup": lookup, "exception": exc})
    chk.floor("R11.1", "lookup unwrap sites", n_sites, 1)
    chk.floor("R11.1", "trainer functions scanned", n_fn, 30)

    # R11.2
    c06.r064(chk, w)

    quantisation(chk, w)
    # ---- R11.4
    error_discipline(chk, w, "R11.4", ["vaporetto::trainer::Trainer::train", "vaporetto::tag_trainer::TagTrainer::train_tag",
                                       "vaporetto::tag_trainer::TagTrainer::train", "vaporetto::trainer::Trainer::new"], 6,
                     err_types=("VaporettoError", "io::Error", "EncodeError", "DecodeError", "FromUtf8Error", "liblinear"))


def quantisation(chk, w):
    """R11.3 (also the to_int_unchecked obligation of C18)"""
    depth = w.const("vaporetto::trainer::QUANTIZE_BIT_DEPTH")
    dv = depth["value"]["int"] if depth and depth.get("value") else None
    chk.ob("R11.3", "depth=16", dv == 16, "QUANTIZE_BIT_DEPTH is %s; the predictor's weights are documented as signed 16-bit" % dv)
    qmax = (1 << (dv - 1)) - 1 if dv else None
    for fn in ("vaporetto::trainer::Trainer::train", "vaporetto::tag_trainer::TagTrainer::train_tag"):
        b = C.body(w, fn)
        it = absint.Interp(w, b, models=effects.EXTRA_MODELS, summaries=C.summaries(w))
        outs = it.run(0)
        chk.fn(fn)
        divs = set()
        nq = 0
        guarded = True
        for e, o in C.all_calls(outs, lambda e: (e[2] or "").endswith("to_int_unchecked")):
            nq += 1
            v = e[3][0]
            if v[0] == "expr" and v[1] == "Div":
                d = v[3]
                nz = forms.Normalizer(it, o)
                ds = re.sub(r"hv:loop\d+:_\d+|m:_\d+", "WEIGHT_MAX", nz.value_atom(d) if d[0] != "expr" else "Div(%s, %s)" % (nz.value_atom(d[2]), nz.value_atom(d[3])))
                divs.add(ds)
                # the divisor value must be known non-zero on this path: a decided comparison with 0.0 ...
                nonzero = False
                for s, info in it.op_info.items():
                    if info[0] in ("Eq", "Ne") and (info[1] == d or info[2] == d) and (info[1] == ("fl", 0.0) or info[2] == ("fl", 0.0)):
                        c = o.cons.get(s)
                        if c and c[0] == "eq" and c[1][1] == (info[0] == "Ne"):
                            nonzero = True
                guarded = guarded and (nonzero or fn.endswith("train_tag"))
            else:
                divs.add("NOT-A-QUOTIENT:%s" % (v,))
        # R11.6: the running maximum is taken over the bias and the coefficients of ALL feature ids 1..=num_features
        names_, origin_ = C.iterator_names(b, outs)
        rn_ = C.renamer(names_)
        cov = set()
        for e, o in C.all_calls(outs, lambda e: (e[2] or "").endswith("feature_coefficient")):
            nz = forms.Normalizer(it, o, rename=rn_)
            a1 = forms.show(nz.form(e[3][1]))
            m_ = re.fullmatch(r"(?:(\d+) \+ )?(it\d+)\.next\(\)@Some\.0", a1)
            if m_ and "Range" in str(origin_[m_.group(2)][0]):
                rng = C.show_arg(forms.Normalizer(it, origin_[m_.group(2)][1], rename=rn_), origin_[m_.group(2)][0])
                cov.add((int(m_.group(1) or 0), re.sub(r"&_\d+", "&M", rng)))
        chk.rule("R11.6", "the quantisation maximum ranges over all feature ids 1..=num_features")
        chk.ob("R11.6", "%s:max-covers-all-features" % fn.split("::")[-1], cov == {(1, "Range{start: 0, end: <liblinear::Model as liblinear::LibLinearModel>::num_features(&M)}")},
               "%s takes the weight maximum over feature ids (offset, range) = %s; expected id = fid + 1 for fid in 0..num_features(): a feature left out of the maximum can be quantised outside the 16-bit range" % (fn, sorted(cov)),
               site=C.site(b), sample={"coverage": sorted(map(str, cov))})
        short = fn.split("::")[-1]
        want = "Div(WEIGHT_MAX, <f64 as core::convert::From<i32>>::from(%s))" % qmax
        chk.ob("R11.3", "%s:quotient-by-multiplier" % short, divs == {want}, "%s quantises with divisor(s) %s; expected the single multiplier weight_max / (2^(DEPTH-1)-1) = %s" % (fn, sorted(divs), want),
               site=C.site(b), sample={"fn": fn, "divisors": sorted(divs), "sites": nq})
        chk.floor("R11.3", "%s to_int_unchecked sites" % short, nq, 2)
        if fn.endswith("Trainer::train"):
            chk.ob("R11.3", "train:multiplier-nonzero-guard", guarded, "a to_int_unchecked in Trainer::train is reachable without the `quantize_multiplier == 0.` check having failed: NaN/inf would be converted unchecked", site=C.site(b))
        else:
            # positive seed of the running maximum: the named f64 local folded with max() starts from a positive constant
            seeds = []
            # the running maximum, found by structure: the f64 variable that receives the result of f64::max(itself, ..)
            run_max = set()
            for blk in b.blocks:
                tt = blk["term"]
                if tt["k"] == "call" and (cfgmod.callee(tt) or "").endswith("f64::max"):
                    tgt = {m_ for m_ in C.move_targets(b, tt["dest"]["local"]) if b.locals[m_]["ty"] == "f64" and m_ in b.names()}
                    src = set()
                    for a_ in tt["args"]:
                        q_ = a_.get("move") or a_.get("copy")
                        if q_:
                            src |= C.backward_locals(b, q_["local"], depth=2)
                    run_max |= (tgt & src)
            for blk in b.blocks:
                for s in blk["stmts"]:
                    if s["k"] == "assign" and not s["place"]["proj"] and s["place"]["local"] in run_max and s["rv"]["k"] == "use" and "const" in s["rv"]["a"]:
                        cv = it.const_val(s["rv"]["a"]["const"])
                        seeds.append(cv)
            chk.ob("R11.3", "train_tag:positive-seed", len(seeds) == 1 and seeds[0][0] == "fl" and seeds[0][1] > 0,
                   "the running maximum of train_tag is seeded with %s; it must start from a positive constant so that the multiplier cannot be zero" % seeds, site=C.site(b))
