"""C04 - Partial-annotation format round-trips."""
from .. import facts, absint, cfg as cfgmod, effects
from . import common as C, fmt

EXPLANATION = (
    "R04.1 (E8a+FDAI): the special characters of parse_partial_annotation in annotation context (derived by abstract "
    "interpretation over (is_char, escape, c): characters that, unescaped, are never consumed as tag content) must all be "
    "escaped with the parser's escape character by every tag-emitting site of write_partial_annotation_text. "
    "R04.2: the writer's label->symbol map (both copies) and the parser's symbol->label map are inverse bijections on "
    "{WordBoundary, NotWordBoundary, Unknown}. R04.3: the text-character position is literal on both sides."
)
THOROUGH_CONFIGS = [C.MINIMAL, C.NO_TAG]
QUICK_CONFIGS = [C.NO_TAG, C.MINIMAL]
NOT_DECIDED = ["equality after re-parse as a value"]

WP = C.S + "::write_partial_annotation_text"


def run(chk):
    w = C.world_for(chk)
    from . import ctors as _acc
    _acc.accessors(chk, w, only=["vaporetto::sentence::"])
    # tokens, their tags and both writers slice the flat tag vector with n_tags: every function that changes the tags or the tag
    # count must leave tags.len() == n_tags * len() (shared with C05; which VALUES the slots hold after an update is C05/C08's subject)
    from . import c05 as _c05
    chk.rule("R05.3", "tags length form == n_tags form * len() at every exit of a function that changes either (shared with C05)")
    _c05.r053(chk, w)
    chk.rule("R04.1", "annotation-context specials of the parser are escaped by every tag-emitting site of the writer")
    chk.rule("R04.2", "label<->symbol tables are inverse bijections and both writer copies agree")
    chk.rule("R04.3", "text characters are literal in parser and writer")
    chk.rule("R04.4", "one tag marker per tag slot (absent slots keep an empty placeholder)")
    parser = C.find_parser(w, C.S + "::update_partial_annotation")
    chk.fn(parser, WP)
    pt, it, outs, H = fmt.parser_table(w, parser)
    # annotation context only: is_char == false
    ann = {cc: [r for r in recs if r["bools"].get("is_char", (None,))[0] is False] for cc, recs in pt.raw.items()}
    pt_ann = fmt.ParserTable()
    pt_ann.raw = {cc: rs for cc, rs in ann.items() if rs}
    specials, esc, labels = fmt.classify_parser(pt_ann)
    P = {x for x in specials if x != 0}
    chk.floor("R04.1", "parser cases", pt.cases, 10)
    chk.ob("R04.1", "parser:specials", len(P) >= 5 and all(x < 0x80 for x in P), "annotation-context special characters: %s" % sorted(map(chr, P)), site=C.site(pt.body),
           sample={"specials": sorted(map(chr, P)), "effects": {chr(k): sorted(v) for k, v in specials.items() if k}})
    chk.ob("R04.1", "parser:one-escape-char", len(esc) == 1, "escape characters: %s" % sorted(map(chr, esc)), site=C.site(pt.body))
    esc_paths = [r for cc, recs in pt_ann.raw.items() for r in recs if r["bools"].get("escape", (None,))[0] is True]
    chk.ob("R04.1", "parser:escaped-is-content", bool(esc_paths) and all(r["pushes_c"] == 1 or (r["kind"] == "return" and r["ret"] == "Err") for r in esc_paths),
           "after the escape character the annotation parser does not consume every character as tag content", site=C.site(pt.body))

    chk.ob("R04.1", "parser:escape-applies-to-one-character", bool(esc_paths) and all(r["bools"]["escape"][1] == absint.B(False) for r in esc_paths if r["kind"] == "backedge"),
           "after consuming an escaped character the annotation parser can stay in the escaped state", site=C.site(pt.body))
    sites, consts = fmt.writer_sites(w, WP)
    tags = [s for s in sites if s.role == "tag"]
    chk.floor("R04.1", "tag-emitting sites", len(tags), 2)
    for k, s in enumerate(sorted(tags, key=lambda s: s.bb)):
        missing = sorted(P - s.escaped)
        chk.ob("R04.1", "writer:tag[%d]:escapes-specials" % k, not missing,
               "write_partial_annotation_text emits a tag without escaping %s (%s); the parser treats these characters as syntax, so a tag containing one of them is re-parsed as a different annotation (or rejected)"
               % ([chr(x) for x in missing], s.detail[:80]), site=C.site(s.body, s.bb), sample={"escaped": sorted(map(chr, s.escaped)), "kind": s.kind})
        if s.escaped:
            chk.ob("R04.1", "writer:tag[%d]:escape-char" % k, s.esc == esc, "tag site escapes with %s, parser's escape character is %s" % (sorted(map(chr, s.esc)), sorted(map(chr, esc))), site=C.site(s.body, s.bb))
    sep_tag = {x for x, sig in specials.items() if "starts-tag" in sig}
    # ---- tag slots: one marker per slot up to the last present tag, whether the slot is present or absent
    marker = list(sep_tag)[0] if len(sep_tag) == 1 else None
    slots = fmt.tag_slot_tables(w, WP, marker) if marker is not None else []
    chk.floor("R04.4", "tag-marker loops", len(slots), 2)
    for k, (f_, h_, ety, table) in enumerate(slots):
        per_slot = "Option<&S::option::Option<" in ety or "Option<(usize, &S::option::Option<" in ety
        okt = per_slot and table.get("Some") == {1} and table.get("None") == {1}
        chk.ob("R04.4", "writer:tag-slot-loop[%d]:marker-per-slot" % k, okt,
               "the tag loop of %s iterates over `%s` and pushes the tag marker %s times per (present, absent) slot; expected one marker for every slot (present or absent) up to the last present tag: "
               "an absent tag before a present one must leave an empty placeholder, otherwise later tags shift into earlier categories" % (f_, ety, {k_: sorted(v_) for k_, v_ in table.items()}),
               site=C.site(C.body(w, f_), h_), sample={"fn": f_, "element": ety, "table": {str(k_): sorted(v_) for k_, v_ in table.items()}})

    fmt.slot_range_rule(chk, w, "R04.4", WP, 2)
    fmt.append_only_rule(chk, w, "R04.4", WP)
    fmt.tag_flatten_rule(chk, w, "R04.4", parser)
    fmt.text_scan_rule(chk, w, "R04.1", parser)
    # ---- tag count taken after the last tag was recorded
    coll, counts, late = fmt.tag_count_order(w, parser)
    chk.ob("R04.4", "parser:tag-count-after-last-tag", coll is not None and len(counts) == 1 and not late,
           "%s: per-character tag lists in local %s, tag-count computations at %s, mutable borrows of the lists reachable after the count: %s; "
           "the slot count must be taken after the pending tag of the last character has been appended, otherwise that character can hold more tags than slots" % (parser, coll, counts, late),
           site=C.site(C.body(w, parser), late[0][1] if late else None), sample={"counts": counts, "late": late})
    # ---- R04.3
    texts = [s for s in sites if s.role == "text"]
    chk.ob("R04.3", "writer:text-literal", len(texts) >= 2 and all(s.kind == "push" for s in texts), "text characters are not pushed literally by the writer: %s" % [(s.kind, s.detail[:40]) for s in texts])
    lit = [r for cc, recs in pt.raw.items() for r in recs if r["bools"].get("is_char", (None,))[0] is True]
    oklit = bool(lit) and all((r["pushes_c"] == 1 and r["kind"] == "backedge") or (r["kind"] == "return" and r["ret"] == "Err" and r["c"] == ("eq", ("ch", 0))) for r in lit)
    noesc = all(r["bools"].get("escape", (None, None))[0] is None for r in lit)
    chk.ob("R04.3", "parser:text-literal", oklit and noesc, "at a text position the parser does not take the character literally (independent of the escape state)", site=C.site(pt.body))
    others = [s for s in sites if s.role not in ("tag", "text")]
    chk.ob("R04.1", "writer:all-sites-classified", not others, "emission sites of unknown role: %s" % [s.detail[:60] for s in others])

    # ---- R04.2 label tables
    parser_map = {}
    for x, ls in labels.items():
        if len(ls) == 1:
            parser_map[x] = list(ls)[0]
    wb = C.body(w, WP)
    wi = absint.Interp(w, wb, models=effects.EXTRA_MODELS, summaries=C.summaries(w))
    wouts = wi.run(0)
    copies = {}
    for o in wouts:
        lab = [c[2] for s, c in o.cons.items() if c[0] == "varis" and c[1] == C.CB]
        if len(lab) != 1:
            continue
        for e in o.trace:
            if e[0] == "call" and (e[2] or "").endswith("String::push") and len(e[3]) > 1:
                v = wi.resolve(o, e[3][1])
                if v[0] in ("ch", "i") and v[1] in P | {ord(" ")}:
                    if v[1] == ord("/"):
                        continue
                    copies.setdefault(e[1], {}).setdefault(lab[0], set()).add(v[1])
    # a copy of the table may live in a closure that yields the symbol (`flat_map(|(c, b)| [symbol(b), c])`): the constants of
    # its return value per label
    def _consts(v, acc, depth=0):
        if depth > 6 or not isinstance(v, tuple):
            return
        if len(v) == 2 and v[0] in ("ch", "i") and isinstance(v[1], int):
            acc.add(v[1])
            return
        for x in v:
            if isinstance(x, tuple):
                _consts(x, acc, depth + 1)
    for k_ in C.closure_keys(w, WP):
        cb_ = w.body(k_)
        if cb_ is None:
            continue
        ci_ = absint.Interp(w, cb_, models=effects.EXTRA_MODELS)
        try:
            couts_ = ci_.run(0)
        except absint.Undecided:
            continue
        for o in couts_:
            if o.kind != "return":
                continue
            lab = [c[2] for s_, c in o.cons.items() if c[0] == "varis" and c[1] == C.CB]
            if len(lab) != 1:
                continue
            acc = set()
            _consts(ci_.resolve(o, o.value_at((("L", 0),))), acc)
            # an array literal is opaque to the interpreter: the symbol chosen for the label is then the value of a local
            for k2, v2 in o.env.items():
                if len(k2) == 1 and k2[0][0] == "L" and isinstance(v2, tuple) and len(v2) == 2 and v2[0] == "ch":
                    acc.add(v2[1])
            for ch in acc & ((P | {ord(" ")}) - {ord("/")}):
                copies.setdefault(k_, {}).setdefault(lab[0], set()).add(ch)
    # group by the block that pushes: every copy must be a total injective map
    maps = []
    for bb, m in sorted(copies.items(), key=lambda kv: str(kv[0])):
        if set(m) == {"WordBoundary", "NotWordBoundary", "Unknown"} and all(len(v) == 1 for v in m.values()):
            mm = {k: list(v)[0] for k, v in m.items()}
            if len(set(mm.values())) == 1 and list(mm.values())[0] not in parser_map:
                continue   # the same constant under every label and not a boundary symbol (the escape character of a tag loop): not a label table
            maps.append((bb, mm))
    chk.floor("R04.2", "writer symbol tables", len(maps), 2)
    for k, (bb, m) in enumerate(maps):
        inv_ok = all(parser_map.get(ch) == lab for lab, ch in m.items()) and len(set(m.values())) == 3
        chk.ob("R04.2", "writer-copy[%d]:inverse-of-parser" % k, inv_ok,
               "writer maps labels to symbols %s; the parser maps symbols to labels %s: not inverse" % ({k_: chr(v) for k_, v in m.items()}, {chr(k_): v for k_, v in parser_map.items()}),
               site=C.site(wb, bb if isinstance(bb, int) else None), sample={"writer": {k_: chr(v) for k_, v in m.items()}})
    if len(maps) >= 2:
        chk.ob("R04.2", "twin(T13)", all(m == maps[0][1] for _, m in maps), "the two copies of the label->symbol table in the writer disagree", site=C.site(wb))
    chk.ob("R04.2", "parser:total", set(parser_map.values()) == {"WordBoundary", "NotWordBoundary", "Unknown"} and len(parser_map) == 3,
           "parser symbol table %s is not a bijection onto the three labels" % {chr(k_): v for k_, v in parser_map.items()}, site=C.site(pt.body))
