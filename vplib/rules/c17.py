"""C17 - KyTea model conversion preserves the word-segmentation model."""
import re

from .. import facts, absint, forms, cfg as cfgmod, effects
from . import common as C
from .c07 import error_discipline

EXPLANATION = (
    "R17.1 truncation => error (E7 + who-may-call): in kytea_model.rs and the read_* helpers every Result is propagated; "
    "the input is consumed only through read_exact (inside the helpers) except for the two EOF-tolerant calls read_line / "
    "read_until, each of which is followed on every path to a successful KyteaModel::read by at least one helper read (so a "
    "file cut inside them still fails). R17.2: the type-letter table D,R,H,T,K,O -> character type codes, 0x04 -> entry "
    "skipped, anything else -> error. R17.3 kind consistency: the character n-gram weights are cut to 2*char_w - len + 1, the "
    "type n-gram weights to 2*type_w - len + 1, and Model::new receives (char n-grams, type n-grams, dictionary, bias, "
    "char_w, type_w). R17.4 dictionary: weights are read at 3*dict_n*j + 3*(min(len,dict_n)-1) + {0,1,2} into "
    "{left, inside, right} for every dictionary j whose membership bit (in_dict >> j) & 1 is set, and written to "
    "{first, all (inside), last} of a vector of len+1 entries. R17.5: the bias is biases[0]."
)
NOT_DECIDED = ["the order and completeness of the trie walk (dump_items) beyond the key-node table", "panics on malformed but untruncated files (index out of range on char_map etc.)"]

TF = "<vaporetto::model::Model as core::convert::TryFrom<vaporetto::kytea_model::KyteaModel>>::try_from"
KREAD = "vaporetto::kytea_model::KyteaModel::read"
HELPERS = ["vaporetto::utils::read_u8", "vaporetto::utils::read_u16", "vaporetto::utils::read_i16", "vaporetto::utils::read_u32",
           "vaporetto::utils::read_i32", "vaporetto::utils::read_f64"]
IO_READ_OK = {"read_exact"}
IO_TOLERANT = {"read_line", "read_until"}


def kytea_fns(w):
    out = []
    for bd in w.all_bodies("vaporetto"):
        if bd.promoted is None and bd.span.startswith("vaporetto/src/kytea_model.rs") and "::fmt" not in bd.fn:
            out.append(bd)
    return out


def run(chk):
    w = C.world_for(chk)
    from . import ctors as _ctors2
    _ctors2.run(chk, w, only=["model::Model::new", "DictModel::new"])
    # rejecting an input means returning an error value: building it must not be able to fail (shared with C05)
    from . import c05_total as _c05t
    chk.rule("R05.4", "error constructors are straight-line conversions (shared with C05)")
    _c05t.error_ctors(chk, w)
    for rid, txt in (("R17.1", "every read error propagates; only read_exact-based reads (+2 tolerated, followed by a helper read)"), ("R17.2", "type letter table"),
                     ("R17.3", "kind consistency and slice lengths"), ("R17.4", "dictionary offsets, roles, membership, bucket"), ("R17.5", "bias = biases[0]")):
        chk.rule(rid, txt)
    r176(chk, w)
    fns = kytea_fns(w)
    readers = [bd.fn for bd in fns if bd.fn != TF and "closure" not in bd.fn and "dump_items" not in bd.fn]
    error_discipline(chk, w, "R17.1", sorted(readers) + HELPERS, 62)
    # who may read
    n_io = 0
    tolerant_sites = []
    for bd in fns + [w.body(h) for h in HELPERS]:
        for bb, t in cfgmod.calls(bd):
            c = cfgmod.callee(t) or ""
            decl = cfgmod.callee_decl(t) or ""
            if decl.startswith("std::io::Read::") or decl.startswith("std::io::BufRead::") or "std::io::Read>::" in c or "std::io::BufRead>::" in c:
                m = decl.split("::")[-1]
                n_io += 1
                if m in IO_TOLERANT:
                    tolerant_sites.append((bd, bb, m))
                    continue
                ok = m in IO_READ_OK and bd.fn in HELPERS
                chk.ob("R17.1", "io:%s:%s" % (bd.fn.split("::")[-1], m), ok,
                       "%s reads the input with `%s`: only read_exact inside the read_* helpers reports a truncated file as an error" % (bd.fn, m), site=C.site(bd, bb))
    chk.floor("R17.1", "raw I/O read sites", n_io, 8)
    # must-read summaries
    must = {}

    def mustread(fn, depth=0):
        """on every Ok path `fn` performs at least one helper read"""
        if fn in HELPERS:
            return True
        if fn in must:
            return must[fn]
        b = w.body(fn)
        if b is None or depth > 5:
            return False
        must[fn] = False
        cf = cfgmod.cfg_of(b)
        reading = {bb for bb, t in cfgmod.calls(b) if (cfgmod.callee(t) or "") in HELPERS or (w.body(cfgmod.callee(t) or "") is not None and mustread(cfgmod.callee(t), depth + 1))}
        it = absint.Interp(w, b, models=effects.EXTRA_MODELS, summaries=C.summaries(w))
        ok = True
        for o in it.run(0):
            if o.kind == "return" and effects.ret_class(o.value_at((("L", 0),))) in ("Ok", "any"):
                if not any(e[0] == "call" and e[1] in reading for e in o.trace):
                    ok = False
        must[fn] = ok
        return ok

    for bd, bb, m in tolerant_sites:
        it = absint.Interp(w, bd, models=effects.EXTRA_MODELS, summaries=C.summaries(w))
        outs = [o for o in it.run(0) if o.kind == "return" and effects.ret_class(o.value_at((("L", 0),))) == "Ok"]
        local_ok = True
        for o in outs:
            k = [i for i, e in enumerate(o.trace) if e[0] == "call" and e[1] == bb]
            if not k:
                continue
            after = o.trace[k[-1] + 1:]
            if not any(e[0] == "call" and ((e[2] or "") in HELPERS or (w.body(e[2] or "") is not None and mustread(e[2]))) for e in after):
                local_ok = False
        caller_ok = False
        if not local_ok:
            # the enclosing function returns Ok right after: every caller must read afterwards
            callers = [(cb, cbb) for cb in fns for cbb, t in cfgmod.calls(cb) if cfgmod.callee(t) == bd.fn]
            caller_ok = bool(callers)
            for cb, cbb in callers:
                ci = absint.Interp(w, cb, models=effects.EXTRA_MODELS, summaries=C.summaries(w))
                for o in ci.run(0):
                    if o.kind == "return" and effects.ret_class(o.value_at((("L", 0),))) == "Ok":
                        k = [i for i, e in enumerate(o.trace) if e[0] == "call" and e[1] == cbb]
                        if k and not any(e[0] == "call" and ((e[2] or "") in HELPERS or (w.body(e[2] or "") is not None and mustread(e[2]))) for e in o.trace[k[-1] + 1:]):
                            caller_ok = False
        chk.ob("R17.1", "tolerant:%s" % m, local_ok or caller_ok,
               "`%s` in %s accepts a file that ends inside it, and no read_exact-based read follows on every successful path: such a truncated file is converted without an error" % (m, bd.fn),
               site=C.site(bd, bb), sample={"call": m, "followed_in": "same function" if local_ok else "caller"})
    chk.floor("R17.1", "EOF-tolerant sites", len(tolerant_sites), 2)

    conversion(chk, w)


def conversion(chk, w):
    b = C.body(w, TF)
    chk.fn(TF)
    it = absint.Interp(w, b, models=effects.EXTRA_MODELS, summaries=C.summaries(w))
    it.trace_deref_stores = True
    outs = it.run(0)
    names, origin = C.iterator_names(b, outs)
    rn = C.renamer(names)
    # ---- R17.3 slices
    slices = {}
    for e, o in C.all_calls(outs, lambda e: "Index" in (e[2] or "") and len(e[3]) > 1 and e[3][1][0] == "agg" and "RangeTo" in e[3][1][1]):
        nz = forms.Normalizer(it, o, rename=rn)
        s = re.sub(r"alloc::vec::Vec::len\(&_\d+\)", "LEN", C.show_arg(nz, dict(e[3][1][2])["end"]))
        k = "char" if "char_w" in s else "type" if "type_w" in s else "?"
        slices.setdefault(k, set()).add(s)
    for kind in ("char", "type"):
        want = "1 - LEN + 2*arg1.config.%s_w" % kind
        chk.ob("R17.3", "%s:weight-slice" % kind, slices.get(kind) == {want}, "%s n-gram weights are cut to %s; expected 2*%s_w - len + 1" % (kind, sorted(slices.get(kind, [])), kind), site=C.site(b),
               sample={"kind": kind, "slice": sorted(slices.get(kind, []))})
    chk.ob("R17.3", "no-mixed-kind-slice", "?" not in slices, "a weight slice uses neither char_w nor type_w: %s" % sorted(slices.get("?", [])), site=C.site(b))
    # which dictionary feeds which slice: the loop whose slice uses char_w iterates char_dict.dump_items()
    cf = cfgmod.cfg_of(b)
    kinds_ok = True
    detail = []
    for e, o in C.all_calls(outs, lambda e: (e[2] or "").endswith("Dictionary::dump_items")):
        nz = forms.Normalizer(it, o, rename=rn)
        src = nz.value_atom(e[3][0]) if e[3][0][0] != "ref" else nz.path_atom(e[3][0][1])
        detail.append((e[1], src))
    # Model::new arguments
    mn = C.all_calls(outs, lambda e: e[2] == "vaporetto::model::Model::new")
    if len(mn) != 1:
        chk.undecided("R17.3", "Model::new", "expected one call, found %d" % len(mn), site=C.site(b))
    else:
        e, o = mn[0]
        nz = forms.Normalizer(it, o, rename=rn)
        a = e[3]
        chk.ob("R17.3", "Model::new:windows", C.show_arg(nz, a[4]) == "arg1.config.char_w" and C.show_arg(nz, a[5]) == "arg1.config.type_w",
               "Model::new receives windows (%s, %s); expected (char_w, type_w)" % (C.show_arg(nz, a[4]), C.show_arg(nz, a[5])), site=C.site(b, e[1]))
        chk.ob("R17.5", "bias=biases[0]", re.search(r"biases\.<content>\.\[0\]", nz.value_atom(a[3])) is not None or "biases" in nz.value_atom(a[3]) and "[0]" in nz.value_atom(a[3]),
               "the model bias is %s; expected feature_lookup.biases[0]" % nz.value_atom(a[3])[:120], site=C.site(b, e[1]), sample={"bias": nz.value_atom(a[3])[:120]})
        # n-gram vectors: arg0 built in the loop that slices with char_w, arg1 with type_w (by the loop-havoc tag of the vector local)
        def vec_local(v):
            m = re.search(r"hv:loop(\d+):_(\d+)", str(v))
            return (int(m.group(1)), int(m.group(2))) if m else None
        l0, l1 = vec_local(a[0]), vec_local(a[1])
        loops = cf.natural_loops()
        def loop_kind(h):
            ks = set()
            for bb in loops.get(h, ()):
                for s in b.blocks[bb]["stmts"]:
                    for pl in [s["place"]] + [s.get("rv", {}).get("place")] + [x.get("copy") or x.get("move") for x in (s.get("rv", {}).get("a"), s.get("rv", {}).get("b")) if isinstance(x, dict)]:
                        if pl:
                            for pe in pl["proj"]:
                                if isinstance(pe, dict) and pe.get("field") in ("char_w", "type_w"):
                                    ks.add(pe["field"])
            return ks
        ok = l0 is not None and l1 is not None and loop_kind(l0[0]) == {"char_w"} and loop_kind(l1[0]) == {"type_w"}
        chk.ob("R17.3", "Model::new:ngram-vectors", ok, "the n-gram vectors handed to Model::new are not (vector built with char_w, vector built with type_w): %s %s" % (l0 and loop_kind(l0[0]), l1 and loop_kind(l1[0])), site=C.site(b, e[1]))
    # the dictionaries iterated: char_dict in the char_w loop, type_dict in the type_w loop
    dumps = {}
    for bb, t in cfgmod.calls(b):
        if (cfgmod.callee(t) or "").endswith("Dictionary::dump_items"):
            a0 = t["args"][0].get("move") or t["args"][0].get("copy")
            cal, flds, _ = C.backward_slice(b, a0["local"])
            dumps[bb] = sorted(f.split(".")[-1] for f in flds if f.split(".")[-1] in ("char_dict", "type_dict", "dict"))
    chk.ob("R17.3", "dictionaries-dumped", sorted(map(tuple, dumps.values())) == [("char_dict",), ("dict",), ("type_dict",)], "dump_items is applied to %s" % sorted(dumps.values()), site=C.site(b))

    # ---- R17.2 letters (incl. skip and error arm)
    got, skip, err = {}, set(), set()
    for o in outs:
        vals = [(s, c) for s, c in o.cons.items() if c[0] == "eq" and c[1][0] in ("i", "ch") and "*{ret:" in s and "@Some.0}" in s and "IterMut" in str(forms.Normalizer(it, o).ret_info.get(s.split("{")[1].split("@")[0], ("",))[0])]
        st = [e for e in o.trace if e[0] == "store" and e[3][0] == "i" and e[2][0][0] == "S"]
        for s, c in vals:
            if st and ("*{%s}" % st[-1][2][0][1]) in s:
                got[c[1][1]] = st[-1][3][1]
            elif o.kind == "return" and effects.ret_class(o.value_at((("L", 0),))) == "Err":
                err.add(c[1][1])
            elif o.kind == "backedge" and not st:
                skip.add(c[1][1])
    discr = {v["name"]: v["discr"] for v in w.adt(C.CT)["variants"]}
    want = {ord("D"): discr["Digit"], ord("R"): discr["Roman"], ord("H"): discr["Hiragana"], ord("T"): discr["Katakana"], ord("K"): discr["Kanji"], ord("O"): discr["Other"]}
    chk.ob("R17.2", "letters", got == want, "type letters are mapped %s; expected %s" % ({chr(k): v for k, v in got.items()}, {chr(k): v for k, v in want.items()}), site=C.site(b), sample={"table": {chr(k): v for k, v in got.items()}})
    chk.ob("R17.2", "0x04-skips-entry", 4 in skip and 4 not in got, "the invalid type 0x04 is not skipped (skipped: %s)" % sorted(skip), site=C.site(b))
    other_err = any(o.kind == "return" and effects.ret_class(o.value_at((("L", 0),))) == "Err" and any(c[0] == "notin" and {("i", 68), ("i", 4)} <= set(c[1]) for c in o.cons.values()) for o in outs)
    chk.ob("R17.2", "other-is-error", other_err, "an unknown type letter does not produce an error", site=C.site(b))

    # ---- R17.4 dictionary
    idx = {}
    for e, o in C.all_calls(outs, lambda e: "Index" in (e[2] or "") and e[3][0][0] == "ref" and "dict_vec" in str(e[3][0][1]) and len(e[3]) > 1):
        nz = forms.Normalizer(it, o, rename=rn)
        s = C.show_arg(nz, e[3][1])
        s = re.sub(r"alloc::vec::Vec::len\(&_\d+\)", "LEN", s)
        s = re.sub(r"it\d+\.next\(\)@Some\.0", "j", s)
        idx[e[1]] = forms.resort(s)
    base = "3*min(LEN, arg1.config.dict_n) + 3*arg1.config.dict_n*j"
    wantidx = {"-3 + " + base, "-2 + " + base, "-1 + " + base}
    chk.ob("R17.4", "offset-forms", set(idx.values()) == wantidx, "dictionary weights are read at %s; expected 3*dict_n*j + 3*(min(len,dict_n)-1) + {0,1,2}" % sorted(idx.values()), site=C.site(b), sample={"offsets": sorted(idx.values())})
    # role: which offset feeds left / inside / right  (inner loop iteration)
    roles = {}
    loops = cf.natural_loops()
    inner = None
    for h, blks in loops.items():
        if any(bb in blks for bb in idx) and (inner is None or len(blks) < len(loops[inner])):
            inner = h
    if inner is not None:
        pre = [o for o in it.run(0, stop=[inner]) if o.kind == "stop"]
        io = it.run(inner, stop=set(cf.blocks) - loops[inner], env=pre[0].env, cons=pre[0].cons, stop_at_entry_again=True, trace=pre[0].trace)
        member = set()
        for o in io:
            if o.kind != "stop" or o.info != inner:
                continue
            nz = forms.Normalizer(it, o, rename=rn)
            reads = [e for e in o.trace[len(pre[0].trace):] if e[0] == "call" and e[1] in idx]
            for p, v in o.env.items():
                if len(p) == 2 and p[1][0] == "f" and p[1][1] in ("left", "inside", "right") and v[0] == "expr" and v[1] == "Add":
                    src = str(nz.ret_info.get(v[3][1], ("", ()))[1]) if v[3][0] == "sym" else ""
                    m = re.search(r"dict_vec\.<content>\.\[#(\d+)\]", src)
                    if m:
                        f = forms.show(nz.form(it.index_vals[int(m.group(1))]))
                        roles[p[1][1]] = f[:2]
            # membership test on this path
            for s_, info in it.op_info.items():
                c = o.cons.get(s_)
                if c and c[0] == "eq":
                    member.add((info[0], forms.show(nz.form(info[1])) if info[1][0] != "i" else str(info[1][1]), forms.show(nz.form(info[2])) if info[2][0] != "i" else str(info[2][1]), c[1][1], bool(reads)))
        chk.ob("R17.4", "roles", roles == {"left": "-3", "inside": "-2", "right": "-1"}, "offsets +0/+1/+2 feed %s; expected left/inside/right" % roles, site=C.site(b, inner), sample={"roles": roles})
        memok = any(m[0] == "Eq" and "BitAnd(Shr(" in m[1] and "in_dict" in m[1] and m[1].endswith(", 1)") and m[2] == "1" and m[3] is True and m[4] for m in member) and \
            not any(m[3] is False and m[4] for m in member if m[0] == "Eq")
        chk.ob("R17.4", "membership-bit", memok, "dictionary membership test derives %s; expected weights added iff (in_dict >> j) & 1 == 1" % sorted(member, key=str), site=C.site(b, inner), sample={"tests": sorted(map(str, member))})
    else:
        chk.undecided("R17.4", "roles", "dictionary loop not found", site=C.site(b))
    stores = {}
    for o in outs:
        nz = forms.Normalizer(it, o, rename=rn)
        for e in o.trace:
            if e[0] == "store" and e[2][-1][0] == "f" and e[2][-1][1] in ("[first]", "[last]"):
                stores[e[2][-1][1]] = nz.value_atom(e[3]).split(".")[-1]
    fe = C.all_calls(outs, lambda e: (e[2] or "").endswith("from_elem"))
    fill = set()
    for e, o in fe:
        nz = forms.Normalizer(it, o, rename=rn)
        fill.add((nz.value_atom(e[3][0]).split(".")[-1], re.sub(r"alloc::vec::Vec::len\(&_\d+\)", "LEN", C.show_arg(nz, e[3][1]))))
    chk.ob("R17.4", "record-layout", stores == {"[first]": "left", "[last]": "right"} and fill == {("inside", "1 + LEN")},
           "dictionary records are built as first<-%s last<-%s fill %s; expected first<-left, last<-right, len+1 entries of inside" % (stores.get("[first]"), stores.get("[last]"), sorted(fill)), site=C.site(b),
           sample={"stores": stores, "fill": sorted(fill)})


def r176(chk, w):
    """the walk over a KyTea trie lists exactly its keys: a node contributes an item iff it is marked as a key (is_branch);
    inner nodes also carry output lists (inherited through failure links), so the output list cannot stand in for the mark.
    The item is the node's own entry, entries[outputs[0]]."""
    chk.rule("R17.6", "dump_items lists exactly the key nodes of the trie, each with its own entry")
    fn = "vaporetto::kytea_model::Dictionary::dump_items"
    b = w.body(fn)
    if b is None:
        chk.undecided("R17.6", "dump_items", "%s not found" % fn)
        return
    chk.fn(fn)
    cf = cfgmod.cfg_of(b)
    loops = cf.natural_loops()
    it = absint.Interp(w, b, models=effects.EXTRA_MODELS, summaries=C.summaries(w))
    heads = [h for h in loops if b.blocks[h]["term"]["k"] == "call" and (cfgmod.callee(b.blocks[h]["term"]) or "").endswith("Vec::pop")]
    if len(heads) != 1:
        chk.undecided("R17.6", "dump_items:loop", "expected one work-list loop (Vec::pop) in dump_items, found %d" % len(heads), site=C.site(b))
        return
    h = heads[0]
    pre = [o for o in it.run(0, stop=[h]) if o.kind == "stop"]
    rows = set()
    if pre:
        n0 = len(pre[0].trace)
        for o in it.run(h, stop=set(cf.blocks) - loops[h], env=pre[0].env, cons=pre[0].cons, stop_at_entry_again=True, trace=pre[0].trace):
            item = o.cons.get("ret:%d" % h)
            if not item or item[2] != "Some":
                continue
            mark = "?"
            for s, c in o.cons.items():
                if s.endswith(".is_branch") and "states" in s and c[0] == "eq" and c[1][0] == "b":
                    mark = "key" if c[1][1] else "inner"
            nz = forms.Normalizer(it, o)
            res = []
            for e in o.trace[n0:]:
                if e[0] == "call" and (e[2] or "").endswith("Vec::push") and len(e[3]) > 1 and e[3][1][0] == "agg" and e[3][1][1] == "tuple":
                    second = dict(e[3][1][2]).get("1")
                    if second and second[0] == "ref" and second[1][:2] == (("A", 1), ("f", "entries")):
                        res.append(re.sub(r"ret:\d+", "ret:N", nz.path_atom(second[1]))[-70:])
            rows.add((mark, tuple(res)))
    okrows = {r for r in rows if r[0] in ("key", "inner")}
    good = bool(rows) and rows == okrows and all((len(r[1]) == 1 and r[1][0].endswith("outputs.<content>.[0]]")) if r[0] == "key" else r[1] == () for r in rows) \
        and {r[0] for r in rows} == {"key", "inner"}
    chk.ob("R17.6", "dump_items:keys-only", good,
           "dump_items derives (node mark, items pushed) = %s; expected one item entries[outputs[0]] for a node whose is_branch mark is set and none otherwise" % sorted(rows),
           site=C.site(b, h), sample={"rows": sorted(map(str, rows))})
