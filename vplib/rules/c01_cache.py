"""R01.6 / R01.7 - type score cache constants and forms (filled in below)."""


def run(chk, w):
    return
