"""R01.6 / R01.7 - type score cache: alphabet constants and window forms."""
import re

from .. import facts, absint, effects, forms, cfg as cfgmod
from . import common as C

M = "vaporetto::type_scorer::boundary_scorer_cache::TypeScorerBoundaryCache"
K = "vaporetto::type_scorer::boundary_scorer_cache::"


def cval(w, name):
    c = w.const(name)
    return c["value"]["int"] if c and c.get("value") and "int" in c["value"] else None


def run(chk, w):
    if w.body(M + "::new") is None:
        chk.ob("R01.6", "cache-module", True, "cache-type-score is not part of this configuration", nontrivial=False)
        return
    size, mask, shift = cval(w, K + "ALPHABET_SIZE"), cval(w, K + "ALPHABET_MASK"), cval(w, K + "ALPHABET_SHIFT")
    maxw = cval(w, "vaporetto::type_scorer::CACHE_MAX_WINDOW_SIZE")
    ok = None not in (size, mask, shift, maxw)
    chk.ob("R01.6", "constants-found", ok, "cache constants not found: size=%s mask=%s shift=%s max_window=%s" % (size, mask, shift, maxw))
    if ok:
        chk.ob("R01.6", "size=1<<shift", size == 1 << shift, "ALPHABET_SIZE=%d is not 1 << ALPHABET_SHIFT (%d)" % (size, shift), sample={"size": size, "shift": shift, "mask": mask, "max_window": maxw})
        chk.ob("R01.6", "mask=size-1", mask == size - 1, "ALPHABET_MASK=%d is not ALPHABET_SIZE-1" % mask)
        discr = {v["name"]: v["discr"] for v in w.adt(C.CT)["variants"]}
        bad = {k: v for k, v in discr.items() if not (1 <= v <= mask - 1)}
        chk.ob("R01.6", "type-codes-fit-alphabet", not bad, "character type codes %s do not fit the cache alphabet 1..%d (0 = no character, %d = invalid marker)" % (bad, mask - 1, mask), sample={"codes": discr})
        chk.ob("R01.6", "table-index-fits-32-bit", shift * 2 * maxw < 32, "ALPHABET_SHIFT*2*CACHE_MAX_WINDOW_SIZE = %d bits does not fit a 32-bit usize" % (shift * 2 * maxw))
    # ---- R01.7 forms
    b, it, outs = C.run_fn(w, M + "::new")
    chk.fn(M + "::new")
    names, origin = C.iterator_names(b, outs)
    rn = C.renamer(names)
    seen = {}
    for e, o in C.all_calls(outs):
        nz = forms.Normalizer(it, o, rename=rn)
        nm = (e[2] or "").split("::")[-1]
        if nm in ("pow", "from_elem", "get", "find_overlapping_iter", "find_overlapping_no_suffix_iter", "find_iter", "leftmost_find_iter"):
            seen.setdefault(nm, set()).add(tuple(C.show_arg(nz, a) for a in e[3]))
    fe = {x[1] for x in seen.get("from_elem", ())}
    chk.ob("R01.7", "table-size", ("pow(%d, 2*arg2)" % size) in fe if ok else False, "score table sizes %s; expected ALPHABET_SIZE^(2*window)" % sorted(fe), site=C.site(b), sample={"from_elem": sorted(fe)})
    gets = {x[1] for x in seen.get("get", ())}
    chk.ob("R01.7", "weight-lookup", any(re.fullmatch(r"2\*arg2 - daachorse::Match::end\(&_\d+\)", g) for g in gets), "weights are looked up at %s; expected 2*window - m.end()" % sorted(gets), site=C.site(b), sample={"get": sorted(gets)})
    chk.ob("R01.7", "all-matches-iterator", "find_overlapping_iter" in seen and not ({"find_overlapping_no_suffix_iter", "find_iter", "leftmost_find_iter"} & set(seen)),
           "the cache table is not filled from the all-matches iterator on unmerged weights: %s" % sorted(seen), site=C.site(b))
    masks = set()
    for o in outs:
        if o.kind == "return":
            v = o.value_at((("L", 0),))
            if v[0] == "var" and v[2] == "Ok" and v[3] and v[3][0][0] == "agg":
                nz = forms.Normalizer(it, o, rename=rn)
                d = dict(v[3][0][2])
                masks.add((C.show_arg(nz, d.get("sequence_mask")), C.show_arg(nz, d.get("window_size"))))
    chk.ob("R01.7", "sequence-mask", masks == {("-1 + (1<<%d*arg2)" % (2 * shift), "arg2")} if ok else False, "sequence_mask/window_size stored as %s; expected ((1 << (SHIFT*2*window)) - 1, window)" % sorted(masks), site=C.site(b), sample={"mask": sorted(masks)})
    # the rolling window id, derived from add_scores itself (the small helpers increment_seqid / increment_seqid_without_char /
    # get_score are always spliced into it, see inline.FORCE_INLINE, so it does not matter whether they exist as functions):
    # per iteration  id' = ((id << SHIFT) | type) & mask  when a character type is available,  (id << SHIFT) & mask  otherwise,
    # and the table is read at the NEW id
    ba0 = C.body(w, M + "::add_scores")
    cfa = cfgmod.cfg_of(ba0)
    la = cfa.natural_loops()
    ia0 = absint.Interp(w, ba0, models=effects.EXTRA_MODELS, summaries=C.summaries(w))
    steps = {}
    reads = set()
    for h in sorted(la):
        pre0 = [o for o in ia0.run(0, stop=[h]) if o.kind == "stop"]
        if not pre0:
            continue
        n0 = len(pre0[0].trace)
        for o in ia0.run(h, stop=set(cfa.blocks) - la[h], env=pre0[0].env, cons=pre0[0].cons, stop_at_entry_again=True, trace=pre0[0].trace, invariant=True):
            if o.kind != "stop" or o.info != h:
                continue
            nz = forms.Normalizer(ia0, o)
            got = [e for e in o.trace[n0:] if e[0] == "call" and (e[2] or "").endswith("[T]::get")]
            avail = None
            for e in got:
                c = o.cons.get("ret:%d" % e[1])
                avail = c[2] if c and c[0] == "varis" else avail
            for l in sorted(ia0._loop_assigned_locals(h)):
                if l in ba0.names() and ba0.locals[l]["ty"] == "usize" and C.loop_carried(ba0, cfa, h, l):
                    v = o.value_at((("L", l),))
                    if v[0] == "expr":
                        f = forms.show(nz.form(v))
                        f = re.sub(r"hv:loop\d+:_%d\b" % l, "ID", f)
                        f = re.sub(r"\*\{\[T\]::get\(&arg2\.char_types\.<content>, .*\)@Some\.0\}", "TYPE", f)
                        steps.setdefault(avail, set()).add(f)
                        for e in o.trace[n0:]:
                            if e[0] == "call" and "Index<" in (e[2] or "") and len(e[3]) > 1 and "scores" in str(e[3][0]):
                                g = re.sub(r"hv:loop\d+:_%d\b" % l, "ID", forms.show(nz.form(e[3][1])))
                                g = re.sub(r"\*\{\[T\]::get\(&arg2\.char_types\.<content>, .*\)@Some\.0\}", "TYPE", g)
                                reads.add((avail, g == f))
    want_steps = {"Some": {"BitAnd(BitOr(Shl(ID, %s), TYPE), arg1.sequence_mask)" % shift}, "None": {"BitAnd(Shl(ID, %s), arg1.sequence_mask)" % shift}}
    chk.ob("R01.7", "increment_seqid", steps.get("Some") == want_steps["Some"] if ok else False,
           "with a character type available the window id becomes %s; expected %s" % (sorted(steps.get("Some", [])), sorted(want_steps["Some"])), site=C.site(ba0), sample={"form": sorted(steps.get("Some", []))})
    chk.ob("R01.7", "increment_seqid_without_char", steps.get("None") == want_steps["None"] if ok else False,
           "past the end of the sentence the window id becomes %s; expected %s" % (sorted(steps.get("None", [])), sorted(want_steps["None"])), site=C.site(ba0), sample={"form": sorted(steps.get("None", []))})
    chk.ob("R01.7", "table-read-at-new-id", reads == {("Some", True), ("None", True)},
           "the score table is read at (character available, index == new window id) = %s; expected the new id in both cases" % sorted(reads, key=str), site=C.site(ba0))
    # the table is complete: seqid_to_seq rejects an index only when one of its symbols is the invalid marker (ALPHABET_MASK);
    # every other index - including windows padded on both sides, which occur for texts shorter than the window - gets its score
    fs = M + "::seqid_to_seq"
    if w.body(fs) is not None:
        bs_, is_, os_ = C.run_fn(w, fs)
        chk.fn(fs)
        rows_ = set()
        for o in os_:
            if o.kind != "return":
                continue
            v = o.value_at((("L", 0),))
            inval = any(c == ("eq", absint.I(mask)) for s, c in o.cons.items() if s.startswith("ret:") or s.startswith("m:"))
            rows_.add((v[1] if v[0] == "b" else "value depends on %s" % (v,), inval))
        chk.ob("R01.7", "table-complete(seqid_to_seq)", rows_ == {(False, True), (True, False)} if ok else False,
               "seqid_to_seq returns (value, a symbol equals the invalid marker %s) = %s; expected false exactly when a symbol is the invalid marker: "
               "any other rejected window id keeps score 0 in the table although add_scores can reach it" % (mask, sorted(rows_, key=str)), site=C.site(bs_), sample={"rows": sorted(map(str, rows_))})
    else:
        chk.undecided("R01.7", "table-complete(seqid_to_seq)", "%s not found (inlined or renamed with a changed signature?)" % fs)
    # add_scores: preload 0..W, lookup char_types[i + W], add get_score(seqid) to every boundary score
    ba, ia, oa = C.run_fn(w, M + "::add_scores")
    chk.fn(M + "::add_scores")
    names, origin = C.iterator_names(ba, oa)
    rn = C.renamer(names)
    pre, look, rng = set(), set(), set()
    for e, o in C.all_calls(oa):
        nz = forms.Normalizer(ia, o, rename=rn)
        nm = (e[2] or "").split("::")[-1]
        if nm == "into_iter" and e[3][0][0] == "agg":
            pre.add(C.show_arg(nz, e[3][0]))
        if nm == "get" and "char_types" in C.show_arg(nz, e[3][0]):
            look.add(C.show_arg(nz, e[3][1]))
        if "IndexMut" in (e[2] or "") and e[3][1][0] == "agg":
            rng.add(C.show_arg(nz, e[3][1]))
    chk.ob("R01.7", "preload-range", pre == {"Range{start: 0, end: arg1.window_size}"}, "the cache pre-loads %s; expected the first `window` character types" % sorted(pre), site=C.site(ba))
    chk.ob("R01.7", "lookahead", look == {"it0.next()@Some.0", "arg1.window_size + it1.next()@Some.0.0"}, "character types are read at %s; expected j for the pre-load and i + window per boundary" % sorted(look), site=C.site(ba), sample={"reads": sorted(look)})
    chk.ob("R01.7", "score-range", rng == {"Range{start: arg2.score_padding, end: alloc::vec::Vec::len(&arg2.boundaries) + arg2.score_padding}"},
           "scores are added to boundary_scores%s; expected [padding .. padding + boundaries.len()]" % sorted(rng), site=C.site(ba))
