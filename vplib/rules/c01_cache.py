"""R01.6 / R01.7 - type score cache: alphabet constants and window forms."""
import re

from .. import facts, absint, effects, forms, cfg as cfgmod
from . import common as C

M = "vaporetto::type_scorer::boundary_scorer_cache::TypeScorerBoundaryCache"
K = "vaporetto::type_scorer::boundary_scorer_cache::"


def cval(w, name):
    c = w.const(name)
    return c["value"]["int"] if c and c.get("value") and "int" in c["value"] else None


def run(chk, w):
    if w.body(M + "::new") is None:
        chk.ob("R01.6", "cache-module", True, "cache-type-score is not part of this configuration", nontrivial=False)
        return
    size, mask, shift = cval(w, K + "ALPHABET_SIZE"), cval(w, K + "ALPHABET_MASK"), cval(w, K + "ALPHABET_SHIFT")
    maxw = cval(w, "vaporetto::type_scorer::CACHE_MAX_WINDOW_SIZE")
    ok = None not in (size, mask, shift, maxw)
    chk.ob("R01.6", "constants-found", ok, "cache constants not found: size=%s mask=%s shift=%s max_window=%s" % (size, mask, shift, maxw))
    if ok:
        chk.ob("R01.6", "size=1<<shift", size == 1 << shift, "ALPHABET_SIZE=%d is not 1 << ALPHABET_SHIFT (%d)" % (size, shift), sample={"size": size, "shift": shift, "mask": mask, "max_window": maxw})
        chk.ob("R01.6", "mask=size-1", mask == size - 1, "ALPHABET_MASK=%d is not ALPHABET_SIZE-1" % mask)
        discr = {v["name"]: v["discr"] for v in w.adt(C.CT)["variants"]}
        bad = {k: v for k, v in discr.items() if not (1 <= v <= mask - 1)}
        chk.ob("R01.6", "type-codes-fit-alphabet", not bad, "character type codes %s do not fit the cache alphabet 1..%d (0 = no character, %d = invalid marker)" % (bad, mask - 1, mask), sample={"codes": discr})
        chk.ob("R01.6", "table-index-fits-32-bit", shift * 2 * maxw < 32, "ALPHABET_SHIFT*2*CACHE_MAX_WINDOW_SIZE = %d bits does not fit a 32-bit usize" % (shift * 2 * maxw))
    # ---- R01.7 forms
    b, it, outs = C.run_fn(w, M + "::new")
    chk.fn(M + "::new")
    names, origin = C.iterator_names(b, outs)
    rn = C.renamer(names)
    seen = {}
    for e, o in C.all_calls(outs):
        nz = forms.Normalizer(it, o, rename=rn)
        nm = (e[2] or "").split("::")[-1]
        if nm in ("pow", "from_elem", "get", "find_overlapping_iter", "find_overlapping_no_suffix_iter", "find_iter", "leftmost_find_iter"):
            seen.setdefault(nm, set()).add(tuple(C.show_arg(nz, a) for a in e[3]))
    fe = {x[1] for x in seen.get("from_elem", ())}
    chk.ob("R01.7", "table-size", ("pow(%d, 2*arg2)" % size) in fe if ok else False, "score table sizes %s; expected ALPHABET_SIZE^(2*window)" % sorted(fe), site=C.site(b), sample={"from_elem": sorted(fe)})
    gets = {x[1] for x in seen.get("get", ())}
    chk.ob("R01.7", "weight-lookup", any(re.fullmatch(r"2\*arg2 - daachorse::Match::end\(&_\d+\)", g) for g in gets), "weights are looked up at %s; expected 2*window - m.end()" % sorted(gets), site=C.site(b), sample={"get": sorted(gets)})
    chk.ob("R01.7", "all-matches-iterator", "find_overlapping_iter" in seen and not ({"find_overlapping_no_suffix_iter", "find_iter", "leftmost_find_iter"} & set(seen)),
           "the cache table is not filled from the all-matches iterator on unmerged weights: %s" % sorted(seen), site=C.site(b))
    masks = set()
    for o in outs:
        if o.kind == "return":
            v = o.value_at((("L", 0),))
            if v[0] == "var" and v[2] == "Ok" and v[3] and v[3][0][0] == "agg":
                nz = forms.Normalizer(it, o, rename=rn)
                d = dict(v[3][0][2])
                masks.add((C.show_arg(nz, d.get("sequence_mask")), C.show_arg(nz, d.get("window_size"))))
    chk.ob("R01.7", "sequence-mask", masks == {("-1 + (1<<%d*arg2)" % (2 * shift), "arg2")} if ok else False, "sequence_mask/window_size stored as %s; expected ((1 << (SHIFT*2*window)) - 1, window)" % sorted(masks), site=C.site(b), sample={"mask": sorted(masks)})
    # increment functions
    for fn, want in (("increment_seqid", "BitAnd(BitOr(Shl(arg2, %s), arg3), arg1.sequence_mask)"), ("increment_seqid_without_char", "BitAnd(Shl(arg2, %s), arg1.sequence_mask)")):
        bi, ii, oi = C.run_fn(w, M + "::" + fn)
        chk.fn(M + "::" + fn)
        got = set()
        for o in oi:
            if o.kind == "return":
                got.add(forms.show(forms.Normalizer(ii, o).form(o.value_at((("L", 0),)))))
        chk.ob("R01.7", fn, got == {want % shift} if ok else False, "%s computes %s; expected %s" % (fn, sorted(got), want % shift), site=C.site(bi), sample={"form": sorted(got)})
    # add_scores: preload 0..W, lookup char_types[i + W], add get_score(seqid) to every boundary score
    ba, ia, oa = C.run_fn(w, M + "::add_scores")
    chk.fn(M + "::add_scores")
    names, origin = C.iterator_names(ba, oa)
    rn = C.renamer(names)
    pre, look, rng = set(), set(), set()
    for e, o in C.all_calls(oa):
        nz = forms.Normalizer(ia, o, rename=rn)
        nm = (e[2] or "").split("::")[-1]
        if nm == "into_iter" and e[3][0][0] == "agg":
            pre.add(C.show_arg(nz, e[3][0]))
        if nm == "get" and "char_types" in C.show_arg(nz, e[3][0]):
            look.add(C.show_arg(nz, e[3][1]))
        if "IndexMut" in (e[2] or "") and e[3][1][0] == "agg":
            rng.add(C.show_arg(nz, e[3][1]))
    chk.ob("R01.7", "preload-range", pre == {"Range{start: 0, end: arg1.window_size}"}, "the cache pre-loads %s; expected the first `window` character types" % sorted(pre), site=C.site(ba))
    chk.ob("R01.7", "lookahead", look == {"it0.next()@Some.0", "arg1.window_size + it1.next()@Some.0.0"}, "character types are read at %s; expected j for the pre-load and i + window per boundary" % sorted(look), site=C.site(ba), sample={"reads": sorted(look)})
    chk.ob("R01.7", "score-range", rng == {"Range{start: arg2.score_padding, end: alloc::vec::Vec::len(&arg2.boundaries) + arg2.score_padding}"},
           "scores are added to boundary_scores%s; expected [padding .. padding + boundaries.len()]" % sorted(rng), site=C.site(ba))
