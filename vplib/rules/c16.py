"""C16 - Normalisation keeps character positions; search tokens tile the original text."""
import re

from .. import facts, absint, forms, cfg as cfgmod, effects
from . import common as C

EXPLANATION = (
    "R16.1 (complete for its clause): the character->character table of KyteaFullwidthFilter::filter is derived from the "
    "MIR (abstract interpretation of the loop body over the switch on the character): exactly one String::push per input "
    "character, the default arm pushes the character itself, the result is built from nothing else; hence the character "
    "count is preserved; idempotence: for every entry k->v, table(v) = v; entries are single characters. "
    "R16.2 (E4/E6): VaporettoTokenizer::token_stream runs prefilter -> from_raw -> predict -> post-filters, with "
    "SplitLinebreaksFilter first among the post-filters followed by the configured ones in order; boundary byte "
    "positions are taken from the ORIGINAL text's char_indices (first skipped) zipped with the normalised sentence's "
    "boundaries, where the label is WordBoundary, and end with text.len(); advance(): offset_from := previous offset_to, "
    "offset_to := boundary_pos[position], text = self.text[from..to], position += 1. R16.3 (E8a): the letter tables of "
    "tantivy, predict, evaluate and the KyTea converter agree: {D,R,H,T,K,O} -> the six character types (injective, total), "
    "G -> grapheme filter. R16.4: unwrap of from_raw guarded only by non-emptiness. R16.5: every site that copies "
    "boundaries/tags from a normalised sentence onto the original does boundaries copy, reset_tags(n_tags), tags clone in "
    "that order (twins T11)."
)
NOT_DECIDED = ["that predicted boundaries are linguistically right", "tantivy internals"]

NORM = "<vaporetto_rules::string_filters::kytea_fullwidth::KyteaFullwidthFilter as vaporetto_rules::StringFilter<S>>::filter"
TS = "<vaporetto_tantivy::VaporettoTokenizer as tantivy_tokenizer_api::Tokenizer>::token_stream"
ADV = "<vaporetto_tantivy::VaporettoTokenStream as tantivy_tokenizer_api::TokenStream>::advance"
LETTERS = {"D": "Digit", "R": "Roman", "H": "Hiragana", "T": "Katakana", "K": "Kanji", "O": "Other"}


def run(chk):
    w = C.world_for(chk)
    from . import ctors as _acc
    _acc.accessors(chk, w, only=["vaporetto::sentence::"])
    for rid, txt in (("R16.1", "normaliser table: one push per char, default identity, idempotent"), ("R16.2", "token stream pipeline and offsets"),
                     ("R16.3", "letter tables agree across tools"), ("R16.4", "from_raw unwrap guard"), ("R16.5", "copy sites order")):
        chk.rule(rid, txt)
    normaliser(chk, w)
    token_stream(chk, w)
    # only the adapter's own table belongs to this property (predict/evaluate: C20, the KyTea converter: C17)
    with chk.only(keys=lambda k: not k.startswith("R16.3:") or k.startswith("R16.3:tantivy")):
        letters(chk, w)
    # the position-wise copy between the normalised and the original sentence is what predict / train do (C20)


def normaliser(chk, w):
    b = C.body(w, NORM)
    chk.fn(NORM)
    cf = cfgmod.cfg_of(b)
    loops = cf.natural_loops()
    if len(loops) != 1:
        chk.undecided("R16.1", "loop", "expected exactly one loop, found %d" % len(loops), site=C.site(b))
        return
    h = list(loops)[0]
    it = absint.Interp(w, b, models=effects.EXTRA_MODELS, summaries=C.summaries(w), max_paths=4000)
    pre = [o for o in it.run(0, stop=[h]) if o.kind == "stop"]
    outs = it.run(h, stop=set(cf.blocks) - loops[h], env=pre[0].env, cons=pre[0].cons, stop_at_entry_again=True, trace=pre[0].trace)
    n0 = len(pre[0].trace)
    table = {}
    default_ok = None
    bad_paths = 0
    csym = "ret:%d@Some.0" % h
    for o in outs:
        if o.kind != "stop" or o.info != h:
            continue
        item = o.cons.get("ret:%d" % h)
        if not item or item[2] != "Some":
            continue
        tr = o.trace[n0:]
        pushes = [e for e in tr if e[0] == "call" and (e[2] or "").endswith("String::push")]
        others = [e for e in tr if e[0] in ("store", "clear", "havoc") and e[2][:1] != (("L", 0),)]
        if len(pushes) != 1:
            bad_paths += 1
            continue
        v = pushes[0][3][1]
        cc = o.cons.get(csym)
        if cc and cc[0] == "eq":
            table[cc[1][1]] = v[1] if v[0] in ("ch", "i") else None
        else:
            default_ok = (v == absint.SYM(csym))
    chk.floor("R16.1", "table entries", len(table), 96)
    chk.ob("R16.1", "one-push-per-char", bad_paths == 0, "%d path(s) of the normaliser loop push zero or several characters for one input character: the character count changes" % bad_paths, site=C.site(b, h))
    chk.ob("R16.1", "default-identity", default_ok is True, "characters outside the table are not pushed unchanged", site=C.site(b, h))
    non_id = {k: v for k, v in table.items() if v != k}
    notidem = sorted((chr(k), chr(v)) for k, v in non_id.items() if v is not None and table.get(v, v) != v)
    chk.ob("R16.1", "idempotent", not notidem and all(v is not None for v in table.values()),
           "normaliser is not idempotent: %s are mapped again by the table" % notidem, site=C.site(b), sample={"entries": len(table), "first": [(chr(k), chr(v)) for k, v in sorted(non_id.items())[:5]]})
    # the result string starts empty and is only pushed to
    news = [e for e in pre[0].trace if e[0] == "call" and (e[2] or "").endswith("String::new")]
    rets = [o for o in it.run(0) if o.kind == "return"]
    chk.ob("R16.1", "result-built-by-pushes-only", len(news) == 1 and bool(rets), "the result is not a fresh String filled by the per-character pushes", site=C.site(b))
    # source iterates the input's chars()
    src = [e for e in pre[0].trace if e[0] == "call" and (e[2] or "").endswith("str::chars")]
    chk.ob("R16.1", "iterates-input-chars", len(src) == 1, "the normaliser does not iterate over the input's chars()", site=C.site(b))


def token_stream(chk, w):
    b = C.body(w, TS)
    chk.fn(TS)
    it = absint.Interp(w, b, models=effects.EXTRA_MODELS, summaries=C.summaries(w))
    outs = it.run(0)
    rets = [o for o in outs if o.kind == "return"]
    # pipeline order on the non-empty path
    order_ok = False
    unwrap_guard = None
    for o in rets:
        ev = [e for e in o.trace if e[0] == "call"]
        names = [(e[2] or "").split("::")[-1] for e in ev]
        if "predict" not in names:
            continue
        want = ["filter", "from_raw", "predict", "for_each", "char_indices"]
        idx = []
        for x in want:
            idx.append(names.index(x) if x in names else -1)
        order_ok = all(i >= 0 for i in idx) and idx == sorted(idx)
        # from_raw argument is the prefiltered text; char_indices on the ORIGINAL text (arg2)
        fr = [e for e in ev if (e[2] or "").endswith("Sentence::from_raw")][0]
        nz = forms.Normalizer(it, o)
        chk.ob("R16.2", "from_raw(prefiltered)", "StringFilter" in nz.value_atom(fr[3][0]) or "filter(" in nz.value_atom(fr[3][0]), "from_raw is not applied to the prefiltered text: %s" % nz.value_atom(fr[3][0])[:100], site=C.site(b, fr[1]))
        ci = [e for e in ev if (e[2] or "").endswith("str::char_indices")][0]
        chk.ob("R16.2", "offsets-from-original-text", ci[3][0] == absint.SYM("arg2") or ci[3][0] == ("ref", (("A", 2),)), "byte offsets are taken from %s; they must come from the original (un-normalised) text" % (ci[3][0],), site=C.site(b, ci[1]),
               sample={"char_indices_of": str(ci[3][0])})
        # one sentence: the sentence that is predicted (built from the prefiltered text) is the one the post-filters work on
        # and the one whose boundaries are turned into positions
        def _root(v):
            return v[1][:1] if v and v[0] == "ref" else None
        s_pred = {_root(e[3][1]) for e in ev if e[2] == C.P + "::predict"}
        s_filt = set()
        for e in ev:
            if (e[2] or "").endswith("::for_each") and len(e[3]) > 1 and e[3][1][0] == "agg" and str(e[3][1][1]).startswith("closure:"):
                s_filt |= {_root(f[1]) for f in e[3][1][2]}
        s_bnd = {_root(e[3][0]) for e in ev if e[2] == C.S + "::boundaries"}
        fr_dests = {b.blocks[e[1]]["term"]["dest"]["local"] for e in ev if (e[2] or "").endswith("Sentence::from_raw")}
        dest_unwrap = {r for r in s_pred if r and r[0][0] == "L" and (fr_dests & C.backward_locals(b, r[0][1]))}
        chk.ob("R16.2", "one-sentence", len(s_pred) == 1 and s_pred == s_filt == s_bnd and None not in s_pred and s_pred <= dest_unwrap and len(fr_dests) == 1,
               "token_stream predicts on %s, applies the post-filters to %s and reads the boundaries of %s (sentences created at %s); all three must be the sentence built from the "
               "prefiltered text, otherwise the filters decide on character types the predictor never saw" % (sorted(map(str, s_pred)), sorted(map(str, s_filt)), sorted(map(str, s_bnd)), sorted(map(str, dest_unwrap))),
               site=C.site(b), sample={"predict": str(s_pred), "filters": str(s_filt), "boundaries": str(s_bnd)})
        # first char index skipped once before the zip
        nx = [k for k, e in enumerate(ev) if "CharIndices" in (e[2] or "") and (e[2] or "").endswith("::next")]
        zp = [k for k, e in enumerate(ev) if (e[2] or "").endswith("::zip")]
        # ... or `char_indices().skip(1)` feeding the zip
        sk = [k for k, e in enumerate(ev) if (e[2] or "").endswith("Iterator::skip") and len(e[3]) > 1 and e[3][1] == absint.I(1)
              and "char_indices" in nz.value_atom(e[3][0])]
        skipped = (len(nx) == 1 and not sk) or (len(sk) == 1 and not nx)
        first = nx[0] if nx else sk[0] if sk else None
        chk.ob("R16.2", "first-index-skipped", skipped and bool(zp) and first is not None and first < zp[0], "the first character index is not skipped exactly once before zipping with the boundaries", site=C.site(b))
        # final push text.len()
        pushes = [e for e in o.trace if e[0] == "call" and (e[2] or "").endswith("Vec::push")]
        lastp = pushes[-1] if pushes else None
        chk.ob("R16.2", "final-position=text.len()", lastp is not None and "str::len(arg2)" in nz.value_atom(lastp[3][1]) or (lastp is not None and nz.value_atom(lastp[3][1]).startswith("str::len(")),
               "the last boundary position is %s; expected text.len()" % (nz.value_atom(lastp[3][1]) if lastp else None), site=C.site(b))
        # R16.4: unwrap guarded only by non-emptiness
        uw = [e for e in ev if (e[2] or "").endswith("Result::unwrap")]
        emp = [e for e in ev if (e[2] or "").endswith("str::is_empty")]
        unwrap_guard = bool(uw) and bool(emp)
        # returned stream fields
        rv = o.value_at((("L", 0),))
        if rv[0] == "agg":
            d = dict(rv[2])
            chk.ob("R16.2", "stream-initial-state", d.get("offset_to") == absint.I(0) and d.get("position") == absint.I(0) and (d.get("text") == absint.SYM("arg2") or d.get("text") == ("ref", (("A", 2),))),
                   "the token stream does not start at offset 0 / position 0 over the original text", site=C.site(b))
    # a stream without tokens is returned for the empty text only: every other text goes through the pipeline (a whitespace-only
    # text has characters, and the tokens must tile it)
    short = [o for o in rets if not any((e[2] or "").endswith("Predictor::predict") for e in o.trace if e[0] == "call")]
    oks = []
    for o in short:
        emp = [e for e in o.trace if e[0] == "call" and (e[2] or "").endswith("str::is_empty")]
        # the emptiness test is modelled as a case split on the tested string itself: the input text (argument 2) is known empty here
        good = o.env.get((("A", 2), ("f", "<empty?>"))) == absint.B(True)
        for e in emp:
            r = it.resolve(o, absint.SYM("ret:%d" % e[1]))
            c_ = o.cons.get("ret:%d" % e[1])
            if (r == absint.B(True) or (c_ and c_[0] == "eq" and c_[1] == absint.B(True))) and e[3][0] in (absint.SYM("arg2"), ("ref", (("A", 2),))):
                good = True
        oks.append(good)
    chk.ob("R16.2", "token_stream:early-exit-only-for-empty-text", bool(short) and all(oks) if short else True,
           "token_stream can return a stream without running the pipeline on a path that is not guarded by `text.is_empty()` on the input text itself (%d such path(s)): "
           "a non-empty text would produce no tokens" % sum(1 for x in oks if not x), site=C.site(b))
    chk.ob("R16.2", "pipeline-order", order_ok, "token_stream does not run prefilter, from_raw, predict, post-filters, offsets in this order", site=C.site(b))
    # boundary loop: push i iff label == WordBoundary
    cf = cfgmod.cfg_of(b)
    loops = cf.natural_loops()
    rows = set()
    for h in loops:
        pre = [o for o in it.run(0, stop=[h]) if o.kind == "stop"]
        if not pre:
            continue
        outs2 = it.run(h, stop=set(cf.blocks) - loops[h], env=pre[0].env, cons=pre[0].cons, stop_at_entry_again=True, trace=pre[0].trace)
        n0 = len(pre[0].trace)
        for o in outs2:
            if o.kind != "stop" or o.info != h:
                continue
            lab = [c[2] for s, c in o.cons.items() if c[0] == "varis" and c[1] == C.CB]
            tr = o.trace[n0:]
            ps = [e for e in tr if e[0] == "call" and (e[2] or "").endswith("Vec::push")]
            nz = forms.Normalizer(it, o)
            for l in lab:
                rows.add((l, tuple(nz.value_atom(e[3][1]).split("@")[-1] for e in ps)))
    want = {("WordBoundary", ("Some.0.0.0",)), ("NotWordBoundary", ()), ("Unknown", ())}
    chk.ob("R16.2", "boundary-positions-table", rows == want, "boundary position loop derives %s; expected a push of the character's byte index exactly for WordBoundary" % sorted(rows), site=C.site(b), sample={"rows": sorted(map(str, rows))})
    # R16.4 known finding shape
    chk.ob("R16.4", "token_stream:from_raw-unwrap", not unwrap_guard,
           "token_stream unwraps Sentence::from_raw guarded only by text.is_empty(): a text containing NUL (\"a\\0b\") is rejected by from_raw and the tokenizer panics", site=C.site(b))
    # post filter construction order
    bp = C.body(w, "vaporetto_tantivy::build_post_filters")
    chk.fn(bp.fn)
    ip = absint.Interp(w, bp, models=effects.EXTRA_MODELS, summaries=C.summaries(w))
    pouts = ip.run(0)
    first_ok = False
    for o in pouts:
        # the initial vec![..] contains exactly the line-break filter (a boxed array of one Arc)
        pass
    # structural: the first Arc::new in block order wraps SplitLinebreaksFilter and precedes the loop
    cfp = cfgmod.cfg_of(bp)
    lp = cfp.natural_loops()
    arcs = [(bb, t) for bb, t in cfgmod.calls(bp) if (cfgmod.callee(t) or "").endswith("Arc::new") or "Arc<T>>::new" in (cfgmod.callee(t) or "")]
    inloop = set().union(*lp.values()) if lp else set()
    pre_arcs = [(bb, t) for bb, t in arcs if bb not in inloop]
    def arc_ty(t):
        return t["callee"].get("generic", "")
    headers = list(lp)
    first_ok = len(pre_arcs) == 1 and "SplitLinebreaksFilter" in arc_ty(pre_arcs[0][1]) and bool(headers) and all(cfp.dominates(pre_arcs[0][0], h) for h in headers)
    chk.ob("R16.2", "linebreak-filter-first", first_ok, "the post-filter list does not start with exactly SplitLinebreaksFilter before the configured filters: %s" % [arc_ty(t) for _, t in pre_arcs], site=C.site(bp))
    pushes_in_loop = [bb for bb, t in cfgmod.calls(bp) if (cfgmod.callee(t) or "").endswith("Vec::push") and bb in inloop]
    chk.ob("R16.2", "configured-filters-appended-in-order", len(pushes_in_loop) == 1, "configured filters are not appended one per wsconst character", site=C.site(bp))
    # advance()
    ba = C.body(w, ADV)
    chk.fn(ADV)
    ia = absint.Interp(w, ba, models=effects.EXTRA_MODELS, summaries=C.summaries(w))
    aouts = [o for o in ia.run(0) if o.kind == "return"]
    good = False
    for o in aouts:
        rv = o.value_at((("L", 0),))
        if rv != absint.B(True):
            continue
        nz = forms.Normalizer(ia, o)
        st = {absint.pstr(e[2]): e[3] for e in o.trace if e[0] == "store"}
        f_from = st.get("arg1.token.offset_from")
        f_to = st.get("arg1.offset_to")
        f_tto = st.get("arg1.token.offset_to")
        f_pos = st.get("arg1.position")
        f_tpos = st.get("arg1.token.position")
        ok = f_from == absint.SYM("m:arg1.offset_to") and f_to is not None and "boundary_pos" in nz.value_atom(f_to) and ("[m:arg1.position]" in nz.value_atom(f_to)
                                                          or re.search(r"::get\(&arg1\.boundary_pos(\.<content>)?, (m:)?arg1\.position\)@Some\.0", nz.value_atom(f_to)) is not None) \
            and f_tto == f_to and f_pos is not None and forms.show(nz.form(f_pos)) == "1 + arg1.position" and f_tpos == absint.SYM("m:arg1.position")
        slices = [C.show_arg(nz, e[3][1]) for e in o.trace if e[0] == "call" and "Index" in (e[2] or "") and len(e[3]) > 1 and e[3][1][0] == "agg" and "Range" in e[3][1][1]]
        ok = ok and len(slices) == 1 and slices[0].startswith("Range{start: arg1.offset_to, end: ")
        good = good or ok
        chk.ob("R16.2", "advance:forms", ok, "advance() stores offset_from=%s offset_to=%s position=%s text slice %s; expected from := old offset_to, to := boundary_pos[position], text[from..to], position += 1"
               % (f_from, nz.value_atom(f_to) if f_to else None, forms.show(nz.form(f_pos)) if f_pos else None, slices), site=C.site(ba), sample={"slices": slices})
    chk.ob("R16.2", "advance:found", good, "no advancing path found in advance()", site=C.site(ba))


def letter_table_from_str(w, fn, crate):
    """WsConst::from_str: str -> Ok(variant) table by abstract interpretation"""
    b = w.body(fn, crate=crate)
    if b is None:
        raise C.AnchorLost("%s in crate %s" % (fn, crate))
    it = absint.Interp(w, b, models=effects.EXTRA_MODELS)
    table = {}
    for o in it.run(0):
        if o.kind != "return":
            continue
        key = None
        for s, c in o.cons.items():
            if c[0] == "eq" and c[1][0] == "s":
                key = c[1][1]
        rv = o.value_at((("L", 0),))
        if rv[0] == "var" and rv[2] == "Ok":
            v = rv[3][0]
            if v[0] == "var":
                val = v[2] if not v[3] else "%s(%s)" % (v[2], v[3][0][2] if v[3][0][0] == "var" else "?")
            else:
                val = "?"
            table[key] = val
        else:
            table.setdefault(key, "Err")
    return b, table


def letters(chk, w):
    want = {k: "CharType(%s)" % v for k, v in LETTERS.items()}
    want["G"] = "GraphemeCluster"
    for crate in ("predict", "evaluate"):
        fn = "<%s::WsConst as core::str::traits::FromStr>::from_str" % crate
        b, table = letter_table_from_str(w, fn, crate)
        chk.fn(fn)
        got = {k: v for k, v in table.items() if k is not None and v != "Err"}
        chk.ob("R16.3", "%s:letters" % crate, got == want and table.get(None) == "Err", "%s maps wsconst letters %s; expected %s and an error otherwise" % (crate, got, want), site=C.site(b), sample={"table": got})
    # tantivy: char -> filter constructed
    bp = C.body(w, "vaporetto_tantivy::build_post_filters")
    ip = absint.Interp(w, bp, models=effects.EXTRA_MODELS, summaries=C.summaries(w))
    cf = cfgmod.cfg_of(bp)
    lp = cf.natural_loops()
    got = {}
    for h in lp:
        pre = [o for o in ip.run(0, stop=[h]) if o.kind == "stop"]
        if not pre:
            continue
        outs = ip.run(h, env=pre[0].env, cons=pre[0].cons, stop_at_entry_again=True, trace=pre[0].trace)
        n0 = len(pre[0].trace)
        for o in outs:
            key = None
            for s, c in o.cons.items():
                if c[0] == "eq" and c[1][0] in ("ch", "i") and "@Some.0" in s:
                    key = chr(c[1][1])
            tr = o.trace[n0:]
            news = [e for e in tr if e[0] == "call" and (e[2] or "").endswith("KyteaWsConstFilter::new")]
            arcs = [e for e in tr if e[0] == "call" and ((e[2] or "").endswith("Arc::new") or "Arc<T>>::new" in (e[2] or ""))]
            if o.kind == "return":
                got.setdefault(key, "Err")
            elif news:
                v = news[0][3][0]
                got[key] = "CharType(%s)" % (v[2] if v[0] == "var" else "?")
            elif arcs and key is not None:
                t = bp.blocks[arcs[0][1]]["term"]
                got[key] = "GraphemeCluster" if "ConcatGraphemeClustersFilter" in t["callee"].get("generic", "") else "?"
    gl = {k: v for k, v in got.items() if k is not None and v != "Err"}
    chk.ob("R16.3", "tantivy:letters", gl == want and got.get(None) == "Err", "tantivy maps wsconst letters %s; expected %s and an error otherwise" % (gl, want), site=C.site(bp), sample={"table": gl})
    # KyTea converter: byte -> CharacterType as u8
    fn = "<vaporetto::model::Model as core::convert::TryFrom<vaporetto::kytea_model::KyteaModel>>::try_from"
    b = C.body(w, fn)
    chk.fn(fn)
    discr = {v["name"]: v["discr"] for v in w.adt(C.CT)["variants"]}
    it = absint.Interp(w, b, models=effects.EXTRA_MODELS, summaries=C.summaries(w))
    it.trace_deref_stores = True
    got = {}
    for o in it.run(0):
        for e in o.trace:
            if e[0] == "store" and e[3][0] == "i" and e[2][0][0] == "S":
                # store through the `for t in &mut ngram` pointer: which byte value was matched on this path
                for s, c in o.cons.items():
                    if c[0] == "eq" and c[1][0] in ("i", "ch") and ("*{%s}" % e[2][0][1]) in s:
                        got[c[1][1]] = e[3][1]
    wantk = {ord(k): discr[v] for k, v in LETTERS.items()}
    chk.ob("R16.3", "kytea:letters", got == wantk, "the KyTea converter maps type letters %s; expected %s" % ({chr(k): v for k, v in got.items()}, {chr(k): v for k, v in wantk.items()}), site=C.site(b),
           sample={"table": {chr(k): v for k, v in got.items()}})
    chk.ob("R16.3", "types:injective-total", len(set(LETTERS.values())) == 6 and set(LETTERS.values()) == set(discr), "the letter table does not cover the six CharacterType variants exactly once")


def copy_sites(chk, w):
    n = 0
    for crate, fn in (("train", "train::main"), ("predict", "predict::main")):
        b = w.body(fn, crate=crate)
        if b is None:
            raise C.AnchorLost(fn)
        chk.fn(fn)
        calls = sorted((bb, cfgmod.callee(t) or "") for bb, t in cfgmod.calls(b))
        # group: each reset_tags call with the nearest preceding/following slice copies in block order
        seq = [(bb, c.split("::")[-1]) for bb, c in calls if c.split("::")[-1] in ("reset_tags", "copy_from_slice", "clone_from_slice", "boundaries_mut", "tags_mut")]
        groups = []
        cur = []
        for bb, c in seq:
            cur.append(c)
            if c in ("clone_from_slice", "copy_from_slice") and "tags_mut" in cur:
                groups.append(cur)
                cur = []
        for k, g in enumerate(groups):
            n += 1
            order = [x for x in g if x in ("boundaries_mut", "reset_tags", "tags_mut")]
            copies = [x for x in g if x.endswith("_from_slice")]
            # the boundary copy is independent of the tag bookkeeping; only "slots are (re)sized before the tags are copied" matters
            ok = sorted(order) == ["boundaries_mut", "reset_tags", "tags_mut"] and order.index("reset_tags") < order.index("tags_mut") and len(copies) == 2
            chk.ob("R16.5", "%s:copy-site[%d]" % (crate, k), ok, "%s copies annotations onto the other sentence as %s; expected boundaries copy, reset_tags(n_tags), tags clone (reset before the tags copy)" % (fn, g), site=C.site(b),
                   sample={"fn": fn, "sequence": g})
    chk.floor("R16.5", "copy sites", n, 4)
