"""C10 - Training uses exactly the annotated boundaries with the documented features."""
from .. import facts, absint, forms, cfg as cfgmod
from . import common as C

EXPLANATION = (
    "R10.1 (FDAI, complete for the example/label clause): the per-example loop of Trainer::add_example is interpreted "
    "for label in {NotWordBoundary, WordBoundary, Unknown}: an annotated boundary pushes exactly one feature vector to xs "
    "and its own discriminant to ys (paired), an Unknown boundary pushes nothing. R10.2 who-may-write: the fields xs/ys of "
    "Trainer are borrowed mutably only in add_example and moved only in train. R10.3 (E4+E8b): the n-gram feature loops of "
    "gen_features iterate n in 0..N, j in satsub(i+1,W)..satsub(min(i+1+W,len),n), emit substring (j, j+n+1) at relative "
    "position j-i-1; the character and type loops are twins after char<->type substitution; dictionary matches come from "
    "the all-matches iterator and push left/inside/right at start-1 (start != 0), start..end-1, end-1 (end != len) with "
    "length min(end-start, max_len)."
)
NOT_DECIDED = ["the exact multiset of features per boundary as a value", "liblinear's treatment of the examples"]

T = "vaporetto::trainer::Trainer"


def run(chk):
    w = C.world_for(chk)
    from . import ctors as _acc
    _acc.accessors(chk, w, only=["vaporetto::sentence::"])
    # the documented feature set is parameterised by the window / n-gram sizes exactly as given to Trainer::new (shared with C09)
    from . import c09 as _c09
    chk.rule("R09.1", "Trainer::new stores its size parameters unchanged (shared with C09)")
    _c09.r091_new(chk, w)
    chk.rule("R10.1", "label filter table of add_example: N -> (xs, ys:=0), W -> (xs, ys:=1), Unknown -> no example")
    chk.rule("R10.2", "xs/ys written only by add_example, consumed only by train")
    chk.rule("R10.3", "feature loop forms, char/type twins, dictionary feature positions and guards")
    r101(chk, w)
    r102(chk, w)
    r103(chk, w)


def r101(chk, w):
    fn = T + "::add_example"
    b = C.body(w, fn)
    chk.fn(fn)
    cf = cfgmod.cfg_of(b)
    loops = cf.natural_loops()
    # the example loop = the outermost loop containing a push on field ys
    it = absint.Interp(w, b, summaries=C.summaries(w))
    outs = it.run(0)
    ys_p, xs_p = C.fpath(1, "ys"), C.fpath(1, "xs")
    push_bbs = {e[1] for o in outs for e in o.trace if e[0] == "push" and e[2] in (ys_p, xs_p)}
    cand = [(h, blks) for h, blks in loops.items() if push_bbs and push_bbs <= blks]
    if not cand:
        # after a repair the pushes may be absent on some paths but must exist somewhere
        chk.undecided("R10.1", "loop", "no loop pushing to Trainer.xs/ys found in add_example", site=C.site(b))
        return
    h = max(cand, key=lambda x: len(x[1]))[0]
    pre = [o for o in it.run(0, stop=[h]) if o.kind == "stop"]
    if not pre:
        chk.undecided("R10.1", "preheader", "example loop not reachable", site=C.site(b))
        return
    body_outs = it.run(h, env=pre[0].env, cons=pre[0].cons, stop_at_entry_again=True, trace=pre[0].trace)
    table = {}
    for o in body_outs:
        if o.kind != "stop" or o.info != h:
            continue
        label = None
        for sname, c in o.cons.items():
            if c[0] == "varis" and c[1] == C.CB:
                label = c[2]
        tr = o.trace[len(pre[0].trace):]
        ys = [e for e in tr if e[0] == "push" and e[2] == ys_p]
        xs = [e for e in tr if e[0] == "push" and e[2] == xs_p]
        nz = forms.Normalizer(it, o)
        yv = tuple(forms.show(nz.form(e[3])) for e in ys)
        labels = [label] if label else [v["name"] for v in w.adt(C.CB)["variants"]]
        for lb in labels:
            table.setdefault(lb, set()).add((len(xs), yv))
    discr = {v["name"]: v["discr"] for v in w.adt(C.CB)["variants"]}
    for lb, want_push in (("NotWordBoundary", True), ("WordBoundary", True), ("Unknown", False)):
        got = table.get(lb)
        if want_push:
            want = {(1, ("%d" % discr[lb],))}
            # value is f64::from(<discriminant>) - transparent From
            ok = got == want
            msg = "an annotated %s boundary must add exactly one example labelled %d (its discriminant); derived (xs pushes, ys values) = %s" % (lb, discr[lb], sorted(got) if got else None)
        else:
            # no completed iteration with an Unknown label at all (the element is filtered out before the loop body) is the
            # same guarantee: every completing path has its label decided (an undecided label is entered under all labels)
            ok = got == {(0, ())} or (got is None and bool(table.get("NotWordBoundary")) and bool(table.get("WordBoundary")))
            msg = ("an unannotated (Unknown) boundary must contribute no example; derived (xs pushes, ys values) = %s "
                   "-- unknown boundaries are handed to the learner as a third class" % (sorted(got) if got else None))
        chk.ob("R10.1", "label(%s)" % lb, ok, msg, site=C.site(b), sample={"label": lb, "derived": [list(map(str, g)) for g in (got or [])]})
    chk.floor("R10.1", "labels", len(table), 2)
    # ---- R10.4 feature values count occurrences: value(feature) := value(feature) + 1 starting from 0
    it2 = absint.Interp(w, b, models=C.effects.EXTRA_MODELS, summaries=C.summaries(w))
    it2.trace_deref_stores = True
    acc = set()
    for o in it2.run(0):
        nz = forms.Normalizer(it2, o)
        for e in o.trace:
            if e[0] == "store" and e[2][0][0] == "S" and e[3][0] == "expr":
                root = e[2][0][1]
                info = nz.ret_info.get(root)
                if not info or not (info[0] or "").endswith("Entry::or_insert"):
                    continue
                ent = nz.ret_info.get(info[1][0][1]) if info[1][0][0] == "sym" else None
                target = ent[1][0] if ent else None
                if target is None or target[0] != "ref" or target[1][0][0] != "L":
                    continue   # the map of feature ids lives in self; the per-example vector is a local
                v = e[3]
                acc.add((v[1], v[2][0] == "sym" and v[2][1].endswith("*{%s}" % root), v[3], info[1][1]))
    chk.rule("R10.4", "the per-example feature vector counts occurrences: value += 1 starting from 0")
    chk.ob("R10.4", "feature-count-accumulates", acc == {("Add", True, ("fl", 1.0), ("fl", 0.0))},
           "the per-example feature value is updated as %s; expected `*entry(feature_id).or_insert(0.0) += 1.0` (two dictionary words touching the same boundary in the same role and length bucket are two feature occurrences)" % sorted(acc, key=str),
           site=C.site(b), sample={"update": sorted(map(str, acc))})
    # the tag trainer must still see every sentence
    tt = [e for o in outs if o.kind == "return" for e in o.trace if e[0] == "call" and e[2] == "vaporetto::tag_trainer::TagTrainer::add_example"]
    rets = [o for o in outs if o.kind == "return"]
    chk.ob("R10.1", "tag-trainer-called", bool(rets) and len(tt) == len(rets), "add_example does not hand the sentence to the tag trainer on every path", site=C.site(b))


def r102(chk, w):
    writers, movers = {}, {}
    for bd in w.all_bodies("vaporetto"):
        if bd.promoted is not None:
            continue
        for blk in bd.blocks:
            if blk["cleanup"]:
                continue
            for s in blk["stmts"]:
                if s["k"] != "assign":
                    continue
                rv = s["rv"]
                def is_xy(pl):
                    pr = pl["proj"]
                    return any(isinstance(e, dict) and e.get("of") == T and e.get("field") in ("xs", "ys") for e in pr)
                if rv["k"] == "ref" and rv["mut"] and is_xy(rv["place"]):
                    writers.setdefault(bd.fn, 0); writers[bd.fn] += 1
                if rv["k"] == "use" and "move" in rv["a"] and is_xy(rv["a"]["move"]):
                    movers.setdefault(bd.fn, 0); movers[bd.fn] += 1
                if is_xy(s["place"]):
                    writers.setdefault(bd.fn, 0); writers[bd.fn] += 1
            t = blk["term"]
            if t["k"] == "call":
                for a in t["args"]:
                    if "move" in a and any(isinstance(e, dict) and e.get("of") == T and e.get("field") in ("xs", "ys") for e in a["move"]["proj"]):
                        movers.setdefault(bd.fn, 0); movers[bd.fn] += 1
    okw = set(writers) <= {T + "::add_example"}
    chk.ob("R10.2", "writers", okw and bool(writers), "Trainer.xs/ys are borrowed mutably/assigned in %s; only add_example may add examples" % sorted(writers), sample={"writers": sorted(writers)})
    okm = set(movers) <= {T + "::train"} and bool(movers)
    chk.ob("R10.2", "consumers", okm, "Trainer.xs/ys are moved out in %s; only train may consume them" % sorted(movers), sample={"movers": sorted(movers)})


def r103(chk, w):
    fn = T + "::gen_features"
    b, it, outs = C.run_fn(w, fn)
    chk.fn(fn)
    names, origin = C.iterator_names(b, outs)
    rn = C.renamer(names)

    def forms_of(e, o, extra=None):
        nz = forms.Normalizer(it, o, rename=(lambda s: extra(rn(s))) if extra else rn)
        return [C.show_arg(nz, a) for a in e[3]]

    def sub(s, a, bb):
        for x, y in zip(a, bb):
            s = s.replace(x, "\0" + y)
        return s.replace("\0", "")

    feats = {}
    for kind, ctor in (("char", "char_ngram"), ("type", "type_ngram")):
        cs = C.all_calls(outs, lambda e: e[2] == "vaporetto::trainer::BoundaryFeature::" + ctor)
        if len(cs) != 1:
            chk.undecided("R10.3", "%s:ctor" % kind, "expected one call of BoundaryFeature::%s, found %d" % (ctor, len(cs)), site=C.site(b))
            continue
        e, o = cs[0]
        relpos = forms_of(e, o)[1]
        # iterators used: the j iterator is the one in relpos with coefficient +1; i is `it0`
        import re
        its = re.findall(r"it\d+", relpos)
        j_it = [x for x in its if x != "it0"]
        if "it0" not in its or len(j_it) != 1:
            chk.undecided("R10.3", "%s:relpos" % kind, "relative position form %s does not mention the boundary index and one position iterator" % relpos, site=C.site(b, e[1]))
            continue
        j = j_it[0]
        jr, jo = origin[j]
        nzj = forms.Normalizer(it, jo)
        jrange = rn(C.show_arg(nzj, jr))
        n_its = [x for x in re.findall(r"it\d+", jrange) if x not in ("it0", j)]
        n = n_its[0] if n_its else "it?"
        nr = origin.get(n)
        nrange = rn(C.show_arg(forms.Normalizer(it, nr[1]), nr[0])) if nr else "?"
        # the n-gram content
        if kind == "char":
            cc = C.all_calls(outs, lambda e: e[2] == C.S + "::text_substring")
            content = forms_of(*cc[0])[1:] if len(cc) == 1 else ["?"]
            content = "(%s, %s)" % tuple(content) if len(content) == 2 else "?"
        else:
            cc = [x for x in C.all_calls(outs, lambda e: e[2] and "Index" in e[2] and len(e[3]) > 1 and e[3][1][0] == "agg" and "Range" in e[3][1][1])
                  if "char_types" in str(forms.Normalizer(it, x[1]).path_atom(x[0][3][0][1]))]
            content = forms_of(*cc[0])[1] if len(cc) == 1 else "?"
            content = content.replace("Range{start: ", "(").replace(", end: ", ", ").rstrip("}") + ")" if content != "?" else "?"
        W = "arg1.%s_window_size" % kind
        N = "arg1.%s_ngram_size" % kind
        I, J, NN = "it0.next()@Some.0.0", "%s.next()@Some.0" % j, "%s.next()@Some.0" % n
        d = {"relpos": relpos, "jrange": jrange, "nrange": nrange, "content": content}
        feats[kind] = (d, (j, n))
        canon = lambda s: sub(s, [I, J, NN, W, N, C.S + "::len(&arg2)"], ["i", "j", "n", "W", "N", "len"])
        dd = {k: forms.resort(canon(v)) for k, v in d.items()}
        spec = {
            "relpos": "-1 - i + j",
            "jrange": "Range{start: satsub(1 + i, W), end: satsub(min(1 + i + W, len), n)}",
            "nrange": "Range{start: 0, end: N}",
            "content": "(j, 1 + n + j)",
        }
        for k in spec:
            chk.ob("R10.3", "%s:%s" % (kind, k), dd[k] == spec[k],
                   "%s n-gram feature loop: %s is `%s`, specification `%s` (i boundary index, j start, n size-1, W window, N n-gram size)" % (kind, k, dd[k], spec[k]),
                   site=C.site(b, e[1]), sample={"kind": kind, "what": k, "derived": dd[k]})
    if "char" in feats and "type" in feats:
        (dc, (jc, nc)), (dt, (jt, nt)) = feats["char"], feats["type"]
        for k in ("relpos", "jrange", "nrange"):
            a = forms.resort(dc[k].replace(jc, "J").replace(nc, "N").replace("char_", "K_"))
            bq = forms.resort(dt[k].replace(jt, "J").replace(nt, "N").replace("type_", "K_"))
            chk.ob("R10.3", "twin(T1):%s" % k, a == bq, "character and character-type feature loops disagree after char<->type substitution: %s vs %s" % (a, bq), site=C.site(b))
    # ---- dictionary features
    dm = C.all_calls(outs, lambda e: e[2] and e[2].startswith("daachorse::") and "::find" in e[2])
    chk.ob("R10.3", "dict:all-matches", len(dm) == 1 and dm[0][0][2].endswith("find_overlapping_iter"),
           "dictionary features are not generated from the all-matches iterator (find_overlapping_iter): %s" % [x[0][2] for x in dm], site=C.site(b))
    ST = C.S + "::str_to_char_pos(&arg2, daachorse::Match::start(&M))"
    EN = C.S + "::str_to_char_pos(&arg2, daachorse::Match::end(&M))"
    import re

    def canon_m(s):
        s = re.sub(r"daachorse::Match::(start|end)\(&[^)]*\)", lambda m: "daachorse::Match::%s(&M)" % m.group(1), s)
        return s.replace(ST, "start").replace(EN, "end").replace("arg1.dict_word_max_len", "max_len").replace(C.S + "::len(&arg2)", "len")
    want_len = "min(end - start, max_len)"
    n_d = 0
    for pos, ctor, widx, guard in (("left", "dict_word_left", "-1 + start", ("start", 0)),
                                   ("inside", "dict_word_inside", "Range{start: start, end: -1 + end}", None),
                                   ("right", "dict_word_right", "-1 + end", ("end", "len"))):
        cs = C.all_calls(outs, lambda e: e[2] == "vaporetto::trainer::BoundaryFeature::" + ctor)
        if not cs:
            chk.undecided("R10.3", "dict:%s" % pos, "no call of BoundaryFeature::%s" % ctor, site=C.site(b))
            continue
        for e, o in cs:
            n_d += 1
            nz = forms.Normalizer(it, o)
            ln = forms.resort(canon_m(rn(C.show_arg(nz, e[3][0]))))
            chk.ob("R10.3", "dict:%s:length" % pos, ln == want_len, "dictionary %s feature length is `%s`, specification `%s`" % (pos, ln, want_len), site=C.site(b, e[1]),
                   sample={"pos": pos, "length": ln})
            # the index_mut on `examples` (arg3) that precedes this constructor on the path
            k = max(i for i, x in enumerate(o.trace) if x is e or (x[0] == "call" and x[1] == e[1]))
            idx = [x for x in o.trace[:k] if (x[0] == "call" and x[2] and "IndexMut" in x[2] and x[3][0][0] == "ref" and x[3][0][1][:1] == (("A", 3),))
                   or (x[0] == "index" and x[2][:1] == (("A", 3),))]
            if not idx:
                chk.undecided("R10.3", "dict:%s:index" % pos, "no examples[..] index before the feature push", site=C.site(b, e[1]))
                continue
            last = idx[-1]
            ix = canon_m(rn(C.show_arg(nz, last[3][1] if last[0] == "call" else last[3])))
            # a path on which start == 0 was established shows the constant
            ok = ix == widx or (pos == "inside" and ix.replace("start: 0", "start: start") == widx)
            chk.ob("R10.3", "dict:%s:index" % pos, ok, "dictionary %s feature is added to examples[%s], specification examples[%s]" % (pos, ix, widx), site=C.site(b, idx[-1][1]),
                   sample={"pos": pos, "index": ix})
            if guard:
                # the guard: on this path the comparison start != 0 / end != len() must have been decided
                gs = [s for s, inf in it.op_info.items() if inf[0] in ("Ne", "Eq")]
                decided = False
                for s, c in o.cons.items():
                    if guard[1] == 0 and c[0] in ("ival", "notin") and "str_to_char_pos" in forms.Normalizer(it, o).value_atom(absint.SYM(s)) and "start" in forms.Normalizer(it, o).value_atom(absint.SYM(s)):
                        decided = True
                    if s in gs and c[0] == "eq":
                        op, a_, b_ = it.op_info[s]
                        fa, fb = canon_m(rn(C.show_arg(nz, a_))), canon_m(rn(C.show_arg(nz, b_)))
                        if {fa, fb} == {guard[0], str(guard[1])}:
                            decided = True
                chk.ob("R10.3", "dict:%s:guard" % pos, decided, "the %s feature push is not guarded by `%s != %s`" % (pos, guard[0], guard[1]), site=C.site(b, e[1]))
    chk.floor("R10.3", "dictionary feature pushes", n_d, 3)
