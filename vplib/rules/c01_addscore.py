"""R01.9: PositionalWeight::add_score places a weight vector at position pos = end + offset of the padded score buffer:
   Variable vector:  pos >= 0 -> added to ys[pos ..] from its first element;
                     pos <  0 -> the first -pos elements lie in front of the buffer and are skipped: w[-pos ..] is added to ys[0 ..]
   Fixed vector:     added to ys[pos .. pos + WEIGHT_FIXED_LEN] (the padding guarantees pos >= 0 for windows that fit a Fixed vector).
Derived as a decision table over (variant, sign of pos) from the MIR of add_score."""
import re

from .. import absint, effects, forms
from . import common as C

FN = "vaporetto::predictor::PositionalWeight::add_score"


def run(chk, w):
    chk.rule("R01.9", "add_score: position of a weight vector in the score buffer, incl. vectors that start in front of it")
    b = w.body(FN)
    if b is None:
        chk.undecided("R01.9", "add_score", "%s not found" % FN)
        return
    chk.fn(FN)
    it = absint.Interp(w, b, models=effects.EXTRA_MODELS)
    wfl = w.const("vaporetto::predictor::WEIGHT_FIXED_LEN")
    n = wfl["value"]["int"] if wfl and wfl.get("value") else None
    rows = set()
    P = "arg1.offset + arg2"
    for o in it.run(0):
        if o.kind not in ("return", "backedge"):
            if o.kind == "panic" and not str(o.info).startswith("assert:"):
                rows.add(("?", "panic", str(o.info)[:40], ""))
            continue
        var = [c[2] for s, c in o.cons.items() if c[0] == "varis" and c[1].endswith("WeightVector")]
        ad = w.adt("vaporetto::predictor::WeightVector")
        if not var and ad and len(ad["variants"]) == 1:
            var = [ad["variants"][0]["name"]]
        nz = forms.Normalizer(it, o)
        sign = "?"
        for k, c in o.cons.items():
            info = it.op_info.get(k)
            if info and info[0] in ("Ge", "Lt", "Gt", "Le") and c[0] == "eq" and c[1][0] == "b":
                lhs = forms.show(nz.form(info[1]))
                rhs = info[2]
                if lhs == P and rhs == absint.I(0) and info[0] in ("Ge", "Lt"):
                    sign = ">=0" if (info[0] == "Ge") == c[1][1] else "<0"
                elif lhs == P and info[0] == "Gt" and rhs == absint.I(-1):
                    sign = ">=0" if c[1][1] else "<0"
        ys, ws = [], []
        for e in o.trace:
            if e[0] == "call" and len(e[3]) > 1 and e[3][0][0] == "ref" and e[3][1][0] == "agg":
                root = e[3][0][1][:1]
                nm = (e[2] or "").split("::")[-1]
                if nm in ("index", "index_mut", "get", "get_mut"):
                    f = C.show_arg(nz, e[3][1])
                    (ys if root == (("A", 3),) else ws).append(f)
        rows.add((var[0] if var else "?", sign, tuple(sorted(set(ys))), tuple(sorted(set(ws)))))
    want = set()
    has_fixed = any(v["name"] == "Fixed" for v in w.adt("vaporetto::predictor::WeightVector")["variants"])
    want.add(("Variable", ">=0", ("RangeFrom{start: %s}" % P,), ()))
    want.add(("Variable", "<0", (), ("RangeFrom{start: -arg1.offset - arg2}",)))
    if has_fixed and n:
        want.add(("Fixed", "?", ("Range{start: %s, end: %d + %s}" % (P, n, P),), ()))
    chk.ob("R01.9", "add_score:placement-table", rows == want,
           "add_score derives (variant, sign of pos, slice of the score buffer, slice of the weights) = %s; expected %s: a weight vector that starts in front of the buffer "
           "(window larger than the padding) must lose exactly its first -pos elements, not be shifted" % (sorted(rows, key=str), sorted(want, key=str)),
           site=C.site(b), sample={"rows": sorted(map(str, rows))})
