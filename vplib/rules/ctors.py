"""Plain-data constructors used by the anchored code must store their arguments unchanged.

The scoring, tagging, training and codec rules reason about what is done WITH weight vectors, tag lists, window sizes and
records; all of that silently assumes that the small constructors which carry those values from one component to the next do
not transform them (drop entries, clamp, reorder, trim).  Each constructor below is interpreted; its Ok / plain return value
must be the aggregate literal whose fields are exactly the listed arguments (optionally through a lossless `into()`), and it
may call nothing else."""
import re

from .. import absint, effects
from . import common as C

P = "vaporetto::predictor::"
# constructor -> {field: argument index | ("into", argument index) | ("call", callee suffix) | ("some-call", callee suffix)}
TABLE = {
    P + "TagPredictor::new": {"tags": 1, "bias": ("into", 2)},
    P + "PositionalWeight::new": {"offset": 1, "weight": 2},
    P + "PositionalWeightWithTag::with_boundary": {"weight": ("some-call", "PositionalWeight::new", (1, 2)), "tag_info": ("call", "HashMap::new")},
    "vaporetto::dict_model::DictModel::new": {"0": 1},
    "vaporetto::model::Model::new": {"0": {"char_ngram_model": 1, "type_ngram_model": 2, "dict_model": 3, "bias": 4, "char_window_size": 5,
                                           "type_window_size": 6, "tag_models": 7}},
}
PW_FROM = "<vaporetto::predictor::PositionalWeight as core::convert::From<vaporetto::predictor::PositionalWeight>>::from"
TABLE[PW_FROM] = {"offset": ("argfield", "arg1.offset"), "weight": ("into-argfield", "arg1.weight")}
ALLOWED_CALLS = ("Into<U>>::into", "From<T>>::from", "HashMap::new", "HashMap::default", "PositionalWeight::new", "::default")


def _match(it, o, v, spec, calls):
    if isinstance(spec, int):
        return v == absint.SYM("arg%d" % spec)
    if isinstance(spec, dict):
        return v[0] == "agg" and dict(v[2]).keys() == spec.keys() and all(_match(it, o, dict(v[2])[k], s, calls) for k, s in spec.items())
    kind = spec[0]
    if kind == "argfield":
        return it.resolve(o, v) == absint.SYM(spec[1])
    if kind == "into-argfield":
        v = it.resolve(o, v)
        if v[0] != "sym" or not v[1].startswith("ret:"):
            return False
        e = [c for c in calls if c[1] == int(v[1][4:])]
        return bool(e) and ("Into<" in (e[0][2] or "") or "From<" in (e[0][2] or "")) and tuple(it.resolve(o, a) for a in e[0][3]) == (absint.SYM(spec[1]),)
    if kind == "into":
        if v[0] != "sym" or not v[1].startswith("ret:"):
            return False
        bb = int(v[1][4:])
        e = [c for c in calls if c[1] == bb]
        return bool(e) and ("Into<" in (e[0][2] or "") or "From<" in (e[0][2] or "")) and e[0][3] == (absint.SYM("arg%d" % spec[1]),)
    if kind in ("call", "some-call"):
        if kind == "some-call":
            if not (v[0] == "var" and v[2] == "Some" and v[3]):
                return False
            v = v[3][0]
        if v[0] != "sym" or not v[1].startswith("ret:"):
            return False
        bb = int(v[1][4:])
        e = [c for c in calls if c[1] == bb]
        if not e or not (e[0][2] or "").endswith(spec[1]):
            return False
        if len(spec) > 2:
            return e[0][3] == tuple(absint.SYM("arg%d" % i) for i in spec[2])
        return True
    return False


def run(chk, w, only=None):
    chk.rule("R21.1", "plain-data constructors store their arguments unchanged (shared)")
    n = 0
    for fn, spec in TABLE.items():
        if only and not any(fn.endswith(x) for x in only):
            continue
        b = w.body(fn)
        if b is None:
            if chk.config == "W" and "Tag" not in fn:
                chk.undecided("R21.1", "ctor:%s" % "::".join(fn.split("::")[-2:]), "%s not found" % fn)
            continue
        chk.fn(fn)
        it = absint.Interp(w, b, models=effects.EXTRA_MODELS)
        outs = it.run(0)
        ok = bool(outs)
        why = []
        for o in outs:
            if o.kind != "return":
                ok = False
                why.append("%s %s" % (o.kind, str(o.info)[:50]))
                continue
            calls = [e for e in o.trace if e[0] == "call"]
            extra = [e[2] for e in calls if not any((e[2] or "").endswith(a) or a in (e[2] or "") for a in ALLOWED_CALLS)]
            v = o.value_at((("L", 0),))
            if v[0] == "var" and v[2] == "Ok" and v[3]:
                v = v[3][0]
            good = v[0] == "agg" and _match(it, o, v, spec, calls) and not extra
            if not good:
                ok = False
                why.append("returns %s%s" % (str(v)[:160], (" and calls %s" % extra) if extra else ""))
        n += 1
        chk.ob("R21.1", "ctor:%s" % "::".join(fn.split("::")[-2:]), ok,
               "%s does not simply store its arguments (%s): the code that uses the constructed value relies on receiving exactly what the caller passed "
               "(all entries, same order, same sizes)" % (fn, "; ".join(why)[:400]), site=C.site(b), sample={"ctor": fn})
    return n


S_ = "vaporetto::sentence::Sentence::"
T_ = "vaporetto::sentence::Token::"
D_ = "vaporetto::dict_model::WordWeightRecord::"
# accessor -> expected rendering of its return value (forms over arg1 = self, arg2.. = parameters)
ACCESSORS = {
    S_ + "as_raw_text": "&arg1.text.<content>",
    S_ + "char_types": "&arg1.char_types.<content>",
    S_ + "boundaries": "&arg1.boundaries.<content>",
    S_ + "boundaries_mut": "&arg1.boundaries.<content>",
    S_ + "tags": "&arg1.tags.<content>",
    S_ + "tags_mut": "&arg1.tags.<content>",
    S_ + "n_tags": "arg1.n_tags",
    S_ + "len": "alloc::vec::Vec::len(&arg1.char_types)",
    S_ + "str_to_char_pos": "*{[T]::get_unchecked(&arg1.str_to_char_pos.<content>, arg2)}",
    T_ + "start": "arg1.start",
    T_ + "end": "arg1.end",
    T_ + "surface": "&*{vaporetto::sentence::Sentence::text_substring(&*{m:arg1.sentence}, arg1.start, arg1.end)}",
    D_ + "get_word": "&arg1.word.<content>",
    D_ + "get_weights": "&arg1.weights.<content>",
    D_ + "get_comment": "&arg1.comment.<content>",
}


def accessors(chk, w, only=None):
    """accessors that the rules treat as names for a field: each must return exactly that field (R21.2).  A rule that reads
    `Sentence::len(&s)` as "the number of characters" is only sound while len() returns char_types.len()."""
    from .. import forms
    chk.rule("R21.2", "accessors return exactly the field (or field-derived value) the rules take them for (shared)")
    n = 0
    for fn, want in ACCESSORS.items():
        if only and not any(fn.startswith(p) for p in only):
            continue
        b = w.body(fn)
        if b is None:
            if chk.config == "W":
                chk.undecided("R21.2", "accessor:%s" % "::".join(fn.split("::")[-2:]), "%s not found" % fn)
            continue
        it = absint.Interp(w, b, models=effects.EXTRA_MODELS)
        got = set()
        for o in it.run(0):
            if o.kind != "return":
                got.add("%s %s" % (o.kind, str(o.info)[:40]))
                continue
            nz = forms.Normalizer(it, o)
            got.add(C.show_arg(nz, o.value_at((("L", 0),))))
        n += 1
        chk.ob("R21.2", "accessor:%s" % "::".join(fn.split("::")[-2:]), got == {want},
               "%s returns %s; the rules (and the callers) take it for %s" % (fn, sorted(got), want), site=C.site(b), sample={"accessor": fn, "returns": sorted(got)} if n <= 3 else None)
    # the in-memory writer behind Model::to_vec / serialize_to_vec appends exactly the bytes it is given
    fw = "<vaporetto::utils::VecWriter as bincode::enc::write::Writer>::write"
    if w.body(fw) is not None and (not only or "vaporetto::utils" in only):
        bw, iw, ow = C.run_fn(w, fw)
        rows = set()
        for o in ow:
            if o.kind != "return":
                rows.add((o.kind,))
                continue
            nz = forms.Normalizer(iw, o)
            ev = [(e[2].split("::")[-1], C.show_arg(nz, e[3][0]), C.show_arg(nz, e[3][1]) if len(e[3]) > 1 else "") for e in o.trace if e[0] == "call"]
            rows.add((effects.ret_class(o.value_at((("L", 0),))), tuple(ev)))
        chk.ob("R21.2", "accessor:VecWriter::write", rows == {("Ok", (("extend_from_slice", "&arg1.0", "&arg2"),))} or rows == {("Ok", (("extend_from_slice", "&arg1.0", "arg2"),))},
               "VecWriter::write does %s; expected exactly one extend_from_slice of the given bytes and Ok" % sorted(rows, key=str), site=C.site(bw))
    return n
