"""C18 - No input drives the unchecked code out of bounds."""
import re

from .. import facts, absint, forms, cfg as cfgmod, effects
from . import common as C
from . import c03, c06, c11, c15, c05_total

EXPLANATION = (
    "R18.2 unsafe inventory with obligations (E10): every unsafe operation of the workspace (call of an unsafe fn, "
    "outside macro expansions) is keyed by (function, callee) and must appear in the table frozen in the checker with the "
    "expected number of sites and an obligation; an operation that is not in the table (or a changed count) is reported; "
    "raw-pointer dereferences / address-of-raw are reported wherever they appear. Obligations re-derived on every run: "
    "(STRPOS) str_to_char_pos is resized to pos+1 with pos the accumulated len_utf8 of the stored characters, every "
    "char_to_str_pos entry is registered, and the offsets passed to Sentence::str_to_char_pos are Match::start/end of a "
    "daachorse iterator over the same sentence's text; (WEIGHTS) patterns and weights are pushed pairwise in one loop of new(), "
    "the automaton is built from exactly those patterns, the index is Match::value(); (STATES) state vectors are resized to "
    "len() before matching and written at E-1 (E the match end in characters), read from pos with pos in {boundary index, "
    "len()-1} (R06.3); (TAGW) token ids are the enumerate index over the tag models whose count sizes tag_weight; (WSCONST) "
    "loop 0..len-1 with reads i, i+1 and write i (R15.3); (ASMUTVEC) = R03.2; (TOINT) = R11.3; (DESER) automata are "
    "deserialised only under Predictor::deserialize_from_slice_unchecked, an unsafe fn whose callers are unsafe fns; "
    "(NONEMPTY) the first-character unwrap_unchecked relies on 'a sentence has at least one character' (R05.4); "
    "(ACCUM) accumulated-offset sites of the line-break and grapheme filters are listed as assumptions, not decided."
)
THOROUGH_CONFIGS = [C.NO_CHARWISE, C.NO_CACHE, C.NO_FIX]
QUICK_CONFIGS = [C.NO_CHARWISE, C.NO_CACHE, C.NO_FIX]
NOT_DECIDED = [
    "accumulated byte/character offsets in SplitLinebreaksFilter and ConcatGraphemeClustersFilter (numeric, induction over the loop)",
    "daachorse's contract: 1 <= end <= haystack.len() on a character boundary, value = pattern index",
    "that str_to_char_pos entries between character boundaries are never read (follows from the daachorse contract)",
]

# (function, callee) -> (sites, obligation)
TABLE = {
    ("<CharScorerBoundary as BorrowDecode>::borrow_decode", "CharwiseDoubleArrayAhoCorasick::deserialize_unchecked"): (1, "DESER"),
    ("<CharScorerBoundaryTag as BorrowDecode>::borrow_decode", "CharwiseDoubleArrayAhoCorasick::deserialize_unchecked"): (1, "DESER"),
    ("<TypeScorerBoundary as BorrowDecode>::borrow_decode", "DoubleArrayAhoCorasick::deserialize_unchecked"): (1, "DESER"),
    ("<TypeScorerBoundaryTag as BorrowDecode>::borrow_decode", "DoubleArrayAhoCorasick::deserialize_unchecked"): (1, "DESER"),
    ("VaporettoTokenizer::deserialize_unchecked", "Predictor::deserialize_from_slice_unchecked"): (1, "DESER"),
    ("CharScorer::add_tag_scores", "CharScorerBoundaryTag::add_tag_scores"): (1, "STATES"),
    ("TypeScorer::add_tag_scores", "TypeScorerBoundaryTag::add_tag_scores"): (1, "STATES"),
    ("Predictor::predict_tags", "CharScorer::add_tag_scores"): (2, "STATES"),
    ("Predictor::predict_tags", "TypeScorer::add_tag_scores"): (2, "STATES"),
    ("CharScorerBoundary::add_scores", "[T]::get_unchecked"): (1, "WEIGHTS"),
    ("CharScorerBoundary::add_scores", "Sentence::str_to_char_pos"): (1, "STRPOS"),
    ("CharScorerBoundaryTag::add_scores", "[T]::get_unchecked"): (1, "WEIGHTS"),
    ("CharScorerBoundaryTag::add_scores", "[T]::get_unchecked_mut"): (1, "STATES"),
    ("CharScorerBoundaryTag::add_scores", "Sentence::str_to_char_pos"): (1, "STRPOS"),
    ("CharScorerBoundaryTag::add_tag_scores", "[T]::get_unchecked"): (2, "TAGW+STATES"),
    ("TypeScorerBoundary::add_scores", "[T]::get_unchecked"): (1, "WEIGHTS"),
    ("TypeScorerBoundaryTag::add_scores", "[T]::get_unchecked"): (1, "WEIGHTS"),
    ("TypeScorerBoundaryTag::add_scores", "[T]::get_unchecked_mut"): (1, "STATES"),
    ("TypeScorerBoundaryTag::add_tag_scores", "[T]::get_unchecked"): (2, "TAGW+STATES"),
    ("Sentence::str_to_char_pos", "[T]::get_unchecked"): (1, "STRPOS"),
    ("Sentence::write_tokenized_text", "String::as_mut_vec"): (1, "ASMUTVEC"),
    ("TagTrainer::train_tag", "f64::to_int_unchecked"): (3, "TOINT"),
    ("Trainer::train", "f64::to_int_unchecked"): (2, "TOINT"),
    ("Trainer::gen_features", "Sentence::str_to_char_pos"): (2, "STRPOS"),
    ("<ConcatGraphemeClustersFilter as SentenceFilter>::filter", "[T]::get_unchecked_mut"): (1, "ACCUM"),
    ("<ConcatGraphemeClustersFilter as SentenceFilter>::filter", "str::get_unchecked"): (1, "ACCUM"),
    ("<KyteaWsConstFilter as SentenceFilter>::filter", "[T]::get_unchecked"): (2, "WSCONST"),
    ("<KyteaWsConstFilter as SentenceFilter>::filter", "[T]::get_unchecked_mut"): (1, "WSCONST"),
    ("<SplitLinebreaksFilter as SentenceFilter>::filter", "[T]::get_unchecked_mut"): (1, "ACCUM"),
    ("<SplitLinebreaksFilter as SentenceFilter>::filter", "Option::unwrap_unchecked"): (1, "NONEMPTY"),
    ("<SplitLinebreaksFilter as SentenceFilter>::filter", "str::get_unchecked"): (1, "ACCUM"),
}


def short_fn(fn):
    s = re.sub(r"<(?:__)?Context>", "", fn)
    m = re.match(r"<(.*) as (.*)>::(\w+)$", s)
    if m:
        return "<%s as %s>::%s" % (m.group(1).split("::")[-1], m.group(2).split("::")[-1].split("<")[0], m.group(3))
    parts = s.split("::")
    return "::".join(parts[-2:])


def short_callee(c):
    c = re.sub(r"<[^<>]*>", "", c)
    parts = c.split("::")
    return "::".join(parts[-2:]) if not c.startswith("[T]") and not c.startswith("str::") else c


def run(chk):
    w = C.world_for(chk)
    from . import ctors as _acc
    _acc.accessors(chk, w, only=["vaporetto::sentence::"])
    for rid, txt in (("R18.2", "unsafe inventory complete and every obligation re-derived"), ("R03.2", "UTF-8 validity of the as_mut_vec region (shared with C03)"),
                     ("R11.3", "to_int_unchecked guards (shared with C11)"), ("R06.3", "state vectors (shared with C06)"), ("R15.3", "wsconst ranges (shared with C15)"),
                     ("R05.4", "non-empty sentences (shared with C05)")):
        chk.rule(rid, txt)
    # restored predictors: the unchecked indexing relies on every table being read back exactly as it was written
    from . import c14
    chk.rule("R14.1", "encode/decode sequences of the hand-written codecs agree (shared with C14)")
    chk.rule("R14.2", "automaton serialize <-> deserialize_unchecked (shared with C14)")
    chk.floor("R14.1", "hand-written codec pairs", c14.pairs(chk, w), 7, other=5)
    # feature configurations of crate vaporetto alone (thorough tier): the same table, restricted to the functions that exist
    # there; without charwise-pma the character automaton is the byte-wise one
    ws = chk.config == "W"
    table = TABLE if ws else {(f, c.replace("CharwiseDoubleArrayAhoCorasick", "DoubleArrayAhoCorasick")): v for (f, c), v in TABLE.items()}
    inv = {}
    raw = []
    present = set()
    for bd in w.all_bodies():
        if bd.promoted is not None:
            continue
        present.add(short_fn(bd.fn))
        for bb, t in cfgmod.calls(bd):
            if t["callee"].get("unsafe") and not t.get("exp"):
                cal = short_callee(cfgmod.callee(t))
                if not ws:
                    cal = cal.replace("CharwiseDoubleArrayAhoCorasick", "DoubleArrayAhoCorasick")
                inv.setdefault((short_fn(bd.fn), cal), []).append((bd, bb))
    for key, sites in sorted(inv.items()):
        ent = table.get(key)
        bd, bb = sites[0]
        if ent is None:
            chk.ob("R18.2", "inventory:%s->%s" % key, False,
                   "unsafe operation `%s` in %s (%d site(s)) is not in the reviewed table: its precondition has no recorded argument" % (key[1], key[0], len(sites)), site=C.site(bd, bb))
        else:
            chk.ob("R18.2", "inventory:%s->%s" % key, len(sites) == ent[0],
                   "%s contains %d unsafe `%s` site(s), the reviewed table records %d (obligation %s)" % (key[0], len(sites), key[1], ent[0], ent[1]), site=C.site(bd, bb),
                   sample={"fn": key[0], "callee": key[1], "sites": len(sites), "obligation": ent[1]} if len(chk.samples) < 12 else None)
    missing = [k for k in table if k not in inv and (ws or k[0] in present)]
    chk.ob("R18.2", "inventory:table-entries-present", not missing, "table entries no longer found in the program (stale table / lost anchors): %s" % missing)
    chk.floor("R18.2", "unsafe operations", sum(len(v) for v in inv.values()), 40 if ws else 18)
    for bd, bb, what in raw:
        chk.ob("R18.2", "raw:%s" % short_fn(bd.fn), False, "%s in %s: not covered by any reviewed obligation" % (what, bd.fn), site=C.site(bd, bb))
    unsafe_fns = sorted(p for c in w.crates.values() for p, f in c.fns.items() if f["unsafe"])
    if ws:
        chk.ob("R18.2", "unsafe-fns", len(unsafe_fns) == 7, "unsafe fns declared in the workspace: %s (7 reviewed)" % unsafe_fns, sample={"unsafe_fns": unsafe_fns})

    ob_strpos(chk, w)
    ob_weights(chk, w)
    ob_states(chk, w)
    ob_tagw(chk, w)
    ob_deser(chk, w)
    # shared obligations
    c06.r063(chk, w)
    if not ws:
        # the remaining obligations live in code that does not depend on the scorer features (rules, trainer, writers)
        return
    c15.wsconst(chk, w)
    # to_int_unchecked: the value must be finite (non-zero divisor); the 16-bit range itself (R11.6) is not a precondition
    with chk.only(rules={"R11.3"}):
        c11.quantisation(chk, w)
    # get_unchecked(0) on the first character: sentences are never empty; panics of error constructors are not UB
    with chk.only(rules={"R05.4"}, keys=lambda k: "error-ctor" not in k):
        c05_total.run(chk, w)
    # the as_mut_vec region of the tokenized writer keeps the String valid UTF-8 (the format rules of C03 are not needed here)
    with chk.only(rules={"R03.2"}):
        c03.run(chk)
    # fill_tags runs the attached predictor's unchecked tag scoring on whatever the sentence now holds: an update that
    # replaces the text by a parsed one must drop the predictor link (the automaton states are prepared per prediction, R06.3)
    from . import c05 as _c05k
    chk.rule("R05.1", "the predictor link is dropped by every update that parses a new text (shared with C05)")
    with chk.only(rules={"R05.1"}, keys=lambda k: k.endswith(":predictor") and ("update_tokenized" in k or "update_partial_annotation" in k)):
        _c05k.kill_rules(chk, w, only_fields=("predictor",))
    chk.assumptions.append("ACCUM sites (line-break / grapheme filters): offsets are sums of len_utf8() resp. grapheme lengths of the same text; not decided statically")


def ob_strpos(chk, w):
    # (a) the three parsers size and fill str_to_char_pos
    for upd in ("update_raw", "update_tokenized", "update_partial_annotation"):
        parser = C.find_parser(w, C.S + "::" + upd)
        b = C.body(w, parser)
        it = absint.Interp(w, b, models=effects.EXTRA_MODELS, summaries=C.summaries(w))
        it.trace_deref_stores = True
        outs = it.run(0)
        chk.fn(parser)
        names = b.names()
        s2c = [i for i in range(1, b.arg_count + 1) if names.get(i) == "str_to_char_pos"]
        # structural identification: the &mut Vec<usize> parameter that is resized
        usize_params = [i for i in range(1, b.arg_count + 1) if C.tyn(b.locals[i]["ty"]) == "&mut S::vec::Vec<usize>"]
        rs = C.all_calls(outs, lambda e: e[2] == "alloc::vec::Vec::resize" and e[3][0][0] == "ref" and e[3][0][1][0] in [("A", i) for i in usize_params])
        okr = False
        form = None
        for e, o in rs:
            nz = forms.Normalizer(it, o)
            form = C.show_arg(nz, e[3][1])
            okr = re.fullmatch(r"1 \+ (hv:loop\d+:_\d+)", form) is not None and e[3][2] == absint.I(0)
        short = parser.split("::")[-1]
        chk.ob("R18.2", "STRPOS:%s:resize(pos+1)" % short, okr, "%s resizes the byte->char map to `%s`; expected pos + 1 with pos the accumulated byte length" % (parser, form), site=C.site(b), sample={"parser": short, "resize": form})
        # pos accumulates len_utf8 of exactly the characters pushed to the text / types
        cf = cfgmod.cfg_of(b)
        acc = set()
        for bb, t in cfgmod.calls(b):
            if (cfgmod.callee(t) or "").endswith("char::len_utf8"):
                acc.add(bb)
        # each len_utf8 block is in the same loop body as a push to char_types
        loops = cf.natural_loops()
        pushes = {bb for bb, t in cfgmod.calls(b) if (cfgmod.callee(t) or "").endswith("Vec::push")}
        chk.ob("R18.2", "STRPOS:%s:pos-accumulates-len_utf8" % short, len(acc) == 1 and any(acc <= blks and pushes & blks for blks in loops.values()),
               "%s does not accumulate len_utf8() of each stored character exactly once" % parser, site=C.site(b))
        # the fill loop: str_to_char_pos[pos] = i for (i, pos) in char_to_str_pos.iter().enumerate()
        st = set()
        for o in outs:
            nz = forms.Normalizer(it, o)
            for e in o.trace:
                if e[0] == "store" and e[2][0] in [("A", i) for i in usize_params] and str(e[2][-1][1]).startswith("["):
                    st.add((str(e[2][-1][1])[-12:], nz.value_atom(e[3])[-10:]))
        chk.ob("R18.2", "STRPOS:%s:fill" % short, len(st) == 1 and list(st)[0][0].endswith("@Some.0.1}]") and list(st)[0][1].endswith("@Some.0.0"),
               "%s fills the byte->char map as %s; expected map[pos] = i for (i, pos) in char_to_str_pos.iter().enumerate()" % (parser, sorted(st)), site=C.site(b))
    # (b) call sites: argument is Match::start/end of an iterator over the same sentence's text
    n = 0
    for bd in w.all_bodies("vaporetto"):
        if bd.promoted is not None:
            continue
        sites = [(bb, t) for bb, t in cfgmod.calls(bd) if cfgmod.callee(t) == C.S + "::str_to_char_pos"]
        if not sites:
            continue
        it = absint.Interp(w, bd, models=effects.EXTRA_MODELS, summaries=C.summaries(w))
        outs = it.run(0)
        chk.fn(bd.fn)
        names, origin = C.iterator_names(bd, outs)
        for e, o in C.all_calls(outs, lambda e: e[2] == C.S + "::str_to_char_pos"):
            n += 1
            nz = forms.Normalizer(it, o)
            arg = nz.value_atom(e[3][1])
            sent = e[3][0]
            m = re.fullmatch(r"daachorse::Match::(start|end)\(&_(\d+)\)", arg)
            ok = False
            hay = None
            if m:
                ml = int(m.group(2))
                # the match value comes from an iterator created by find_*_iter(pma, haystack)
                for k, (ov, oo) in origin.items():
                    nzo = forms.Normalizer(it, oo)
                    s = nzo.value_atom(ov)
                    if "find_overlapping" in s:
                        r_ = it.resolve(oo, ov)
                        info = nzo.ret_info.get(r_[1]) if r_[0] == "sym" else None
                        # the haystack argument itself: the whole text, possibly through a view (as_bytes / as_ref / deref);
                        # a sub-slice (trimmed, skipped prefix) shifts every match offset against the byte->char map
                        hay = nzo.value_atom(info[1][1]) if info and len(info[1]) > 1 else s
                txt = re.escape("&%s.text" % absint.pstr(sent[1])) if sent[0] == "ref" else None
                ok = hay is not None and txt is not None and re.fullmatch(r"(?:[^()]*::(?:as_ref|as_bytes|as_str|deref|borrow|bytes)\()*%s(?:\.<content>)?\)*" % txt, hay) is not None
            chk.ob("R18.2", "STRPOS:%s:argument" % short_fn(bd.fn), ok,
                   "%s passes `%s` to Sentence::str_to_char_pos; expected Match::start()/end() of a daachorse iterator over the same sentence's text (haystack %s)" % (bd.fn, arg, hay and hay[-60:]),
                   site=C.site(bd, e[1]), sample={"fn": bd.fn, "arg": arg})
    chk.floor("R18.2", "STRPOS call sites", n, 4)


def ob_weights(chk, w):
    from .c01 import SCORERS
    for owner, kind, _ in SCORERS:
        fn = owner + "::new"
        b = C.body(w, fn)
        cf = cfgmod.cfg_of(b)
        chk.fn(fn)
        # pushes inside one loop: one to the pattern vector, one to the weight vector; the automaton is built from the pattern vector
        loops = cf.natural_loops()
        pairs = []
        for h, blks in loops.items():
            ps = [(bb, t) for bb, t in cfgmod.calls(b) if bb in blks and (cfgmod.callee(t) or "").endswith("Vec::push")]
            inner = any(h2 != h and loops[h2] < blks for h2 in loops)
            if len(ps) == 2:
                tgt = []
                for bb, t in ps:
                    a = t["args"][0].get("move") or t["args"][0].get("copy")
                    cal, flds, par = C.backward_slice(b, a["local"], depth=2)
                    # the vector local borrowed
                    src = None
                    for blk in b.blocks:
                        for s in blk["stmts"]:
                            if s["k"] == "assign" and s["place"]["local"] == a["local"] and s["rv"]["k"] == "ref":
                                src = s["rv"]["place"]["local"]
                    tgt.append(src)
                pairs.append((h, tgt))
        built = [t for _, t in cfgmod.calls(b) if (cfgmod.callee(t) or "").startswith("daachorse::") and (cfgmod.callee(t) or "").endswith("::new")]
        okb = False
        if len(pairs) >= 1 and len(built) == 1:
            a = built[0]["args"][0].get("move") or built[0]["args"][0].get("copy")
            pat_local = None
            mt = C.move_targets(b, a["local"])
            for h, tgt in pairs:
                for v in tgt:
                    if v is not None and (a["local"] in C.move_targets(b, v)):
                        pat_local = v
                        other = [x for x in tgt if x != v]
                        # the other vector is stored in the struct's `weights` field
                        okb = len(other) == 1 and other[0] is not None
        chk.ob("R18.2", "WEIGHTS:%s:parallel-arrays" % owner.split("::")[-1], okb,
               "%s does not push one pattern and one weight per iteration of a single loop and build the automaton from exactly that pattern vector: Match::value() would not index `weights`" % fn,
               site=C.site(b), sample={"fn": fn, "paired_pushes": [(h, t) for h, t in pairs]})
        # index provenance in add_scores
        fa = owner + "::add_scores"
        ba, ita, oa = C.run_fn(w, fa)
        idx = set()
        for e, o in C.all_calls(oa, lambda e: (e[2] or "").endswith("[T]::get_unchecked")):
            nz = forms.Normalizer(ita, o)
            idx.add((nz.path_atom(absint._coll_path(e[3][0])), re.sub(r"&_\d+", "&M", forms.show(nz.form(e[3][1])))))
        chk.ob("R18.2", "WEIGHTS:%s:index=Match::value" % owner.split("::")[-1], idx == {("arg1.weights", "daachorse::Match::value(&M)")},
               "%s reads weights unchecked at %s; expected self.weights[m.value()]" % (fa, sorted(idx)), site=C.site(ba), sample={"index": sorted(idx)})


def ob_states(chk, w):
    for owner, field, kind in c06.TAGSCORERS:
        fa = owner + "::add_scores"
        ba, ita, oa = C.run_fn(w, fa)
        idx = set()
        for e, o in C.all_calls(oa, lambda e: (e[2] or "").endswith("[T]::get_unchecked_mut")):
            nz = forms.Normalizer(ita, o)
            idx.add((nz.path_atom(absint._coll_path(e[3][0])), re.sub(r"&_\d+", "&M", forms.show(nz.form(e[3][1])))))
        want = "-1 + %s::str_to_char_pos(&arg2, daachorse::Match::end(&M))" % C.S if kind == "char" else "-1 + daachorse::Match::end(&M)"
        chk.ob("R18.2", "STATES:%s:write-index" % owner.split("::")[-1], idx == {("arg2." + field, want)},
               "%s writes automaton states unchecked at %s; expected %s[E - 1] with E the match end in characters (the vector is resized to len() before, R06.3)" % (fa, sorted(idx), field), site=C.site(ba),
               sample={"index": sorted(idx)})


def ob_tagw(chk, w):
    # token ids: Predictor::new inserts (u32::try_from(i), ..) with i the enumerate index over model.tag_models, and pushes
    # one tag n-gram model per iteration to the vectors whose len() sizes tag_weight
    from . import c09 as _c09
    cl = _c09.tag_loop_body(w, C.P + "::new")
    ok = False
    detail = ""
    if cl is not None:
        ci = absint.Interp(w, cl, models=effects.EXTRA_MODELS)
        outs = ci.run(0)
        ids = set()
        pushes = 0
        for e, o in C.all_calls(outs, lambda e: (e[2] or "").endswith("HashMap::insert")):
            nz = forms.Normalizer(ci, o)
            v = e[3][2]
            if v[0] == "agg":
                ids.add(forms.show(nz.form(dict(v[2])["0"])))
        for e, o in C.all_calls(outs, lambda e: (e[2] or "").endswith("Vec::push")):
            pushes += 1
        # per path of one loop iteration: exactly one registration and two pushes (no path may skip a model:
        # the ids are enumerate indexes, so a skipped push shifts every later id past its row)
        ccf = cfgmod.cfg_of(cl)
        cloops = ccf.natural_loops()
        per_path = set()
        ins_bbs = {bb for bb, t in cfgmod.calls(cl) if (cfgmod.callee(t) or "").endswith("HashMap::insert")}
        for h in cloops:
            if not (ins_bbs & cloops[h]):
                continue
            pre_ = [o for o in ci.run(0, stop=[h]) if o.kind == "stop"]
            if not pre_:
                continue
            n0_ = len(pre_[0].trace)
            for o in ci.run(h, stop=set(ccf.blocks) - cloops[h], env=pre_[0].env, cons=pre_[0].cons, stop_at_entry_again=True, trace=pre_[0].trace):
                if o.kind == "stop" and o.info == h:
                    item = o.cons.get("ret:%d" % h)
                    if item and item[2] == "Some":
                        tr_ = o.trace[n0_:]
                        per_path.add((sum(1 for e in tr_ if e[0] == "call" and (e[2] or "").endswith("HashMap::insert")),
                                      sum(1 for e in tr_ if e[0] == "call" and (e[2] or "").endswith("Vec::push"))))
        ok = len(ids) == 1 and re.fullmatch(r"<core::iter::adapters::enumerate::Enumerate as core::iter::traits::iterator::Iterator>::next\(&_\d+\)@Some\.0\.0", list(ids)[0]) is not None and per_path == {(1, 2)}
        detail = "ids=%s (registrations, pushes) per loop path=%s" % (sorted(ids), sorted(per_path))
        chk.fn(cl.fn)
    chk.ob("R18.2", "TAGW:token-id=enumerate-index", ok, "Predictor::new does not assign token ids as the enumerate index while pushing exactly one char and one type tag model per token (%s)" % detail,
           site=C.site(cl) if cl else None, sample={"detail": detail})
    for owner, field, kind in c06.TAGSCORERS:
        fn = owner + "::new"
        b = C.body(w, fn)
        # outer dimension of tag_weight = tag_ngram_model.len()
        sized = False
        for bb, t in cfgmod.calls(b):
            if (cfgmod.callee(t) or "").endswith("from_elem"):
                a = t["args"][1].get("move") or t["args"][1].get("copy")
                if a:
                    cal, flds, par = C.backward_slice(b, a["local"], depth=3)
                    if any(c.endswith("Vec::len") for c in cal) and par and not flds:
                        sized = True
        chk.ob("R18.2", "TAGW:%s:rows=tag_models" % owner.split("::")[-1], sized, "%s does not size tag_weight by the number of tag n-gram models" % fn, site=C.site(b))
        fa = owner + "::add_tag_scores"
        ba, ita, oa = C.run_fn(w, fa)
        idx = set()
        for e, o in C.all_calls(oa, lambda e: (e[2] or "").endswith("[T]::get_unchecked") and e[3][1][0] != "agg"):
            nz = forms.Normalizer(ita, o)
            idx.add((nz.path_atom(absint._coll_path(e[3][0])), forms.show(nz.form(e[3][1]))))
        chk.ob("R18.2", "TAGW:%s:index=token_id" % owner.split("::")[-1], idx == {("arg1.tag_weight", "arg2")}, "%s reads tag weights unchecked at %s; expected tag_weight[token_id]" % (fa, sorted(idx)), site=C.site(ba))
    # predict_tags passes the id stored in the map
    fn = C.P + "::predict_tags"
    b, it, outs = C.run_fn(w, fn)
    ids = set()
    for e, o in C.all_calls(outs, lambda e: (e[2] or "").endswith("Scorer::add_tag_scores")):
        nz = forms.Normalizer(it, o)
        ids.add(re.sub(r"ret:\d+", "ret:N", nz.value_atom(e[3][1])))
    chk.ob("R18.2", "TAGW:predict_tags:passes-stored-id", len(ids) >= 1 and all("HashMap::get" in s and s.endswith("@Some.0.0") or "get(" in s for s in ids),
           "predict_tags passes %s as token id; expected the id stored with the token's tag predictor" % sorted(ids), site=C.site(b), sample={"ids": sorted(ids)[:2]})


def ob_deser(chk, w):
    # who may run a bincode decode of predictor types
    callers = {}
    for bd in w.all_bodies():
        if bd.promoted is not None:
            continue
        for bb, t in cfgmod.calls(bd):
            c = cfgmod.callee(t) or ""
            g = t["callee"].get("generic", "")
            if c.startswith("bincode::") and ("decode" in c) and any(x in g for x in ("PredictorData", "CharScorer", "TypeScorer")):
                callers.setdefault(short_fn(bd.fn), []).append(c.split("::")[-1])
    allowed = {"<PredictorData as BorrowDecode>::borrow_decode", "Predictor::deserialize_from_slice_unchecked"}
    # who-may-call: no decoder of predictor types outside the two reviewed places (a generic helper inlined into one of them hides
    # the concrete type of its own call, so only the entry point itself is required to be seen)
    chk.ob("R18.2", "DESER:decode-entry-points", set(callers) <= allowed and "Predictor::deserialize_from_slice_unchecked" in callers, "predictor types are decoded in %s; only %s may (the automaton bytes are not verified)" % (sorted(callers), sorted(allowed)), sample={"callers": callers})
    f = w.fn_item(C.P + "::deserialize_from_slice_unchecked")
    chk.ob("R18.2", "DESER:entry-is-unsafe-fn", f is not None and f["unsafe"], "Predictor::deserialize_from_slice_unchecked is not an unsafe fn")
    ucallers = []
    for bd in w.all_bodies():
        if bd.promoted is None:
            for bb, t in cfgmod.calls(bd):
                if cfgmod.callee(t) == C.P + "::deserialize_from_slice_unchecked":
                    fi = w.fn_item(bd.fn)
                    ucallers.append((bd.fn, bool(fi and fi["unsafe"])))
    chk.ob("R18.2", "DESER:callers-unsafe", all(u for _, u in ucallers), "safe functions call the unchecked deserialiser: %s" % [c for c, u in ucallers if not u], sample={"callers": ucallers})
