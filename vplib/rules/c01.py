"""C01 - Boundary scores and decisions equal the pointwise linear model."""
from .. import facts, absint, forms, cfg as cfgmod
from . import common as C

EXPLANATION = (
    "R01.1 (FDAI, complete for the decision clause): the threshold loop of Predictor::predict is interpreted for "
    "score in {<0,=0,>0}; exactly one CharacterBoundary constant is stored per boundary, WordBoundary iff score>0, "
    "never Unknown; the score flows only into comparisons. R01.2 (E4): score_padding = WEIGHT_FIXED_LEN-1; "
    "boundary_scores is cleared then resized to 2*padding+len()-1 filled with the model bias; the loop zips the whole "
    "boundaries vector with boundary_scores[padding..]; the accessor slices [padding .. padding+boundaries.len()]. "
    "R01.3 (E6): between resize and threshold loop the char/type scorer's add_scores is called exactly once iff the "
    "respective Option is Some; the enum dispatchers forward every variant to the payload's add_scores. "
    "R01.4 (E8a): a scorer that matches with find_overlapping_no_suffix_iter builds its weights from *WeightMerger::merge(); "
    "one that uses find_overlapping_iter uses unmerged weights; no other daachorse iterator is used. "
    "R01.5 (E4+E8b): every add_score call passes E+score_padding-1 with E the match end in characters "
    "(str_to_char_pos(m.end()) for characters, m.end() for types) and the n-gram offset is -window, the dictionary offset "
    "-chars().count(). R01.6: cache alphabet constants and CharacterType discriminants fit the 3-bit alphabet; "
    "R01.7: cache table size/mask/index forms."
)
THOROUGH_CONFIGS = [C.NO_CHARWISE, C.NO_CACHE, C.NO_FIX, C.NO_TAG, C.MINIMAL, C.SIMD]
QUICK_CONFIGS = [C.NO_CACHE, C.NO_CHARWISE, C.NO_FIX, C.NO_TAG, C.MINIMAL]
NOT_DECIDED = [
    "merged weight arithmetic (merge, add_assign) and the add_score inner loops (fixed/variable/negative positions)",
    "content of the 8^(2W) cache table and of str_to_char_pos", "daachorse match semantics",
]

PRED = C.P + "::predict"
WFL = "vaporetto::predictor::WEIGHT_FIXED_LEN"


def sign_of(c):
    """constraint -> subset of {'neg','zero','pos'}"""
    if c is None:
        return {"neg", "zero", "pos"}
    if c[0] == "eq" and c[1][0] == "i":
        n = c[1][1]
        return {"neg"} if n < 0 else {"zero"} if n == 0 else {"pos"}
    if c[0] == "ival":
        lo, hi = c[1], c[2]
        out = set()
        if lo is None or lo < 0:
            out.add("neg")
        if (lo is None or lo <= 0) and (hi is None or hi >= 0):
            out.add("zero")
        if hi is None or hi > 0:
            out.add("pos")
        if hi is not None and hi < 0:
            out = {"neg"}
        if lo is not None and lo > 0:
            out = {"pos"}
        return out
    return {"neg", "zero", "pos"}


def run(chk):
    w = C.world_for(chk)
    # which model table and which window size reach which scorer (shared with C09)
    from . import c09 as _c09w
    chk.rule("R09.1", "Predictor::new hands every scorer its own tables and window size (shared with C09)")
    _c09w.r091_predictor(chk, w)
    from . import ctors as _ctors
    _ctors.run(chk, w, only=["PositionalWeight::new", "with_boundary", "From<vaporetto::predictor::PositionalWeight>>::from"])
    for rid, txt in (("R01.1", "threshold table: >0 -> WordBoundary, else NotWordBoundary, one store per boundary, never Unknown"),
                     ("R01.2", "padding/resize/zip/accessor forms"), ("R01.3", "scorer pipeline and dispatcher totality"),
                     ("R01.4", "daachorse iterator <-> merged weights pairing"), ("R01.5", "add_score position and offset forms"),
                     ("R01.6", "cache alphabet constants"), ("R01.7", "cache window forms")):
        chk.rule(rid, txt)
    b = C.body(w, PRED)
    chk.fn(PRED)
    cf = cfgmod.cfg_of(b)
    loops = cf.natural_loops()
    # the threshold loop: the cycle containing a store of a CharacterBoundary aggregate through a pointer
    tl = None
    for h, blks in loops.items():
        for bb in blks:
            for s in b.blocks[bb]["stmts"]:
                if s["k"] == "assign" and s["rv"]["k"] == "aggr" and s["rv"]["adt"] == C.CB:
                    tl = h
    if tl is None:
        chk.undecided("R01.1", "loop", "no loop storing CharacterBoundary constants found in Predictor::predict", site=C.site(b))
        return
    it = absint.Interp(w, b, summaries=C.summaries(w))
    pre = it.run(0, stop=[tl])
    heads = [o for o in pre if o.kind == "stop"]
    if not heads:
        chk.undecided("R01.1", "preheader", "threshold loop not reachable", site=C.site(b))
        return

    # ------------------------------------------------------------------ R01.1
    H0 = heads[0]
    outs = it.run(tl, env=H0.env, cons=H0.cons, stop_at_entry_again=True, trace=H0.trace)
    table = {}
    ncases = 0
    for o in outs:
        if o.kind == "return" or (o.kind == "stop" and o.info != tl):
            continue
        if o.kind != "stop":
            if o.kind == "panic":
                chk.ob("R01.1", "no-panic", False, "a panic is reachable in the threshold loop: %s" % (o.info,), site=C.site(b, o.bb))
            continue
        tr = o.trace[len(H0.trace):]
        stores = [e for e in tr if e[0] == "store" and e[3][0] == "var" and e[3][1] == C.CB]
        other = [e for e in tr if e[0] == "store" and not (e[3][0] == "var" and e[3][1] == C.CB)]
        # the iterator must have produced an element on this path
        score_syms = [s for s, c in o.cons.items() if c[0] in ("ival", "eq") and (c[0] == "ival" or c[1][0] == "i") and "@Some" in s]
        if not stores and not score_syms:
            continue
        ncases += 1
        if len(score_syms) != 1:
            chk.undecided("R01.1", "score-flow", "the stored label depends on %d integer symbols %s (expected exactly the zipped score)" % (len(score_syms), score_syms), site=C.site(b, o.bb))
            continue
        sg = sign_of(o.cons.get(score_syms[0]))
        lab = tuple(sorted(e[3][2] for e in stores))
        tgt = {absint.pstr(e[2]) for e in stores}
        for x in sg:
            table.setdefault(x, set()).add((lab, len(tgt)))
        if other:
            chk.ob("R01.1", "only-label-stores", False, "unexpected store in the threshold loop: %s" % (other[0],), site=C.site(b, other[0][1]))
    spec = {"pos": ("WordBoundary",), "zero": ("NotWordBoundary",), "neg": ("NotWordBoundary",)}
    for sgn, want in spec.items():
        got = table.get(sgn)
        ok = got == {(want, 1)}
        chk.ob("R01.1", "case(score %s)" % sgn, ok,
               "derived stores %s for a %s score; specification: exactly one store of %s" % (sorted(got) if got else None, sgn, want[0]),
               site=C.site(b), sample={"sign": sgn, "derived": [list(map(str, g)) for g in (got or [])]})
    chk.floor("R01.1", "loop paths", ncases, 2)
    # provenance: the label pointer comes from iter_mut over the whole boundaries vector, the score from
    # boundary_scores[score_padding..]
    nz = forms.Normalizer(it, H0)
    wfl = w.const(WFL)
    wfl_v = wfl["value"]["int"] if wfl and wfl.get("value") else None
    chk.ob("R01.2", "const:WEIGHT_FIXED_LEN", wfl_v is not None and wfl_v >= 1, "constant %s not found/evaluated" % WFL)

    # ------------------------------------------------------------------ R01.2 / R01.3 on every path to the loop
    n_paths = 0
    for o in heads:
        n_paths += 1
        nzo = forms.Normalizer(it, o)
        pad = o.value_at(C.fpath(2, "score_padding"))
        okp = pad[0] == "i" and wfl_v is not None and pad[1] == wfl_v - 1
        chk.ob("R01.2", "padding", okp, "score_padding is set to %s, expected WEIGHT_FIXED_LEN-1 = %s" % (pad, (wfl_v or 0) - 1), site=C.site(b),
               sample={"score_padding": str(pad)})
        ev = list(o.trace)
        bs = C.fpath(2, "boundary_scores")
        clear_i = [k for k, e in enumerate(ev) if e[0] == "clear" and e[2] == bs]
        resize_i = [k for k, e in enumerate(ev) if e[0] == "call" and e[2] == "alloc::vec::Vec::resize" and e[3][0] == ("ref", bs)]
        ok = len(resize_i) == 1 and clear_i and clear_i[-1] < resize_i[0]
        chk.ob("R01.2", "clear-then-resize", bool(ok), "boundary_scores is not cleared and then resized exactly once before scoring", site=C.site(b))
        if len(resize_i) == 1:
            e = ev[resize_i[0]]
            f = nzo.form(e[3][1])
            lens = [m for m in f if m and m[0].startswith(C.S + "::len(")]
            expect = forms.add(forms.const(2 * pad[1] - 1 if pad[0] == "i" else 0), {lens[0]: 1} if lens else {})
            chk.ob("R01.2", "resize-length", bool(lens) and f == expect and pad[0] == "i",
                   "boundary_scores resized to %s, expected 2*score_padding + len() - 1 = %s" % (forms.show(f), forms.show(expect)),
                   site=C.site(b, e[1]), sample={"form": forms.show(f)})
            fill = e[3][2]
            chk.ob("R01.2", "fill-is-bias", fill == absint.SYM("m:arg1.data.bias"),
                   "boundary_scores is filled with %s, expected the model bias (self.data.bias)" % (fill,), site=C.site(b, e[1]))
        # zip operands
        zips = [e for e in ev if e[0] == "call" and e[2] and e[2].endswith("::zip")]
        idx = [e for e in ev if e[0] == "call" and e[2] and "Index" in e[2] and e[3][0][0] == "ref" and e[3][0][1][:2] == bs]
        okz = False
        dz = ""
        if len(zips) == 1 and idx:
            rng = idx[-1][3][1]
            if rng[0] == "agg" and rng[1].endswith("RangeFrom"):
                st_ = dict(rng[2]).get("start")
                okz = st_ == pad
                dz = "scores sliced from %s" % (st_,)
        chk.ob("R01.2", "zip-from-padding", okz, "the threshold loop does not zip boundaries with boundary_scores[score_padding..] (%s)" % dz, site=C.site(b))
        im = [e for e in ev if e[0] == "call" and e[2] and e[2].endswith("iter_mut") and e[3][0][0] == "ref"
              and absint._coll_path(e[3][0])[:2] == C.fpath(2, "boundaries")]
        chk.ob("R01.2", "all-boundaries", len(im) == 1, "the threshold loop does not iterate over the whole `boundaries` vector with iter_mut()", site=C.site(b))
        # R01.3
        for kind, fld, enum in (("char", "char_scorer", "vaporetto::char_scorer::CharScorer"), ("type", "type_scorer", "vaporetto::type_scorer::TypeScorer")):
            c = o.cons.get("m:arg1.data." + fld)
            present = c[2] if c and c[0] == "varis" else None
            cs = [k for k, e in enumerate(ev) if e[0] == "call" and e[2] == enum + "::add_scores"]
            good_args = all(ev[k][3][1] == ("ref", (("A", 2),)) and ev[k][3][0][0] == "ref" and ("f", fld) in ev[k][3][0][1] for k in cs)
            if present == "Some":
                ok = len(cs) == 1 and good_args and resize_i and cs[0] > resize_i[0]
            elif present == "None":
                ok = len(cs) == 0
            else:
                ok = False
            chk.ob("R01.3", "%s-scorer(%s)" % (kind, present), bool(ok),
                   "with %s scorer %s the pipeline calls %s::add_scores %d time(s) (expected %s, after the resize, on the scorer and this sentence)"
                   % (kind, present, enum, len(cs), "once" if present == "Some" else "never"), site=C.site(b),
                   sample={"scorer": kind, "present": present, "calls": len(cs)})
    chk.floor("R01.3", "pipeline paths (2 Options)", n_paths, 4)
    set_pred = [e for o in it.run(tl, env=H0.env, cons=H0.cons) for e in o.trace if o.kind == "return" and e[0] == "call" and e[2] == C.S + "::set_predictor"]
    chk.ob("R01.3", "set_predictor", bool(set_pred) and all(e[3] == (("ref", (("A", 2),)), ("ref", (("A", 1),))) for e in set_pred),
           "predict does not register itself on the sentence (set_predictor(self)) after thresholding", site=C.site(b))

    dispatch(chk, w, "vaporetto::char_scorer::CharScorer", 2)
    dispatch(chk, w, "vaporetto::type_scorer::TypeScorer", 3)
    global _CHK_CONFIG
    _CHK_CONFIG = chk.config
    accessor(chk, w)
    pairing(chk, w)
    offsets(chk, w)
    from . import c01_cache, c01_absent, c01_addscore, c01_merge
    c01_cache.run(chk, w)
    c01_absent.run(chk, w)
    c01_addscore.run(chk, w)
    c01_merge.run(chk, w)


def dispatch(chk, w, enum, floor):
    fn = enum + "::add_scores"
    b, it, outs = C.run_fn(w, fn)
    chk.fn(fn)
    ad = w.adt(enum)
    seen = {}
    for o in outs:
        c = o.cons.get("m:arg1")
        if not c or c[0] != "varis":
            if len(ad["variants"]) == 1 and o.kind == "return":
                c = ("varis", enum, ad["variants"][0]["name"])
            else:
                continue
        v = c[2]
        calls = [e for e in o.trace if e[0] == "call" and e[2] and e[2].endswith("::add_scores")]
        seen[v] = (o.kind, calls)
    n = 0
    for var in ad["variants"]:
        v = var["name"]
        payload_adt = var["fields"][0]["adt"] if var["fields"] else None
        kind, calls = seen.get(v, (None, []))
        ok = kind == "return" and len(calls) == 1 and calls[0][2] == "%s::add_scores" % payload_adt \
            and calls[0][3][0][0] == "ref" and calls[0][3][1] == ("ref", (("A", 2),))
        n += 1
        chk.ob("R01.3", "dispatch:%s::%s" % (enum.split("::")[-1], v), bool(ok),
               "variant %s of %s is not forwarded to %s::add_scores(payload, sentence) exactly once (found %s, %s)"
               % (v, enum, payload_adt, kind, [c[2] for c in calls]), site=C.site(b), sample={"variant": v, "forwarded_to": [c[2] for c in calls]})
    chk.floor("R01.3", "dispatch arms of " + enum.split("::")[-1], n, floor, other=1)


def accessor(chk, w):
    fn = C.S + "::boundary_scores"
    b, it, outs = C.run_fn(w, fn)
    chk.fn(fn)
    found = False
    for o in outs:
        if o.kind != "return":
            continue
        nz = forms.Normalizer(it, o)
        for e in o.trace:
            if e[0] == "call" and e[2] and "Index" in e[2] and len(e[3]) > 1 and e[3][1][0] == "agg" and e[3][1][1].endswith("::Range"):
                d = dict(e[3][1][2])
                fs, fe = nz.form(d["start"]), nz.form(d["end"])
                pad = {("arg1.score_padding",): 1}
                lens = [m for m in fe if m and "len(" in m[0] and "boundaries" in m[0]]
                ok = fs == pad and lens and fe == forms.add(pad, {lens[0]: 1}) and ("f", "boundary_scores") in e[3][0][1]
                found = True
                chk.ob("R01.2", "accessor-slice", bool(ok),
                       "Sentence::boundary_scores() returns [%s .. %s], expected [score_padding .. score_padding + boundaries.len()]" % (forms.show(fs), forms.show(fe)),
                       site=C.site(b, e[1]), sample={"start": forms.show(fs), "end": forms.show(fe)})
    chk.ob("R01.2", "accessor-found", found, "no range slice found in Sentence::boundary_scores()", site=C.site(b))


SCORERS = [
    ("vaporetto::char_scorer::boundary_scorer::CharScorerBoundary", "char", True),
    ("vaporetto::char_scorer::boundary_tag_scorer::CharScorerBoundaryTag", "char", True),
    ("vaporetto::type_scorer::boundary_scorer::TypeScorerBoundary", "type", True),
    ("vaporetto::type_scorer::boundary_tag_scorer::TypeScorerBoundaryTag", "type", True),
]


def pairing(chk, w):
    # every daachorse find_* call in the workspace
    merged, raw, bad = 0, 0, 0
    users = {}
    for bd in w.all_bodies():
        if bd.promoted is not None:
            continue
        for bb, t in cfgmod.calls(bd):
            c = cfgmod.callee(t) or ""
            if c.startswith("daachorse::") and "::find" in c and c.endswith("iter"):
                if "trainer::" in bd.fn:
                    continue   # feature extraction of the trainers is C10's subject (R10.3 dict:all-matches), not the predictor's
                # `*_from_iter(bytes)` is the same iterator over a byte iterator instead of a slice
                nm = c.split("::")[-1]
                users.setdefault(bd.fn, []).append((bb, nm[:-len("_from_iter")] if nm.endswith("_iter_from_iter") else nm))
    for fn, lst in sorted(users.items()):
        b = w.body(fn)
        chk.fn(fn)
        for bb, itname in lst:
            owner = fn.rsplit("::", 1)[0]
            newfn = owner + "::new"
            merges = []
            if fn.endswith("::add_scores") and w.body(newfn) is not None:
                merges = [t for (_bd, _bb, t) in C.static_calls(w, newfn) if (cfgmod.callee(t) or "").endswith("WeightMerger::merge")]
            if itname == "find_overlapping_no_suffix_iter":
                ok = fn.endswith("::add_scores") and len(merges) == 1
                merged += 1
                chk.ob("R01.4", "%s:no_suffix<->merged" % owner.split("::")[-1], ok,
                       "%s matches with find_overlapping_no_suffix_iter (reports only the longest match per end position) but %s does not build its weights from *WeightMerger::merge() (suffix weights would be lost)" % (fn, newfn),
                       site=C.site(b, bb), sample={"fn": fn, "iterator": itname, "merge_calls": len(merges)})
            elif itname == "find_overlapping_iter":
                ok = len(merges) == 0
                raw += 1
                chk.ob("R01.4", "%s:overlapping<->raw" % fn.split("::")[-2], ok,
                       "%s matches with find_overlapping_iter (all matches) but uses weights merged over suffixes: suffix weights would be counted twice" % fn,
                       site=C.site(b, bb), sample={"fn": fn, "iterator": itname})
            else:
                bad += 1
                chk.ob("R01.4", "%s:%s" % (fn.split("::")[-2], itname), False,
                       "%s uses daachorse iterator %s: occurrences of n-grams that overlap other matches are not all reported" % (fn, itname), site=C.site(b, bb))
    chk.floor("R01.4", "merged scorers", merged, 4, other=2)
    chk.floor("R01.4", "raw (all-matches) users", raw, 1, other=0)


def offsets(chk, w):
    n_sites = 0
    n_off = 0
    for owner, kind, _ in SCORERS:
        fn = owner + "::add_scores"
        if chk.config != "W" and w.body(fn) is None:
            continue   # tag scorers are not part of this configuration
        b, it, outs = C.run_fn(w, fn)
        chk.fn(fn)
        for e, o in C.all_calls(outs, lambda e: e[2] == "vaporetto::predictor::PositionalWeight::add_score"):
            n_sites += 1
            nz = forms.Normalizer(it, o)
            f = nz.form(e[3][1])
            pad = ("arg2.score_padding",)
            rest = {m: c for m, c in f.items() if m not in ((), pad)}
            ends = list(rest)
            if kind == "char":
                good_end = len(ends) == 1 and rest[ends[0]] == 1 and ends[0][0].startswith(C.S + "::str_to_char_pos(&arg2, daachorse::Match::end(")
            else:
                good_end = len(ends) == 1 and rest[ends[0]] == 1 and ends[0][0].startswith("daachorse::Match::end(")
            ok = f.get((), 0) == -1 and f.get(pad, 0) == 1 and good_end
            scores_ok = e[3][2][0] == "ref" and absint._coll_path(e[3][2]) == C.fpath(2, "boundary_scores")
            chk.ob("R01.5", "%s:position" % owner.split("::")[-1], ok and scores_ok,
                   "add_score position is %s (into %s); expected E + score_padding - 1 into boundary_scores with E = %s"
                   % (forms.show(f), e[3][2], "str_to_char_pos(m.end())" if kind == "char" else "m.end()"), site=C.site(b, e[1]),
                   sample={"fn": fn, "form": forms.show(f)})
        # offsets in new()
        nfn = owner + "::new"
        bn, itn, outsn = C.run_fn(w, nfn)
        chk.fn(nfn)
        for e, o in C.all_calls(outsn, lambda e: e[2] in ("vaporetto::predictor::PositionalWeight::new", "vaporetto::predictor::PositionalWeightWithTag::with_boundary")):
            nz = forms.Normalizer(itn, o)
            f = nz.form(e[3][0])
            n_off += 1
            win = [i for i in range(1, bn.arg_count + 1) if bn.locals[i]["ty"] == "u8"]
            wname = "arg%d" % win[0] if win else "?"
            if f == {(wname,): -1}:
                ok, what = True, "n-gram offset = -window_size"
            elif len(f) == 1 and list(f.values()) == [-1] and "chars" in list(f)[0][0] and "count" in list(f)[0][0] and ".word" in list(f)[0][0]:
                ok, what = True, "dictionary offset = -word.chars().count()"
            else:
                ok, what = False, ""
            chk.ob("R01.5", "%s:offset:%s" % (owner.split("::")[-1], "ngram" if (wname,) in f else "dict"), ok,
                   "positional weight offset is %s; expected -window_size (n-grams) or -word.chars().count() (dictionary words)" % forms.show(f),
                   site=C.site(bn, e[1]), sample={"fn": nfn, "form": forms.show(f), "ok": what})
    chk.floor("R01.5", "add_score call sites", n_sites, 4, other=2)
    chk.floor("R01.5", "offset constructions", n_off, 6, other=3)
