"""R05.4 - totality of the parse loops: finite abstract-state fixpoint at the loop header (escape flags, Option
variants, emptiness of the parallel vectors), then every exit of the loop is followed to the function's end."""
import re

from .. import facts, absint, forms, cfg as cfgmod, effects
from . import common as C


def parser_summary(w, fn):
    b = C.body(w, fn)
    cf = cfgmod.cfg_of(b)
    chars_next = [bb for bb, t in cfgmod.calls(b) if (cfgmod.callee(t) or "").endswith("Chars as core::iter::traits::iterator::Iterator>::next")]
    if len(chars_next) != 1:
        raise C.AnchorLost("expected one chars() loop in %s" % fn)
    h = chars_next[0]
    it = absint.Interp(w, b, models=effects.EXTRA_MODELS, summaries=C.summaries(w))
    pre = [o for o in it.run(0, stop=[h]) if o.kind == "stop"]
    early = [o for o in it.run(0, stop=[h]) if o.kind != "stop"]
    if not pre:
        raise C.AnchorLost("character loop of %s not reachable" % fn)

    def keep(p):
        # booleans, Option-typed locals, and the emptiness flags of vectors/strings
        if p[-1] == ("f", "<empty?>"):
            return True
        if len(p) == 1 and p[0][0] == "L":
            tk = b.locals[p[0][1]]["tk"]
            ty = b.locals[p[0][1]]["ty"]
            return (tk == "bool" or C.tyn(ty).startswith("S::option::Option<S::string::String")) and p[0][1] in b.names()
        return False
    H0 = pre[0]
    env0 = {p: v for p, v in H0.env.items() if keep(p) or (len(p) == 1 and p[0][0] == "L")}
    states, results = absint.header_fixpoint(it, h, H0.env, H0.cons, max_states=400, trace=(), keep=keep)
    outs = early + [o for env, os_ in results for o in os_]
    return b, it, h, states, outs


def emptiness(it, o, path):
    v = it.resolve(o, it._read(o, path + (("f", "<empty?>"),)))
    return v[1] if v[0] == "b" else None


def error_ctors(chk, w):
    """the parsers (and the trainer, the readers) report bad input through the constructors of VaporettoError; an error path is
    only total if building the error value cannot itself fail.  The constructors must be straight-line code that converts
    and stores its arguments: no loop, no call other than conversions - an error message that is post-processed with
    input-dependent string surgery can panic on exactly the inputs that are being rejected."""
    n = 0
    for k, bs in sorted(w.bodies.items()):
        if not k.startswith("vaporetto::errors::VaporettoError::") or "#" in k or "{closure" in k:
            continue
        b = bs[0]
        cf = cfgmod.cfg_of(b)
        callees = sorted({cfgmod.callee(t) or "?" for _, t in cfgmod.calls(b)})
        extra = [c for c in callees if not (c.endswith("Into::into") or c.endswith("From::from") or "Into<" in c or "From<" in c
                                            or c.endswith("ToString::to_string") or c.endswith("String::from") or c.endswith("::to_owned") or c.endswith("::to_string"))]
        n += 1
        chk.ob("R05.4", "error-ctor:%s:straight-line" % k.split("::")[-1], not cf.natural_loops() and not extra,
               "%s contains %d loop(s) and calls %s: building an error value must not compute on the rejected input (it can panic where an Err was promised)"
               % (k, len(cf.natural_loops()), extra), site=C.site(b), sample={"ctor": k, "calls": callees})
    chk.floor("R05.4", "error constructors", n, 2, other=2)


def run(chk, w):
    chk.rule("R05.4", "no unwrap-on-None / explicit panic reachable in the parse loops; a successful parse leaves at least one character")
    error_ctors(chk, w)
    nonempty_ok = {}
    for upd in ("update_raw", "update_tokenized", "update_partial_annotation"):
        parser = C.find_parser(w, C.S + "::" + upd)
        b, it, h, states, outs = parser_summary(w, parser)
        chk.fn(parser)
        short = parser.split("::")[-1]
        # the char_types parameter: the `&mut Vec<u8>` parameter
        ct = [i for i in range(1, b.arg_count + 1) if C.tyn(b.locals[i]["ty"]) == "&mut S::vec::Vec<u8>"]
        panics = [o for o in outs if o.kind == "panic" and not str(o.info).startswith("assert:")]
        chk.ob("R05.4", "%s:no-unwrap-panic" % short, not panics,
               "%s can reach `%s` (abstract header states explored: %d): some input makes the parser panic instead of returning an error" % (parser, panics[0].info if panics else "", len(states)),
               site=C.site(b, panics[0].bb) if panics else C.site(b), sample={"parser": short, "header_states": len(states), "exits": len(outs)})
        oks = [o for o in outs if o.kind == "return" and effects.ret_class(o.value_at((("L", 0),))) == "Ok"]
        bad = [o for o in oks if ct and emptiness(it, o, (("A", ct[0]),)) is not False]
        nonempty_ok[parser] = bool(oks) and not bad and bool(ct)
        why = ""
        if bad:
            o = bad[0]
            flags = {b.names().get(p[0][1], "_%d" % p[0][1]): v[1] for p, v in o.env.items() if len(p) == 1 and p[0][0] == "L" and v[0] == "b" and p[0][1] in b.names()}
            why = " (abstract exit state: %s)" % flags
        chk.ob("R05.4", "%s:ok-implies-nonempty" % short, nonempty_ok[parser],
               "%s can return Ok while no character has been stored%s: the sentence would have zero characters, and the constructors divide by char_types.len()" % (parser, why),
               site=C.site(b), sample={"parser": short, "ok_exits": len(oks), "possibly_empty": len(bad)})
        chk.floor("R05.4", "%s header states" % short, len(states), 2)
    # callers: every division by a vector length divides by the parser's char_types
    n = 0
    for name in ("from_tokenized", "from_partial_annotation", "update_tokenized", "update_partial_annotation", "from_raw", "update_raw"):
        fn = C.S + "::" + name
        b = C.body(w, fn)
        it = absint.Interp(w, b, models=effects.EXTRA_MODELS, summaries=C.summaries(w))
        outs = it.run(0)
        divs = [o for o in outs if o.kind == "panic" and "DivisionByZero" in str(o.info)]
        parsers = [c for _, c, _ in C.local_callees(w, b) if c in nonempty_ok]
        for o in divs:
            n += 1
            ok = bool(parsers) and all(nonempty_ok[p] for p in parsers)
            chk.ob("R05.4", "%s:division-by-char-count" % name, ok,
                   "%s divides by the number of characters, which can be zero because its parser %s may succeed without storing a character" % (fn, parsers), site=C.site(b, o.bb))
    chk.floor("R05.4", "divisions by the character count", n, 4)
