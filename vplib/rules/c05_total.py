"""R05.4 - totality of the parse loops (built in tier B)."""


def run(chk, w):
    return
