"""C03 - Tokenized text format round-trips."""
from .. import facts, absint, cfg as cfgmod
from . import common as C, fmt

EXPLANATION = (
    "R03.1 (E8a+FDAI): the special characters of parse_tokenized (characters that, unescaped, are never consumed as "
    "content: derived by abstract interpretation over (escape, c)) must all be escaped, with the parser's escape "
    "character, by every surface-emitting and every tag-emitting site of write_tokenized_text (derived per byte loop: "
    "bytes that get the escape byte pushed first); the separator bytes written between tokens / before tags are the "
    "parser's boundary / tag characters; an escaped character is always consumed as content by the parser. "
    "R03.2 (complete for UTF-8 validity): inside the as_mut_vec region every pushed byte is a constant < 0x80 or the "
    "byte currently iterated from a str, pushed exactly once and last. R03.3: the tag padding tails of parse_tokenized "
    "and parse_partial_annotation are twins."
)
THOROUGH_CONFIGS = [C.MINIMAL, C.NO_TAG]
QUICK_CONFIGS = [C.NO_TAG, C.MINIMAL]
NOT_DECIDED = ["equality of the re-parsed sentence as a value", "idempotence of write-after-parse as a value"]

PT = C.S + "::parse_tokenized"
WT = C.S + "::write_tokenized_text"


def run(chk):
    w = C.world_for(chk)
    from . import ctors as _acc
    _acc.accessors(chk, w, only=["vaporetto::sentence::"])
    # tokens, their tags and both writers slice the flat tag vector with n_tags: every function that changes the tags or the tag
    # count must leave tags.len() == n_tags * len() (shared with C05; which VALUES the slots hold after an update is C05/C08's subject)
    from . import c05 as _c05
    chk.rule("R05.3", "tags length form == n_tags form * len() at every exit of a function that changes either (shared with C05)")
    _c05.r053(chk, w)
    chk.rule("R03.1", "parser specials == writer escape sets (surface and tag), same escape character, separators agree")
    chk.rule("R03.2", "only ASCII constants and the iterated byte (once, in order) are pushed into the String's byte vector")
    chk.rule("R03.3", "tag padding tail of both parsers: slot count after the last tag, padding amount = slot count - own tags")
    chk.rule("R03.4", "one tag marker per tag slot (absent slots keep an empty placeholder)")
    parser = C.find_parser(w, C.S + "::update_tokenized")
    chk.fn(parser, WT)
    pt, it, outs, H = fmt.parser_table(w, parser)
    specials, esc, labels = fmt.classify_parser(pt)
    P = {x for x in specials if x != 0}
    chk.floor("R03.1", "parser cases", pt.cases, 10)
    chk.ob("R03.1", "parser:specials", len(P) >= 3 and all(x < 0x80 for x in P), "special characters of the tokenized parser: %s (expected ASCII, at least escape/boundary/tag)" % sorted(map(chr, P)),
           site=C.site(pt.body), sample={"specials": sorted(map(chr, P)), "effects": {chr(k): sorted(v) for k, v in specials.items() if k}})
    chk.ob("R03.1", "parser:one-escape-char", len(esc) == 1, "escape characters of the tokenized parser: %s" % sorted(map(chr, esc)), site=C.site(pt.body))
    # escaped characters are content
    esc_paths = [r for cc, recs in pt.raw.items() for r in recs if r["bools"].get("escape", (None,))[0] is True]
    okesc = bool(esc_paths) and all(r["pushes_c"] == 1 or (r["kind"] == "return" and r["ret"] == "Err") for r in esc_paths)
    anyc = [r for r in esc_paths if r["c"] is None or r["c"][0] == "notin"]
    chk.ob("R03.1", "parser:escaped-is-content", okesc and bool(anyc), "after the escape character the tokenized parser does not consume every character as content", site=C.site(pt.body))
    chk.ob("R03.1", "parser:escape-applies-to-one-character", bool(esc_paths) and all(r["bools"]["escape"][1] == absint.B(False) for r in esc_paths if r["kind"] == "backedge"),
           "after consuming an escaped character the tokenized parser can stay in the escaped state: the following separator / tag marker would be swallowed as content", site=C.site(pt.body))
    sep_boundary = {x for x, sig in specials.items() if any(s.startswith("sets:") and "escape" not in s for s in sig)}
    sep_tag = {x for x, sig in specials.items() if "starts-tag" in sig}

    sites, consts = fmt.writer_sites(w, WT)
    roles = {}
    for s in sites:
        roles.setdefault(s.role, []).append(s)
    for role in ("surface", "tag"):
        ss = roles.get(role, [])
        chk.ob("R03.1", "writer:%s-site-exists" % role, bool(ss), "no %s-emitting site found in write_tokenized_text" % role, site=C.site(C.body(w, WT)))
        for k, s in enumerate(ss):
            missing = sorted(P - s.escaped)
            chk.ob("R03.1", "writer:%s[%d]:escapes-specials" % (role, k), not missing and s.kind == "loop",
                   "the %s emitted by write_tokenized_text (%s) does not escape %s, which the tokenized parser treats as syntax: such a %s is re-parsed differently"
                   % (role, s.detail, [chr(x) for x in missing], role), site=C.site(s.body, s.bb),
                   sample={"role": role, "escaped": sorted(map(chr, s.escaped)), "escape_unit": sorted(map(chr, s.esc))})
            chk.ob("R03.1", "writer:%s[%d]:escape-char" % (role, k), s.esc == esc or (not s.escaped and not P),
                   "the %s site escapes with %s, the parser's escape character is %s" % (role, sorted(map(chr, s.esc)), sorted(map(chr, esc))), site=C.site(s.body, s.bb))
            chk.ob("R03.2", "writer:%s[%d]:unit-once-last" % (role, k), s.raw_once and all(x < 0x80 for x in s.esc),
                   "the %s byte loop does not push exactly [ASCII escape]* + the iterated byte once: the String may not stay valid UTF-8" % role, site=C.site(s.body, s.bb))
    other = [s for s in sites if s.role not in ("surface", "tag")]
    chk.ob("R03.2", "writer:no-foreign-bytes", not other, "write_tokenized_text pushes bytes of unknown provenance into the String's byte vector: %s" % [s.detail for s in other],
           site=C.site(other[0].body, other[0].bb) if other else None)
    cs = {c for _, c in consts}
    chk.ob("R03.2", "writer:ascii-constants", all(c < 0x80 for c in cs), "non-ASCII constant bytes pushed: %s" % sorted(cs))
    chk.ob("R03.1", "writer:separators", cs == (sep_boundary | sep_tag) and len(sep_boundary) == 1 and len(sep_tag) == 1,
           "write_tokenized_text writes separator bytes %s; the parser's token boundary is %s and its tag marker %s"
           % (sorted(map(chr, cs)), sorted(map(chr, sep_boundary)), sorted(map(chr, sep_tag))), sample={"written": sorted(map(chr, cs))})

    # ---- tag slots: one marker per slot up to the last present tag, whether the slot is present or absent
    marker = list(sep_tag)[0] if len(sep_tag) == 1 else None
    slots = fmt.tag_slot_tables(w, WT, marker) if marker is not None else []
    chk.floor("R03.4", "tag-marker loops", len(slots), 1)
    for k, (f_, h_, ety, table) in enumerate(slots):
        per_slot = "Option<&S::option::Option<" in ety or "Option<(usize, &S::option::Option<" in ety
        okt = per_slot and table.get("Some") == {1} and table.get("None") == {1}
        chk.ob("R03.4", "writer:tag-slot-loop[%d]:marker-per-slot" % k, okt,
               "the tag loop of %s iterates over `%s` and pushes the tag marker %s times per (present, absent) slot; expected one marker for every slot (present or absent) up to the last present tag: "
               "an absent tag before a present one must leave an empty placeholder, otherwise later tags shift into earlier categories" % (f_, ety, {k_: sorted(v_) for k_, v_ in table.items()}),
               site=C.site(C.body(w, f_), h_), sample={"fn": f_, "element": ety, "table": {str(k_): sorted(v_) for k_, v_ in table.items()}})
    # unsafe region really is the as_mut_vec one
    wb = C.body(w, WT)
    uns = [cfgmod.callee(t) for _, t in cfgmod.calls(wb) if t["callee"].get("unsafe")]
    chk.ob("R03.2", "writer:unsafe-ops", uns == ["alloc::string::String::as_mut_vec"], "unsafe operations in write_tokenized_text: %s (expected only String::as_mut_vec)" % uns, site=C.site(wb))

    # ---- R03.3 twins T8
    p2 = C.find_parser(w, C.S + "::update_partial_annotation")

    fmt.slot_range_rule(chk, w, "R03.4", WT, 1)
    fmt.append_only_rule(chk, w, "R03.2", WT)
    fmt.tag_flatten_rule(chk, w, "R03.3", parser)
    fmt.text_scan_rule(chk, w, "R03.1", parser)
    # ---- tag count taken after the last tag was recorded (both parsers)
    for pfn in (parser,):
        coll, counts, late = fmt.tag_count_order(w, pfn)
        sh = pfn.split("::")[-1]
        chk.ob("R03.3", "parser:%s:tag-count-after-last-tag" % sh, coll is not None and len(counts) == 1 and not late,
               "%s: per-character tag lists in local %s, tag-count computations at %s, mutable borrows of the lists reachable after the count: %s; "
               "the slot count must be taken after the pending tag of the last character has been appended, otherwise that character can hold more tags than slots" % (pfn, coll, counts, late),
               site=C.site(C.body(w, pfn), late[0][1] if late else None), sample={"parser": sh, "counts": counts, "late": late})
    # the padding of a character's tags up to the slot count: `slot count - (number of its own tags)` absent entries
    # (any idiom: a counting loop, resize, repeat().take()); both parsers
    for fn in (parser,):
        pads = [x for x in fmt.tag_padding_amounts(w, fn) if x[1] and x[2]]
        chk.ob("R03.3", "parser:%s:padding-amount" % fn.split("::")[-1], len(pads) == 1,
               "%s computes %d padding amounts of the form `slot count - len(tags of the character)`; expected exactly one: every character must be padded to the common number of tag slots"
               % (fn, len(pads)), site=C.site(C.body(w, fn), pads[0][0] if pads else None), sample={"parser": fn.split("::")[-1], "subtractions": pads})
