"""C13 - Cargo feature flags change speed, never results."""
import hashlib
import json
import re

from .. import facts, absint, forms, cfg as cfgmod, effects
from . import common as C

EXPLANATION = (
    "R13.1: every supported subset of {cache-type-score, fix-weight-length, charwise-pma, tag-prediction, std} (+alloc) and "
    "the portable-simd configuration type-check under the real build (32+1 configurations, facts extracted for each; fail "
    "closed per configuration). R13.2 influence confinement (E12): a canonical fingerprint of every function's MIR (spans, "
    "type spellings, field indexes and std/alloc/core path spelling removed) is computed in every configuration; for each "
    "feature f and each of the 16 pairs of configurations that differ only in f, the functions whose fingerprint differs (or "
    "that exist on one side only) must lie inside f's declared influence set (frozen patterns with reasons). This proves "
    "that `std` cannot change any prediction result (only error impls and Model::read/write differ), that tag-prediction "
    "cannot change boundary scoring (Predictor::predict, the boundary scorers, the cache, add_score, the mergers, the "
    "parsers and the token iterator are bit-identical), that charwise-pma is confined to the two character scorers, "
    "cache-type-score to TypeScorer and the cache module, fix-weight-length / portable-simd to WeightVector and add_score. "
    "R13.3 twin forms inside the sets: the Fixed and Variable arms of PositionalWeight::add_score write from the same start "
    "position; TypeScorer::new dispatches on window_size identically with and without tag-prediction."
)
NOT_DECIDED = [
    "equivalence of the alternative algorithms inside the influence sets (score table vs automaton, array vs vector, char-wise vs byte-wise automaton, SIMD vs scalar): numeric",
]

F = facts.OPT_FEATURES

# feature -> [(regex on the normalised function key, reason)]
INFLUENCE = {
    "std": [
        (r"vaporetto::errors::", "io::Error variant and std::error::Error impls exist only with std"),
        (r"vaporetto::model::Model::(read|write)$", "reader/writer based I/O needs std"),
    ],
    "tag-prediction": [
        (r"[Tt]ag", "tag prediction code itself (tag scorers, TagPredictor, PositionalWeightWithTag, fill_tags, tag_candidates, ...)"),
        (r"vaporetto::(char|type)_scorer::(Char|Type)Scorer( as |::)", "scorer enums gain the BoundaryTag variant (constructor, dispatch, derived codec)"),
        (r"vaporetto::predictor::Predictor(Data)?( as |::)(?!predict$)", "predictor construction / (de)serialisation carry the tag predictor; `predict` itself must not differ"),
        (r"vaporetto::predictor::WeightVector::(add_scores|len)$", "only used for tag scores"),
        (r"vaporetto::sentence::Sentence( as S::default::Default>)?::(default|set_default|from_raw|from_tokenized|from_partial_annotation|update_raw|update_tokenized|update_partial_annotation)$",
         "Sentence has the extra field tag_scores that constructors and updates initialise/clear"),
    ],
    "charwise-pma": [
        (r"vaporetto::char_scorer::boundary(_tag)?_scorer::CharScorerBoundary(Tag)?( as |::)", "the two character scorers switch between the byte-wise and the char-wise automaton"),
    ],
    "cache-type-score": [
        (r"vaporetto::type_scorer::TypeScorer( as |::)", "TypeScorer gains the BoundaryCache variant (constructor, dispatch, derived codec)"),
        (r"vaporetto::type_scorer::boundary_scorer_cache::", "the cache module exists only with the feature"),
    ],
    "fix-weight-length": [
        (r"vaporetto::predictor::WeightVector( as |::)", "WeightVector gains the Fixed variant"),
        (r"vaporetto::predictor::PositionalWeight::add_score$", "Fixed arm of add_score"),
        (r"vaporetto::utils::trim_end_zeros$", "only used to encode Fixed vectors"),
    ],
    "portable-simd": [
        (r"vaporetto::predictor::WeightVector( as |::)", "Fixed vectors are SIMD vectors"),
        (r"vaporetto::predictor::PositionalWeight::add_score$", "SIMD add in the Fixed arm"),
    ],
}
# functions that must be identical whatever tag-prediction is (named so that a lost anchor is noticed)
CORE_BOUNDARY = [
    "vaporetto::predictor::Predictor::predict",
    "vaporetto::char_scorer::boundary_scorer::CharScorerBoundary::add_scores",
    "vaporetto::type_scorer::boundary_scorer::TypeScorerBoundary::add_scores",
    "vaporetto::predictor::PositionalWeight::add_score",
    "vaporetto::char_scorer::CharWeightMerger::merge",
    "vaporetto::type_scorer::TypeWeightMerger::merge",
    "<vaporetto::sentence::TokenIterator as S::iter::traits::iterator::Iterator>::next",
    "vaporetto::sentence::Sentence::parse_raw",
    "vaporetto::sentence::Sentence::write_tokenized_text",
]


def _strip(o):
    if isinstance(o, dict):
        return {k: _strip(v) for k, v in o.items() if k not in ("span", "exp", "ty", "generic", "self_ty", "resolved_krate", "krate", "idx", "vidx")}
    if isinstance(o, list):
        return [_strip(x) for x in o]
    if isinstance(o, str):
        return re.sub(r"\b(std|alloc|core)::", "S::", o)
    return o


def norm_key(k):
    return re.sub(r"\b(std|alloc|core)::", "S::", re.sub(r"<(__)?Context>", "", k))


def fingerprints(config):
    w = facts.world(config)
    out = {}
    for b in w.all_bodies("vaporetto"):
        j = _strip({"blocks": b.blocks, "locals": [{"adt": l["adt"], "tk": l["tk"]} for l in b.locals], "argc": b.arg_count})
        out[norm_key(b.key)] = hashlib.sha1(json.dumps(j, sort_keys=True).encode()).hexdigest()[:16]
    return out


def cfgname(feats):
    return "F:" + ",".join(f for f in F if f in feats)


def owner(k):
    return re.sub(r"(::\{closure#\d+\})+|#promoted\d+", "", k)


def run(chk):
    for rid, txt in (("R13.1", "all feature subsets build and are analysed"), ("R13.2", "per-feature influence confinement of MIR differences"),
                     ("R13.3", "twin forms inside the influence sets")):
        chk.rule(rid, txt)
    configs = facts.all_feature_configs(with_simd=True)
    fps = {}
    for c in configs:
        try:
            fps[c] = fingerprints(c)
            chk.configs.add(c)
            chk.ob("R13.1", "builds:%s" % (c[2:] or "alloc-only"), len(fps[c]) > 100, "configuration %s yields only %d function bodies" % (c, len(fps[c])),
                   sample={"config": c, "functions": len(fps[c])} if len(chk.samples) < 3 else None)
        except facts.ExtractionError as e:
            chk.ob("R13.1", "builds:%s" % (c[2:] or "alloc-only"), False, "configuration %s does not type-check: %s" % (c, str(e)[-600:]))
    chk.floor("R13.1", "configurations", len(fps), 33)
    # ---- R13.2
    for f in F + ["portable-simd"]:
        pats = [(re.compile(p), r) for p, r in INFLUENCE[f]]
        changed = {}
        npairs = 0
        if f == "portable-simd":
            pairs = [(cfgname(F), cfgname(F) + ",portable-simd")]
        else:
            pairs = []
            for mask in range(1 << len(F)):
                base = [F[i] for i in range(len(F)) if mask >> i & 1]
                if f not in base:
                    pairs.append((cfgname(base), cfgname(base + [f])))
        for a, b in pairs:
            if a not in fps or b not in fps:
                continue
            npairs += 1
            fa, fb = fps[a], fps[b]
            for k in set(fa) | set(fb):
                if fa.get(k) != fb.get(k):
                    changed.setdefault(owner(k), set()).add((a, b))
        outside = {k: v for k, v in changed.items() if not any(p.search(k) for p, _ in pats)}
        for k, v in sorted(outside.items()):
            a, b = sorted(v)[0]
            chk.ob("R13.2", "%s:%s" % (f, k.replace("vaporetto::", "")), False,
                   "function %s has different MIR with and without feature `%s` (e.g. %s vs %s, %d of %d configuration pairs) but lies outside the feature's declared influence set: "
                   "the feature can change what this function computes" % (k, f, a, b, len(v), npairs))
        chk.ob("R13.2", "%s:confined" % f, not outside and npairs == len(pairs) and bool(changed),
               "feature %s: %d function(s) differ outside the declared set" % (f, len(outside)),
               sample={"feature": f, "pairs": npairs, "functions_that_differ": len(changed), "declared": [r for _, r in INFLUENCE[f]]})
    # named core functions are present in all configurations and identical across tag-prediction/std
    base_all = fps.get(cfgname(F), {})
    for k in CORE_BOUNDARY:
        vals = {c: fp.get(k) for c, fp in fps.items() if "charwise-pma" in c or "char_scorer::boundary_scorer" not in k}
        present = [c for c, v in vals.items() if v is not None]
        chk.ob("R13.2", "core-present:%s" % k.replace("vaporetto::", ""), len(present) >= 16, "core function %s is missing from the analysed configurations (anchor lost?)" % k)
    # ---- R13.3
    twins(chk)
    from . import c01_cache
    chk.rule("R01.6", "cache alphabet constants (shared with C01)")
    chk.rule("R01.7", "cache window forms: the table lookup must see the same 2W-wide window as the automaton scorer (shared with C01)")
    c01_cache.run(chk, facts.world(cfgname(F)))
    # the only feature-gated code of the serialised form: trailing-zero trimming of fixed-length weights
    from . import c14
    chk.rule("R14.4", "fixed weight vectors: trim_end_zeros drops only trailing zeros (shared with C14)")
    c14.trim_table(chk, facts.world(cfgname(F)))
    # scoring code shared by all configurations: placement of weight vectors in the Fixed / Variable arms (shared with C01)
    from . import c01_addscore
    c01_addscore.run(chk, facts.world(cfgname(F)))
    # the cached type scorer builds its table for the window size it is handed, the automaton scorers apply the stored weight
    # vectors at their own offsets: only when the predictor hands the model's type window to TypeScorer::new do both agree
    # (shared with C09; the character scorer uses its window the same way in every configuration and is not part of this property)
    from . import c09
    chk.rule("R09.1", "Predictor::new hands the model's own type n-gram model and type window to TypeScorer::new (shared with C09)")
    with chk.only(rules={"R09.1"}, keys=lambda k: "type-scorer-args" in k or k.endswith(":scorers")):
        c09.r091_predictor(chk, facts.world(cfgname(F)))
    per_config(chk)


SINGLE_OFF = [C.NO_CHARWISE, C.NO_CACHE, C.NO_FIX]


def per_config(chk):
    """code that is compiled only when a feature is OFF is invisible in the all-features build: the structural scoring / tagging /
    state rules of C01, C06 and C18 are run on every single-feature-off configuration.  Only obligations that HOLD on the
    all-features configuration are recorded: a rule instance that holds there and fails with one feature switched off means
    the two builds compute different results (a defect common to all configurations is not this property's)."""
    from . import c01, c06, c18, c14
    from .. import report

    def run_all(ck):
        c01.run(ck)
        c06.run(ck)
        c18.run(ck)
        c14.from_variable_identity(ck, C.world_for(ck))
    ref = report.Check("C13", chk.tier)
    ref.config = cfgname(F)
    run_all(ref)
    strip = lambda k: k.split("@[")[0]
    bad_ref = {strip(o["key"]) for o in ref.obs if not o["ok"]}
    have_ref = {strip(o["key"]) for o in ref.obs}
    chk.rule("R13.4", "C01/C06/C18 structural rules per single-feature-off configuration, recorded where they hold with all features on")
    saved = chk.config
    n = 0
    for c in SINGLE_OFF:
        chk.config = c
        before = len(chk.obs)
        with chk.only(keys=lambda k: k not in bad_ref and "floor(" not in k):
            run_all(chk)
        n += len(chk.obs) - before
        chk.configs.add(c)
    chk.config = saved
    chk.rule_texts.update({k: v for k, v in ref.rule_texts.items() if k not in chk.rule_texts})
    chk.functions |= ref.functions
    chk.floor("R13.4", "per-configuration obligations", n, 500)


def twins(chk):
    # PositionalWeight::add_score: same start position in the Fixed and the Variable arm
    cfg_all = cfgname(F)
    w = facts.world(cfg_all)
    fn = "vaporetto::predictor::PositionalWeight::add_score"
    b = C.body(w, fn)
    chk.fn(fn)
    it = absint.Interp(w, b, models=effects.EXTRA_MODELS)
    starts = {}
    for o in it.run(0):
        var = [c[2] for s, c in o.cons.items() if c[0] == "varis" and c[1].endswith("WeightVector")]
        nz = forms.Normalizer(it, o)
        for e in o.trace:
            if e[0] == "call" and "Index" in (e[2] or "") and len(e[3]) > 1 and e[3][1][0] == "agg" and e[3][0][0] == "ref" and e[3][0][1][:1] == (("A", 3),):
                d = dict(e[3][1][2])
                st = forms.show(nz.form(d["start"])) if "start" in d else "0"
                en = forms.show(nz.form(d["end"])) if "end" in d else None
                starts.setdefault(var[0] if var else "?", set()).add((e[3][1][1].split("::")[-1], st, en))
    fx = starts.get("Fixed", set())
    vr = starts.get("Variable", set())
    P = "arg1.offset + arg2"
    wfl = w.const("vaporetto::predictor::WEIGHT_FIXED_LEN")
    n = wfl["value"]["int"] if wfl and wfl.get("value") else None
    ok_fx = fx == {("Range", P, "%d + %s" % (n, P))} if n else False
    ok_vr = ("RangeFrom", P, None) in vr
    chk.ob("R13.3", "add_score:Fixed-start", ok_fx, "the Fixed arm of add_score writes %s; expected ys[pos .. pos + WEIGHT_FIXED_LEN] with pos = end + offset" % sorted(fx), site=C.site(b), sample={"Fixed": sorted(map(str, fx))})
    chk.ob("R13.3", "add_score:Variable-start", ok_vr, "the Variable arm of add_score writes %s; expected ys[pos ..] with pos = end + offset for pos >= 0" % sorted(vr), site=C.site(b), sample={"Variable": sorted(map(str, vr))})
    # TypeScorer::new dispatch with / without tag-prediction (cache on)
    tables = {}
    for feats in (["cache-type-score", "tag-prediction"], ["cache-type-score"]):
        c = cfgname(feats)
        wc = facts.world(c)
        fnn = "vaporetto::type_scorer::TypeScorer::new"
        bb = C.body(wc, fnn)
        ii = absint.Interp(wc, bb, models=effects.EXTRA_MODELS)
        t = set()
        for o in ii.run(0):
            if o.kind != "return":
                continue
            rv = o.value_at((("L", 0),))
            cls = None
            cw = o.cons.get("arg2")
            if cw and cw[0] in ("ival", "eq"):
                lo = cw[1] if cw[0] == "ival" else cw[1][1]
                hi = cw[2] if cw[0] == "ival" else cw[1][1]
                # the window size is a u8: intervals are clipped to the type's range (a range pattern splits at 0, a `<=` test does not)
                if hi is not None and hi < 0:
                    continue
                cls = (max(lo or 0, 0), hi)
            calls = [e[2].split("::")[-2] for e in o.trace if e[0] == "call" and (e[2] or "").endswith("::new") and "type_scorer" in (e[2] or "")]
            tagempty = [e[5] for e in o.trace if e[0] == "call" and (e[2] or "").endswith("Vec::is_empty") and len(e) > 5]
            # with tag-prediction the second emptiness test is `tag_ngram_model.is_empty()`: compare the tag-less case
            if calls and (len(tagempty) < 2 or tagempty[-1] == absint.B(True)) and effects.ret_class(rv) == "Ok":
                t.add((cls, tuple(calls)))
        tables[c] = t
    vals = list(tables.values())
    chk.ob("R13.3", "TypeScorer::new:dispatch-twins", len(vals) == 2 and vals[0] == vals[1] and len(vals[0]) >= 2,
           "TypeScorer::new chooses scorers by window size differently with and without tag-prediction: %s" % {k: sorted(v, key=str) for k, v in tables.items()},
           sample={k: sorted(map(str, v)) for k, v in tables.items()})
