"""C06 - Predicted tags equal the per-token linear classifiers."""
import re

from .. import facts, absint, forms, cfg as cfgmod, effects
from . import common as C

EXPLANATION = (
    "R06.1 (FDAI, complete for tie-breaking): the argmax loop of TagPredictor::predict updates (index, max) only under a "
    "strict `score > max` comparison, starting from index 0 / i32::MIN, and the chosen candidate is tag_cands[index] with "
    "the index relative to scores[offset .. offset+len]. R06.2 slot-consumption agreement over the candidate-count class "
    "{0,1,>=2}: TagPredictor::predict, Token::tag_candidates and TagTrainer::train_tag consume `len` score slots iff "
    "len >= 2 (single candidate -> that candidate without a slot, none -> None). R06.3 (E5/E6): a scorer whose "
    "add_tag_scores reads X_pma_states clears and resizes that vector to len() with the sentinel in add_scores before "
    "matching; predict_tags calls add_tag_scores of both scorers, when present, with the last character index of the token "
    "in both the in-loop and the final-token block (twins T14) and writes tags[i*n_tags .. (i+1)*n_tags]. "
    "R06.4 (E9): an index computed from a decoded model field (rel_position) into a vector is sanitised (dominating "
    "comparison or container sized from the same field). R06.5: char/type tag scorer twins (T6). R06.6: on every path of "
    "predict_tags the stored tag scores are cleared and, when score storing is on, resized to len()."
)
THOROUGH_CONFIGS = [C.NO_CHARWISE, C.NO_FIX, C.NO_CACHE]
QUICK_CONFIGS = [C.NO_FIX, C.NO_CHARWISE, C.NO_CACHE]
NOT_DECIDED = ["numeric sums of tag scores", "suffix-merged tag weights (merge arithmetic)"]

TP = "vaporetto::predictor::TagPredictor::predict"
TAGSCORERS = [("vaporetto::char_scorer::boundary_tag_scorer::CharScorerBoundaryTag", "char_pma_states", "char"),
              ("vaporetto::type_scorer::boundary_tag_scorer::TypeScorerBoundaryTag", "type_pma_states", "type")]


def run(chk):
    w = C.world_for(chk)
    # which model table and which window size reach which scorer (shared with C09)
    from . import c09 as _c09w
    chk.rule("R09.1", "Predictor::new hands every scorer its own tables and window size (shared with C09)")
    _c09w.r091_predictor(chk, w)
    from . import ctors as _ctors
    _ctors.run(chk, w, only=["TagPredictor::new", "PositionalWeight::new"])
    for rid, txt in (("R06.1", "argmax: strict comparison, first index wins ties, slice-relative index"), ("R06.2", "score-slot consumption agrees in predictor, accessor and trainer"),
                     ("R06.3", "automaton state vectors prepared before use; predict_tags call shape"), ("R06.4", "model-derived index sanitised"),
                     ("R06.5", "char/type tag scorer twins"), ("R06.6", "tag score storage prepared on every path")):
        chk.rule(rid, txt)
    # a tag scorer that matches with the longest-match iterator records ONE pattern per end position and relies on suffix-merged
    # weights; with the all-matches iterator the recorded state is the shortest suffix and the longer tag n-grams are lost (shared with C01)
    from . import c01 as _c01p
    chk.rule("R01.4", "tag scorers: daachorse iterator <-> merged weights pairing (shared with C01)")
    with chk.only(rules={"R01.4"}, keys=lambda k: "BoundaryTag" in k):
        _c01p.pairing(chk, w)
    # the bias vector of a token sizes its score buffer (shared with C14's conversion table)
    from . import c14 as _c14f
    chk.rule("R14.4", "From<Vec<i32>> for WeightVector keeps a Variable vector unchanged")
    _c14f.from_variable_identity(chk, w)
    r061(chk, w)
    if chk.config == "W" or w.body("vaporetto::tag_trainer::TagTrainer::train_tag") is not None:
        r062(chk, w)
    r063(chk, w)
    r064(chk, w)
    r066(chk, w)
    r067(chk, w)
    r068(chk, w)


def _loops_nested(b):
    cf = cfgmod.cfg_of(b)
    loops = cf.natural_loops()
    outer = [h for h in loops if not any(h != g and loops[h] < loops[g] for g in loops)]
    inner = [h for h in loops if h not in outer]
    return cf, loops, outer, inner


def r069(chk, w):
    """every return of TagPredictor::predict lies behind the category loop: a category with one candidate gets its tag there, with or
    without scores (a shortcut around the loop leaves the tags of score-less tokens unset)"""
    chk.rule("R06.9", "TagPredictor::predict: no path returns without having run the category loop")
    b = C.body(w, TP)
    cf, loops, outer, inner = _loops_nested(b)
    if len(outer) != 1:
        chk.undecided("R06.9", "category-loop", "expected one outer loop in TagPredictor::predict, found %d" % len(outer), site=C.site(b))
        return
    h = outer[0]
    rets = [bl["id"] for bl in b.blocks if not bl["cleanup"] and bl["term"] and bl["term"]["k"] == "return"]
    # every path entry -> return passes through the loop header
    ok = bool(rets) and all(cf.must_pass(0, {r}, {h}) for r in rets)
    chk.ob("R06.9", "predict:returns-behind-category-loop", ok,
           "TagPredictor::predict can return without entering the loop over the tag categories (header bb%d): single-candidate categories are assigned inside that loop" % h, site=C.site(b, h))


def r061(chk, w):
    r069(chk, w)
    b = C.body(w, TP)
    chk.fn(TP)
    cf, loops, outer, inner = _loops_nested(b)
    if len(outer) != 1 or len(inner) != 1:
        chk.undecided("R06.1", "loops", "expected one category loop with one argmax loop inside, found %d/%d" % (len(outer), len(inner)), site=C.site(b))
        return
    ho, hi = outer[0], inner[0]
    it = absint.Interp(w, b, models=effects.EXTRA_MODELS, summaries=C.summaries(w))
    pre = [o for o in it.run(0, stop=[hi]) if o.kind == "stop"]
    if not pre:
        chk.undecided("R06.1", "argmax-loop", "not reachable", site=C.site(b))
        return
    H0 = pre[0]
    outs = it.run(hi, stop=set(cf.blocks) - loops[hi], env=H0.env, cons=H0.cons, stop_at_entry_again=True, trace=H0.trace)
    cmp_syms = [s for s in it.op_info if s.startswith("op:")]
    updates = {}
    cmpinfo = None
    for o in outs:
        if o.kind != "stop" or o.info != hi:
            continue
        el = o.cons.get("ret:%d" % hi)
        if not el or el[2] != "Some":
            continue
        taken = None
        for s in cmp_syms:
            c = o.cons.get(s)
            if c and c[0] == "eq":
                taken = (s, c[1][1])
        if taken is None:
            continue
        cmpinfo = it.op_info[taken[0]]
        changed = {}
        for l in range(len(b.locals)):
            v = o.value_at((("L", l),))
            h = absint.SYM("hv:loop%d:_%d" % (hi, l))
            if l in it._loop_assigned_locals(hi) and l in b.names() and v != h and it._read(o, (("L", l),)) != h:
                changed[b.names()[l]] = v
        updates[taken[1]] = changed
    if cmpinfo is None or True not in updates or False not in updates:
        chk.undecided("R06.1", "comparison", "no score/max comparison with both outcomes found in the argmax loop", site=C.site(b, hi))
        return
    op, a, bq = cmpinfo
    # operand roles: element (payload of the enumerate item) vs. running maximum (loop-carried local)
    def is_elem(v):
        return v[0] == "sym" and "ret:%d@Some" % hi in v[1]
    def is_max(v):
        return v[0] == "sym" and v[1].startswith("hv:loop%d:_" % hi)
    strict = (op == "Gt" and is_elem(a) and is_max(bq)) or (op == "Lt" and is_max(a) and is_elem(bq))
    chk.ob("R06.1", "strict-greater", strict,
           "the argmax compares with %s(%s, %s); only a strict `score > max` keeps the first candidate on ties" % (op, a, bq), site=C.site(b, hi),
           sample={"op": op, "lhs": str(a), "rhs": str(bq)})
    upT, upF = updates[True], updates[False]
    # pattern-bound per-iteration variables are assigned on both outcomes: only loop-carried state matters
    both = {k for k in upT if k in upF and upT[k] == upF[k]}
    upT = {k: v for k, v in upT.items() if k not in both}
    upF = {k: v for k, v in upF.items() if k not in both}
    max_local = (bq if is_max(bq) else a)[1].split(":_")[-1]
    if not max_local.isdigit():
        chk.undecided("R06.1", "argmax-state", "the running maximum is a field of a compound accumulator (%s), not a loop-carried local: the update table cannot be derived" % max_local, site=C.site(b, hi))
        return
    max_name = b.names().get(int(max_local))
    okT = len(upT) == 2 and max_name in upT and is_elem(upT[max_name]) and any(k != max_name and v[0] == "sym" and v[1].endswith("@Some.0.0") for k, v in upT.items())
    chk.ob("R06.1", "update-on-greater", okT, "on a greater score the loop updates %s (expected the index := i and the maximum := score)" % {k: str(v) for k, v in upT.items()}, site=C.site(b, hi))
    chk.ob("R06.1", "no-update-otherwise", not upF, "on a not-greater score the loop still updates %s" % sorted(upF), site=C.site(b, hi))
    idx_name = [k for k in upT if k != max_name][0] if okT else None
    # initial values at loop entry
    if idx_name:
        idx_l = [l for l, n in b.names().items() if n == idx_name][0]
        v_idx = it.resolve(H0, it._read(H0, (("L", idx_l),)))
        v_max = it.resolve(H0, it._read(H0, (("L", int(max_local)),)))
        chk.ob("R06.1", "initial", v_idx == absint.I(0) and v_max == absint.I(-2147483648), "argmax starts from index %s / maximum %s (expected 0 / i32::MIN)" % (v_idx, v_max), site=C.site(b, hi))
    # ---- category loop: forms
    preo = [o for o in it.run(0, stop=[ho]) if o.kind == "stop"]
    outs = it.run(ho, env=preo[0].env, cons=preo[0].cons, stop_at_entry_again=True, trace=preo[0].trace)
    n0 = len(preo[0].trace)
    table = {}
    ITEM = re.compile(r"<core::iter::adapters::zip::Zip as core::iter::traits::iterator::Iterator>::next\(&_\d+\)@Some\.0\.0")
    for o in outs:
        if o.kind != "stop" or o.info != ho:
            continue
        item = o.cons.get("ret:%d" % ho)
        if not item or item[2] != "Some":
            continue
        nz = forms.Normalizer(it, o, rename=lambda s_: ITEM.sub("CANDS", s_))
        lens = [(s, c) for s, c in o.cons.items() if s.startswith("ret:") and c[0] in ("ival", "eq") and "::len" in (nz.ret_info.get(s, ("",))[0] or "")]
        cls = None
        for s, c in lens:
            lo, hi_ = (c[1], c[2]) if c[0] == "ival" else (c[1][1], c[1][1])
            cls = ">=2" if lo is not None and lo >= 2 else "<=1" if hi_ is not None and hi_ <= 1 else "?"
        tr = o.trace[n0:]
        off_l = [l for l, n in b.names().items() if n == "offset"]
        # offset change
        offv = None
        for l in it._loop_assigned_locals(ho):
            if l in b.names() and b.locals[l]["ty"] == "usize" and not any(l in it._loop_assigned_locals(h2) for h2 in inner):
                v = o.value_at((("L", l),))
                if v[0] == "expr":
                    offv = (b.names()[l], forms.show(nz.form(v)))
        slices = [C.show_arg(nz, e[3][1]) for e in tr if e[0] == "call" and "Index" in (e[2] or "") and len(e[3]) > 1 and e[3][1][0] == "agg" and "Range" in e[3][1][1]]
        firsts = [e for e in tr if e[0] == "call" and (e[2] or "").endswith("[T]::first")]
        picks = [C.show_arg(nz, e[3][1]) for e in tr if e[0] == "call" and "Index" in (e[2] or "") and len(e[3]) > 1 and e[3][1][0] == "sym" and e[3][0][0] == "ref"]
        table.setdefault(cls, []).append(dict(off=offv, slices=slices, firsts=len(firsts), picks=picks))
    LEN = r"alloc::vec::Vec::len\(&\*\{CANDS\}\)"
    ge2 = table.get(">=2", [])
    le1 = table.get("<=1", [])
    chk.ob("R06.2", "predict:class>=2", bool(ge2) and all(r["off"] and re.fullmatch(r"%s \+ hv:loop\d+:_\d+" % LEN, r["off"][1]) for r in ge2),
           "with >= 2 candidates the score offset becomes %s (expected offset + len)" % [r["off"] for r in ge2], site=C.site(b, ho), sample={"class": ">=2", "rows": str(ge2)[:300]})
    chk.ob("R06.1", "slice-form", bool(ge2) and all(len(r["slices"]) == 1 and re.fullmatch(r"Range\{start: (hv:loop\d+:_\d+), end: %s \+ \1\}" % LEN, r["slices"][0]) for r in ge2),
           "the category's scores are taken from %s (expected scores[offset .. offset + len])" % [r["slices"] for r in ge2], site=C.site(b, ho))
    chk.ob("R06.2", "predict:class<=1", bool(le1) and all(r["off"] is None and r["firsts"] == 1 and not r["slices"] for r in le1),
           "with <= 1 candidate the predictor consumes score slots or does not take the first candidate: %s" % le1, site=C.site(b, ho), sample={"class": "<=1", "rows": str(le1)[:300]})
    chk.floor("R06.2", "predict classes", len(table), 2)


def r062(chk, w):
    # Token::tag_candidates
    fn = "vaporetto::sentence::Token::tag_candidates"
    b = C.body(w, fn)
    chk.fn(fn)
    cf, loops, outer, inner = _loops_nested(b)
    it = absint.Interp(w, b, models=effects.EXTRA_MODELS, summaries=C.summaries(w))
    if len(outer) != 1:
        chk.undecided("R06.2", "tag_candidates:loops", "expected one category loop", site=C.site(b))
    else:
        ho = outer[0]
        pre = [o for o in it.run(0, stop=[ho]) if o.kind == "stop"]
        outs = it.run(ho, env=pre[0].env, cons=pre[0].cons, stop_at_entry_again=True, trace=pre[0].trace) if pre else []
        n0 = len(pre[0].trace) if pre else 0
        rows = {}
        for o in outs:
            if o.kind not in ("stop", "backedge"):
                continue
            nz = forms.Normalizer(it, o)
            cls = None
            for s, c in o.cons.items():
                # a length: Vec::len / <[T]>::len, or the slice metadata a slice pattern (`[cand]`) is matched on
                if (s.startswith("ret:") and "::len" in (nz.ret_info.get(s, ("",))[0] or "")) or s.startswith("len:"):
                    if c[0] == "eq" and c[1][0] == "i":
                        cls = "==%d" % c[1][1]
                    elif c[0] in ("notin", "ival"):
                        cls = "other"
            tr = o.trace[n0:]
            reads = [e for e in tr if e[0] == "call" and "Index" in (e[2] or "") and e[3][0][0] == "ref" and len(e[3]) > 1 and e[3][1][0] in ("sym", "expr", "i")
                     and b.locals[e[4]]["ty"] == "&i32"]
            rows.setdefault(cls, []).append((o.kind, len(reads)))
        one = rows.get("==1", [])
        oth = rows.get("other", [])
        chk.ob("R06.2", "tag_candidates:single-candidate-no-slot", bool(one) and all(n == 0 for _, n in one), "a single-candidate category reads score slots in tag_candidates: %s" % one, site=C.site(b, ho), sample={"rows": str(rows)})
        chk.ob("R06.2", "tag_candidates:multi-candidates-one-slot-each", any(k == "backedge" and n == 1 for k, n in oth) or any(n == 1 for _, n in oth),
               "categories with != 1 candidates do not read exactly one score slot per candidate: %s" % oth, site=C.site(b, ho))
        # threshold constant must be exactly 1 (so that 0 and >= 2 candidates take the per-candidate loop)
        chk.ob("R06.2", "tag_candidates:threshold", set(rows) >= {"==1", "other"} and not any(k and k.startswith("==") and k != "==1" for k in rows), "candidate-count cases distinguished by tag_candidates: %s" % sorted(map(str, rows)), site=C.site(b))
    # TagTrainer::train_tag
    fn = "vaporetto::tag_trainer::TagTrainer::train_tag"
    b = C.body(w, fn)
    chk.fn(fn)
    # closure computing n_class: if len >= 2 {len} else {0}
    okc = False
    for k in C.closure_keys(w, fn):
        bs = w.bodies[k]
        if True:
            cb = bs[0]
            ci = absint.Interp(w, cb, models=effects.EXTRA_MODELS)
            res = set()
            for o in ci.run(0):
                if o.kind != "return":
                    continue
                nz = forms.Normalizer(ci, o)
                rv = o.value_at((("L", 0),))
                for s, c in o.cons.items():
                    if s.startswith("ret:") and "::len" in (nz.ret_info.get(s, ("",))[0] or "") and c[0] in ("ival", "eq"):
                        lo = c[1] if c[0] == "ival" else c[1][1]
                        hi_ = c[2] if c[0] == "ival" else c[1][1]
                        res.add((">=2" if lo is not None and lo >= 2 else "<=1" if hi_ is not None and hi_ <= 1 else "?", forms.show(nz.form(rv))))
            if res and {r[0] for r in res} == {">=2", "<=1"}:
                ge = [r[1] for r in res if r[0] == ">=2"]
                le = [r[1] for r in res if r[0] == "<=1"]
                if all("len(" in x for x in ge) and all(re.fullmatch(r"arg2|hv.*|.*arg2$", x) or "len(" not in x for x in le):
                    okc = True
                    chk.fn(cb.fn)
    if not okc:
        # second idiom: tags.iter().map(Vec::len).filter(|&n| n >= 2).sum()
        b_, it_, outs_ = C.run_fn(w, fn)
        for e, o in C.all_calls(outs_, lambda e_: (e_[2] or "").endswith("::sum")):
            atom = forms.Normalizer(it_, o).value_atom(e[3][0])
            m = re.search(r"Iterator::filter\(core::iter::traits::iterator::Iterator::map\(.*\('fn', 'alloc::vec::Vec::len'\)\), \('agg', 'closure:([^']+)', \(\)\)\)", atom)
            cb = w.body(m.group(1)) if m else None
            if cb is None:
                continue
            ci = absint.Interp(w, cb, models=effects.EXTRA_MODELS)
            tests = set()
            table_ = set()
            for x in ci.run(0):
                if x.kind != "return":
                    continue
                rv_ = ci.resolve(x, x.value_at((("L", 0),)))
                iv = [c for s_, c in x.cons.items() if c[0] == "ival" and "arg2" in s_]
                if rv_[0] == "b" and len(iv) == 1:
                    table_.add((rv_[1], iv[0][1], iv[0][2]))
                for s_, info in ci.op_info.items():
                    if info[0] in ("Ge", "Gt", "Le", "Lt"):
                        a_, b2 = info[1], info[2]
                        k_ = b2 if b2[0] == "i" else a_ if a_[0] == "i" else None
                        if k_ is not None:
                            tests.add((info[0] if b2[0] == "i" else {"Ge": "Le", "Gt": "Lt", "Le": "Ge", "Lt": "Gt"}[info[0]], k_[1]))
            if (tests and tests <= {("Ge", 2), ("Gt", 1)}) or table_ == {(True, 2, None), (False, None, 1)}:
                okc = True
    chk.ob("R06.2", "train_tag:n_class", okc, "train_tag does not size the score vector as sum over categories of (len if len >= 2 else 0)", site=C.site(b))
    # the training loop: categories with <= 1 tag are skipped and do not advance class_offset
    it = absint.Interp(w, b, models=effects.EXTRA_MODELS, summaries=C.summaries(w))
    cf, loops, outer, inner = _loops_nested(b)
    found = False
    for h in sorted(loops):
        t = b.blocks[h]["term"]
        if t["k"] != "call" or "Enumerate" not in (cfgmod.callee(t) or ""):
            continue
        if not any("build_model" in (cfgmod.callee(tt) or "") for bb in loops[h] for tt in [b.blocks[bb]["term"]] if tt["k"] == "call"):
            continue
        pre = [o for o in it.run(0, stop=[h]) if o.kind == "stop"]
        if not pre:
            continue
        outs = it.run(h, env=pre[0].env, cons=pre[0].cons, stop_at_entry_again=True, trace=pre[0].trace)
        n0 = len(pre[0].trace)
        rows = {}
        off_l = [l for l, n in b.names().items() if n == "class_offset"]
        for o in outs:
            if o.kind != "stop" or o.info != h:
                continue
            nz = forms.Normalizer(it, o)
            cls = None
            for s, c in o.cons.items():
                if s.startswith("ret:") and "::len" in (nz.ret_info.get(s, ("",))[0] or "") and c[0] in ("ival", "eq"):
                    lo = c[1] if c[0] == "ival" else c[1][1]
                    hi_ = c[2] if c[0] == "ival" else c[1][1]
                    cls = ">=2" if lo is not None and lo >= 2 else "<=1" if hi_ is not None and hi_ <= 1 else cls
            trained = any(e[0] == "call" and "build_model" in (e[2] or "") for e in o.trace[n0:])
            adv = None
            for l in it._loop_assigned_locals(h):
                if b.names().get(l) and b.locals[l]["ty"] == "usize":
                    v = o.value_at((("L", l),))
                    if v[0] == "expr" and v[1] == "Add" and "loop%d" % h in str(v[2]):
                        adv = forms.show(nz.form(v))
            rows.setdefault(cls, set()).add((trained, adv is not None and "len(" in adv))
        found = True
        chk.ob("R06.2", "train_tag:loop", rows.get(">=2") == {(True, True)} and rows.get("<=1") == {(False, False)},
               "train_tag trains/advances the class offset as %s (expected: >=2 tags -> trained and offset += len; <=1 -> skipped, offset unchanged)" % {k: sorted(v) for k, v in rows.items()},
               site=C.site(b, h), sample={"rows": str(rows)})
    chk.ob("R06.2", "train_tag:loop-found", found, "the per-category training loop of train_tag was not found", site=C.site(b))


STATE_WRITERS = {
    # who may write the automaton state vectors of a sentence: the tag scorer that prepares them for predict_tags, the (tag-less)
    # cache scorer that parks its window ids there, and the sentence's own reset paths.  Anything else between add_scores and
    # predict_tags invalidates the `pos < len` contract of the unchecked add_tag_scores
    "char_pma_states": ("vaporetto::char_scorer::boundary_tag_scorer::CharScorerBoundaryTag::add_scores",),
    "type_pma_states": ("vaporetto::type_scorer::boundary_tag_scorer::TypeScorerBoundaryTag::add_scores",
                        "vaporetto::type_scorer::boundary_scorer_cache::TypeScorerBoundaryCache::add_scores"),
}
SENTENCE_RESETTERS = ("set_default", "update_raw", "update_tokenized", "update_partial_annotation")


def r063_writers(chk, w):
    fw = C.field_writers(w, C.S, list(STATE_WRITERS))
    for f, allowed in STATE_WRITERS.items():
        ok_fns = set(allowed) | {C.S + "::" + m for m in SENTENCE_RESETTERS}
        extra = sorted(set(fw[f]) - ok_fns)
        chk.ob("R06.3", "writers:%s" % f, not extra and bool(fw[f]),
               "Sentence.%s is written (mutable borrow / assignment / move) in %s; only %s and the sentence's own reset paths may touch it: the tag scorers read it unchecked from the positions "
               "prepared by add_scores" % (f, extra, [a.split("::")[-2] + "::add_scores" for a in allowed]), sample={"field": f, "writers": sorted(fw[f])})


def r063(chk, w):
    r063_writers(chk, w)
    for owner, field, kind in TAGSCORERS:
        fn = owner + "::add_scores"
        b, it, outs = C.run_fn(w, fn)
        chk.fn(fn)
        fp = C.fpath(2, field)
        good = 0
        for o in outs:
            if o.kind != "return":
                continue
            ev = list(o.trace)
            cl = [k for k, e in enumerate(ev) if e[0] == "clear" and e[2] == fp]
            rs = [k for k, e in enumerate(ev) if e[0] == "call" and e[2] == "alloc::vec::Vec::resize" and e[3][0] == ("ref", fp)]
            fi = [k for k, e in enumerate(ev) if e[0] == "call" and (e[2] or "").startswith("daachorse::") and "::find" in e[2]]
            ok = len(cl) == 1 and len(rs) == 1 and fi and cl[0] < rs[0] < fi[0]
            if ok:
                nz = forms.Normalizer(it, o)
                e = ev[rs[0]]
                ok = C.show_arg(nz, e[3][1]) == C.S + "::len(&arg2)" and e[3][2] == absint.I(4294967295)
            good += 1 if ok else 0
            chk.ob("R06.3", "%s:states-prepared" % owner.split("::")[-1], bool(ok),
                   "%s::add_scores does not clear and resize %s to len() with the u32::MAX sentinel before matching: states of a previous text survive" % (owner, field), site=C.site(b))
        # add_tag_scores reads the same vector from `pos`
        fn2 = owner + "::add_tag_scores"
        b2, it2, outs2 = C.run_fn(w, fn2)
        chk.fn(fn2)
        reads = [e for e, o in C.all_calls(outs2, lambda e: (e[2] or "").endswith("get_unchecked") and e[3][0][0] == "ref" and absint._coll_path(e[3][0])[:2] == C.fpath(4, field))]
        okr = len(reads) == 1 and reads[0][3][1][0] == "agg" and "RangeFrom" in reads[0][3][1][1] and dict(reads[0][3][1][2]).get("start") == absint.SYM("arg3")
        chk.ob("R06.3", "%s:reads-states-from-pos" % owner.split("::")[-1], okr, "%s::add_tag_scores does not read %s[pos..]" % (owner, field), site=C.site(b2))
    # predict_tags: call shape (twins T14)
    fn = C.P + "::predict_tags"
    b, it, outs = C.run_fn(w, fn)
    chk.fn(fn)
    calls = {}
    wr = set()
    ENUM = re.compile(r"<core::iter::adapters::enumerate::Enumerate as core::iter::traits::iterator::Iterator>::next\(&_\d+\)@Some\.0\.0")
    for e, o in C.all_calls(outs):
        nm = e[2] or ""
        nz = forms.Normalizer(it, o, rename=lambda s_: ENUM.sub("i", s_).replace(C.S + "::len(&arg2)", "LEN").replace("arg1.data.n_tags", "n"))
        if nm.endswith("Scorer::add_tag_scores"):
            kind = "char" if "char_scorer" in nm else "type"
            calls.setdefault(kind, set()).add(C.show_arg(nz, e[3][2]))
        if "IndexMut" in nm and e[3][0][0] == "ref" and absint._coll_path(e[3][0]) == C.fpath(2, "tags") and e[3][1][0] == "agg":
            wr.add(C.show_arg(nz, e[3][1]))
    for kind in ("char", "type"):
        got = calls.get(kind, set())
        canon = set(got)
        chk.ob("R06.3", "predict_tags:%s-positions(T14)" % kind, canon == {"i", "-1 + LEN"},
               "predict_tags calls the %s tag scorer with positions %s; expected the boundary index i inside the loop and len()-1 for the final token" % (kind, sorted(canon)), site=C.site(b),
               sample={"kind": kind, "positions": sorted(canon)})
    canon_w = set(wr)
    want_w = {"Range{start: i*n, end: n + i*n}", "RangeFrom{start: -n + LEN*n}"}
    chk.ob("R06.3", "predict_tags:tag-slots", canon_w == want_w, "predict_tags writes tag slots %s; expected tags[i*n .. (i+1)*n] and tags[(len-1)*n ..]" % sorted(canon_w), site=C.site(b), sample={"slots": sorted(canon_w)})


def r064(chk, w):
    """E9: index derived from the decoded model field TagWeight.rel_position"""
    n = 0
    for owner, field, kind in TAGSCORERS:
        fn = owner + "::new"
        b = C.body(w, fn)
        chk.fn(fn)
        SRC = "vaporetto::ngram_model::TagWeight.rel_position"
        for bb, t in cfgmod.calls(b):
            nm = cfgmod.callee(t) or ""
            if "Index" not in nm or len(t["args"]) < 2:
                continue
            a = t["args"][1]
            p = a.get("move") or a.get("copy")
            if not p:
                continue
            callees, fields, params = C.backward_slice(b, p["local"])
            tainted = SRC in fields or any("HashMap" in c and "into_iter" in c.lower() for c in callees) and any("tag_info" in f for f in fields)
            if not (SRC in fields or any(f.endswith("PositionalWeightWithTag.tag_info") for f in fields)):
                continue
            # container and its size
            c0 = t["args"][0]
            pc = c0.get("move") or c0.get("copy")
            cc, cf_, _ = C.backward_slice(b, pc["local"])
            n += 1
            # sanitiser (b): some from_elem sizing this container depends on the same source field
            sized_from_src = False
            sizes = []
            for bb2, t2 in cfgmod.calls(b):
                if (cfgmod.callee(t2) or "").endswith("from_elem"):
                    pa = t2["args"][1].get("move") or t2["args"][1].get("copy")
                    if pa:
                        c2, f2, _ = C.backward_slice(b, pa["local"], w=w)
                        sizes.append(sorted(f2))
                        if SRC in f2:
                            sized_from_src = True
            # sanitiser (a): a comparison of the index (or its source) dominating the use
            guarded = False
            cfg_ = cfgmod.cfg_of(b)
            for bb3 in cfg_.blocks:
                for s in b.blocks[bb3]["stmts"]:
                    if s["k"] == "assign" and s["rv"]["k"] == "bin" and s["rv"]["op"] in ("Lt", "Le", "Gt", "Ge"):
                        for opnd in (s["rv"]["a"], s["rv"]["b"]):
                            pp = opnd.get("move") or opnd.get("copy")
                            if pp:
                                _, f3, _ = C.backward_slice(b, pp["local"])
                                if SRC in f3 and cfg_.dominates(bb3, bb):
                                    guarded = True
            ok = sized_from_src or guarded
            chk.ob("R06.4", "%s::new:rel_position-index" % owner.split("::")[-1], ok,
                   "%s::new indexes a vector with `rel_position`, a value decoded from the model file (up to the tag n-gram size), while the rows are sized window_size+1 "
                   "and nothing compares the two: a model whose tag n-grams reach further than the window (e.g. trained with n-gram size > window) makes Predictor::new panic" % owner,
                   site=C.site(b, bb), sample={"fn": fn, "sizes_depend_on": sizes[:3]})
    chk.floor("R06.4", "model-derived indexes", n, 2)


def r066(chk, w):
    fn = C.P + "::predict_tags"
    b, it, outs = C.run_fn(w, fn)
    ts = C.fpath(2, "tag_scores")
    n = 0
    for o in outs:
        if o.kind != "return":
            continue
        flag = o.cons.get("m:arg1.tag_scores")
        fv = flag[1][1] if flag and flag[0] == "eq" else None
        ev = list(o.trace)
        cl = [k for k, e in enumerate(ev) if e[0] == "clear" and e[2] == ts]
        rs = [k for k, e in enumerate(ev) if e[0] == "call" and e[2] == "alloc::vec::Vec::resize" and e[3][0] == ("ref", ts)]
        nz = forms.Normalizer(it, o)
        n += 1
        if fv is True:
            ok = bool(cl) and len(rs) == 1 and cl[0] < rs[0] and C.show_arg(nz, ev[rs[0]][3][1]) == C.S + "::len(&arg2)"
            why = "with score storing enabled a return path of predict_tags does not clear and resize tag_scores to len(): Token::tag_candidates() then fails its precondition (or reports stale scores)"
        elif fv is False:
            ok = bool(cl) and not rs
            why = "with score storing disabled a return path of predict_tags leaves earlier tag scores in place"
        else:
            ok = False
            why = ("a return path of predict_tags never looks at the score-storing flag: the tag score storage is neither cleared nor prepared "
                   "(early return for predictors without tag models)")
        chk.ob("R06.6", "predict_tags:tag_scores(store=%s)" % fv, ok, why, site=C.site(b), sample={"store_flag": fv, "clears": len(cl), "resizes": len(rs)} if n <= 3 else None)
    chk.floor("R06.6", "return paths", n, 3)


def r067(chk, w):
    """tag weight vectors enter the suffix merger unchanged: PositionalWeightWithTag::add_assign adds the vectors of a pattern
    and of its suffixes element by element over the common prefix (zip), which is the whole vector only if every vector of a
    (token, position) key has the full class count.  with_tag must therefore store exactly its argument under exactly the
    (token, position) key it was given."""
    chk.rule("R06.7", "tag weight vectors enter the suffix merger unchanged (full class count)")
    fn = "vaporetto::predictor::PositionalWeightWithTag::with_tag"
    if w.body(fn) is None:
        if chk.config == "W":
            chk.undecided("R06.7", "with_tag", "%s not found" % fn)
        return
    b, it, outs = C.run_fn(w, fn)
    chk.fn(fn)
    rows = set()
    for o in outs:
        if o.kind != "return":
            rows.add((o.kind, str(o.info)[:60]))
            continue
        ins = [e for e in o.trace if e[0] == "call" and (e[2] or "").endswith("HashMap::insert")]
        other = [e[2] for e in o.trace if e[0] == "call" and not (e[2] or "").endswith("HashMap::insert") and not (e[2] or "").endswith("HashMap::new")
                 and not (e[2] or "").endswith("::default")]
        for e in ins:
            k, v = e[3][1], e[3][2]
            key_ok = k[0] == "agg" and dict(k[2]).get("0") == absint.SYM("arg1") and dict(k[2]).get("1") == absint.SYM("arg2")
            rows.add(("insert", "key=(token_id, rel_position)" if key_ok else "key=%s" % (k,), "value=tag_weight" if v == absint.SYM("arg3") else "value=%s" % (v,), tuple(sorted(set(other)))))
    want = {("insert", "key=(token_id, rel_position)", "value=tag_weight", ())}
    chk.ob("R06.7", "with_tag:stores-argument-unchanged", rows == want,
           "PositionalWeightWithTag::with_tag derives %s; expected a single insert of the unmodified weight vector under (token_id, rel_position) and no other computation: "
           "a shortened / transformed vector loses classes when the weights of a suffix n-gram are zipped onto it" % sorted(rows, key=str), site=C.site(b), sample={"rows": sorted(map(str, rows))})


def r068(chk, w):
    """the scorer variant that can score tags is chosen whenever the predictor has tag models.  Predictor::new hands one
    (possibly empty) tag n-gram model per tag model to CharScorer::new / TypeScorer::new; predict_tags calls add_tag_scores on
    every existing scorer as soon as a token has a tag model, and the boundary-only variants answer that call with
    panic!("unsupported").  So the boundary-only variants may be chosen only when the vector of tag n-gram models is empty."""
    import re as _re
    chk.rule("R06.8", "boundary-only scorer variants are chosen only when there is no tag model at all")
    n = 0
    for fn in ("vaporetto::char_scorer::CharScorer::new", "vaporetto::type_scorer::TypeScorer::new"):
        b = w.body(fn)
        if b is None:
            if chk.config == "W":
                chk.undecided("R06.8", "%s:anchor" % fn.split("::")[-2], "%s not found" % fn)
            continue
        tagp = [i for i in range(1, b.arg_count + 1) if "TagNgramModel" in b.locals[i]["ty"]]
        if not tagp:
            continue   # configuration without tag prediction
        chk.fn(fn)
        it = absint.Interp(w, b, models=effects.EXTRA_MODELS, summaries=C.summaries(w))
        rows = {}
        for o in it.run(0):
            if o.kind != "return":
                continue
            v = o.value_at((("L", 0),))
            # the scorer variant constructed on this path: the call <Variant>::new
            ctor = [e[2] for e in o.trace if e[0] == "call" and _re.search(r"(Char|Type)ScorerBoundary\w*::new$", e[2] or "")]
            if not ctor:
                continue
            kind = "tag" if "Tag" in ctor[-1].split("::")[-2] else "boundary-only"
            dec = "?"
            for e in o.trace:
                if e[0] == "call" and (e[2] or "").endswith("Vec::is_empty") and e[3] and e[3][0][0] == "ref" and e[3][0][1] == (("L", tagp[0]),) or \
                        (e[0] == "call" and (e[2] or "").endswith("Vec::is_empty") and e[3] and e[3][0][0] == "ref" and e[3][0][1] == (("A", tagp[0]),)):
                    r = e[5] if len(e) > 5 and e[5] is not None else None
                    dec = {True: "empty", False: "non-empty"}.get(r[1] if r and r[0] == "b" else None, "?")
            rows.setdefault(kind, set()).add(dec)
        n += len(rows)
        short = fn.split("::")[-2]
        chk.ob("R06.8", "%s:variant-by-tag-model-count" % short, rows == {"tag": {"non-empty"}, "boundary-only": {"empty"}},
               "%s chooses the scorer variant as %s (decision = emptiness of the tag n-gram model vector); expected the tag-capable variant iff that vector is non-empty: "
               "a boundary-only scorer in a predictor with tag models panics (\"unsupported\") in fill_tags" % (fn, {k: sorted(v) for k, v in rows.items()}),
               site=C.site(b), sample={"ctor": short, "rows": {k: sorted(v) for k, v in rows.items()}})
    chk.floor("R06.8", "variant rows", n, 4, other=0)
