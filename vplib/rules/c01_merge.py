"""R01.10: suffix merge of the weight tables (CharWeightMerger::merge / TypeWeightMerger::merge).

The automaton reports only the longest pattern ending at a position, so the weights of every pattern that is a suffix of a
longer one are folded into the longer one beforehand.  A pattern's accumulated weight must be folded into each longer
pattern exactly once: the `merged` mark of an entry says "this entry already contains all its suffixes".  Necessary
discipline, derived from the MIR: the entry popped first from the chain is marked before the fold loop, and every
iteration of the fold loop marks the entry it adds into (same entry as the `+=` target).  An entry that received weights
but is left unmarked is folded again when the outer loop reaches it (its suffixes are then counted twice)."""
from .. import absint, cfg as cfgmod, effects
from . import common as C

MERGERS = ("vaporetto::char_scorer::CharWeightMerger::merge", "vaporetto::type_scorer::TypeWeightMerger::merge")


def run(chk, w):
    chk.rule("R01.10", "suffix merge: every entry that accumulates weights is marked as merged in the same step")
    n = 0
    for fn in MERGERS:
        b = w.body(fn)
        if b is None:
            chk.undecided("R01.10", "%s:anchor" % fn.split("::")[-2], "%s not found" % fn)
            continue
        chk.fn(fn)
        short = fn.split("::")[-2]
        cf = cfgmod.cfg_of(b)
        loops = cf.natural_loops()
        it = absint.Interp(w, b, models=effects.EXTRA_MODELS, summaries=C.summaries(w))
        it.trace_deref_stores = True
        heads = [h for h in loops if b.blocks[h]["term"]["k"] == "call" and (cfgmod.callee(b.blocks[h]["term"]) or "").endswith("Vec::pop")]
        if len(heads) != 1:
            chk.undecided("R01.10", "%s:fold-loop" % short, "expected one fold loop (while let Some(..) = stack.pop()), found %d" % len(heads), site=C.site(b))
            continue
        h = heads[0]
        pre = [o for o in it.run(0, stop=[h]) if o.kind == "stop"]
        if not pre:
            chk.undecided("R01.10", "%s:fold-loop" % short, "fold loop not reachable", site=C.site(b, h))
            continue

        def marks(tr):
            return [e for e in tr if e[0] == "store" and e[3] == absint.B(True) and e[2] and e[2][-1] == ("f", "1")]
        # (a) the first popped entry is marked before the loop: after the last pop().unwrap() that precedes the loop
        first_ok = True
        for p0 in pre:
            pops = [k for k, e in enumerate(p0.trace) if e[0] == "call" and (e[2] or "").endswith("Vec::pop")]
            first_ok = first_ok and bool(pops) and bool(marks(p0.trace[pops[-1]:]))
        rows = set()
        n0 = len(pre[0].trace)
        for o in it.run(h, stop=set(cf.blocks) - loops[h], env=pre[0].env, cons=pre[0].cons, stop_at_entry_again=True, trace=pre[0].trace):
            item = o.cons.get("ret:%d" % h)
            if not item or item[2] != "Some" or o.kind != "stop" or o.info != h:
                continue
            tr = o.trace[n0:]
            mk = marks(tr)
            adds = [e for e in tr if e[0] == "call" and (e[2] or "").endswith("AddAssign::add_assign") or (e[0] == "call" and "AddAssign" in (e[2] or ""))]
            same = bool(mk) and bool(adds) and adds[0][3][0][0] == "ref" and adds[0][3][0][1][:1] == mk[0][2][:1]
            rows.add((len(mk), len(adds), same))
        n += 1
        chk.ob("R01.10", "%s:first-entry-marked" % short, first_ok,
               "%s does not mark the entry popped first from the suffix chain as merged before folding" % fn, site=C.site(b, h))
        chk.ob("R01.10", "%s:fold-step-marks-target" % short, rows == {(1, 1, True)},
               "a step of the fold loop of %s does (marks, additions, mark on the addition's target) = %s; expected exactly one `+=` into the popped entry and that entry marked as merged "
               "in the same step: an unmarked entry that already contains its suffixes is folded again later and those suffixes count twice" % (fn, sorted(rows)),
               site=C.site(b, h), sample={"merger": short, "rows": sorted(map(str, rows))})
    chk.floor("R01.10", "mergers", n, 2, other=2)
