"""C14 - A serialised predictor behaves exactly like the original."""
import re

from .. import facts, absint, forms, cfg as cfgmod, effects, witness
from . import common as C
from . import c07

EXPLANATION = (
    "R14.1 codec field sequences (E8a): for every hand-written Encode/Decode pair of the predictor (WeightVector, "
    "PredictorData, the four automaton scorers, SerializableHashMap) the ordered list of (wire type, source field) written by "
    "encode on each path equals the ordered list of (wire type, target field) read by decode (Vec<u8> and &[u8] are the same "
    "wire type; Option nesting must agree); the remaining predictor types derive both sides with the derive macro. "
    "R14.2: an automaton is written with serialize() and read with deserialize_unchecked() of the same automaton type, and the "
    "bytes decoded are the bytes encoded for that field. R14.3: deserialize_from_slice_unchecked returns &data[size..] with size "
    "the decoder's consumed count. R14.4: a fixed-length weight vector is encoded as its zero-trimmed Vec<i32> and every decode "
    "goes through From<Vec<i32>>. R14.5 = R07.2 (single bincode configuration). R14.6 witness: deserialising outside `unsafe` "
    "does not compile (E0133)."
)
THOROUGH_CONFIGS = [C.NO_CHARWISE, C.NO_CACHE, C.NO_FIX, C.NO_TAG, C.MINIMAL, C.SIMD]
QUICK_CONFIGS = [C.NO_FIX, C.NO_CHARWISE, C.NO_CACHE, C.NO_TAG, C.MINIMAL]
NOT_DECIDED = ["behavioural equality of the deserialised predictor (values)", "daachorse's serialize/deserialize_unchecked contract"]

PAIRS = [
    "vaporetto::predictor::WeightVector",
    "vaporetto::predictor::PredictorData",
    "vaporetto::char_scorer::boundary_scorer::CharScorerBoundary",
    "vaporetto::char_scorer::boundary_tag_scorer::CharScorerBoundaryTag",
    "vaporetto::type_scorer::boundary_scorer::TypeScorerBoundary",
    "vaporetto::type_scorer::boundary_tag_scorer::TypeScorerBoundaryTag",
    "vaporetto::utils::SerializableHashMap",
]
DERIVED = ["vaporetto::predictor::PositionalWeight", "vaporetto::predictor::TagPredictor", "vaporetto::char_scorer::CharScorer",
           "vaporetto::type_scorer::TypeScorer", "vaporetto::type_scorer::boundary_scorer_cache::TypeScorerBoundaryCache"]


def norm_ty(g):
    """first generic argument of an encode/decode call, normalised to its wire type"""
    g = g.strip()
    if g.startswith("[") and g.endswith("]"):
        g = g[1:-1]
    # cut at the top-level comma
    depth = 0
    out = ""
    for ch in g:
        if ch in "<([":
            depth += 1
        if ch in ">)]":
            depth -= 1
        if ch == "," and depth == 0:
            break
        out += ch
    t = out.strip()
    t = re.sub(r"&'\{erased\} |&'[a-z_]+ |&", "", t)
    t = t.replace(", std::alloc::Global", "")
    t = C.tyn(t).replace(", S::alloc::Global", "")
    t = t.replace("S::vec::Vec<u8>", "bytes").replace("[u8]", "bytes")
    t = re.sub(r"S::vec::Vec<(.*)>", r"seq<\1>", t)
    # a type parameter of an (inlined) generic helper: `T/#0` in the writer's helper and `T/#1` in the reader's are the same unknown
    t = re.sub(r"\b([A-Z]\w*)/#\d+", r"\1", t)
    # a slice is written exactly like a Vec of the same element type (length prefix + elements)
    t = re.sub(r"^\[(.*)\]$", r"seq<\1>", t)
    return t


def wire_events(it, b, o, side, from_idx=0):
    """ordered wire-level events of one path: (bb, wire type, call event)"""
    out = []
    for e in o.trace[from_idx:]:
        if e[0] != "call" or not e[2]:
            continue
        nm = e[2]
        t = b.blocks[e[1]]["term"]
        g = t["callee"].get("generic", "")
        if side == "enc" and (nm.endswith("Encode>::encode") or nm == "bincode::enc::Encode::encode"):
            out.append((e[1], norm_ty(g), e))
        elif side == "enc" and nm.endswith("encode_to_vec"):
            out.append((e[1], "nested:" + norm_ty(g), e))
        elif side == "dec" and (nm.endswith("::decode") or nm.endswith("::borrow_decode")) and ("Decode" in nm):
            out.append((e[1], norm_ty(g), e))
        elif side == "dec" and nm.endswith("borrow_decode_from_slice"):
            m = re.match(r"\['\{erased\}, (.*)", g)
            out.append((e[1], "nested:" + norm_ty(m.group(1) if m else g), e))
    return out


def source_field(it, o, v, depth=0):
    """name of the field of `self` (arg1) a value / reference is derived from"""
    nz = forms.Normalizer(it, o)
    if v[0] == "var" and v[3] and depth < 4 and not (len(v[3]) == 2 and v[3][0] == "symp"):
        return source_field(it, o, v[3][0], depth + 1)
    if v[0] == "var" and v[2] == "None":
        return "None"
    s = nz.value_atom(v) if v[0] != "ref" else "&" + nz.path_atom(v[1])
    if v[0] == "ref" and v[1][0][0] == "L" and depth < 3:
        inner = it.resolve(o, it._read(o, v[1]))
        return source_field(it, o, inner, depth + 1)
    m = re.findall(r"arg1\.([A-Za-z_0-9]+)", s)
    return m[0] if m else s[:60]


def run(chk):
    w = C.world_for(chk)
    from . import ctors as _ctors
    _ctors.accessors(chk, w, only=["vaporetto::utils"])
    for rid, txt in (("R14.1", "encode/decode sequences agree"), ("R14.2", "automaton serialize <-> deserialize_unchecked"), ("R14.3", "remainder slice"),
                     ("R14.4", "fixed weight vectors"), ("R07.2", "single bincode configuration (shared with C07)"), ("R14.6", "unsafe witness")):
        chk.rule(rid, txt)
    n_pairs = pairs(chk, w)
    chk.floor("R14.1", "hand-written codec pairs", n_pairs, 7, other=5)
    rest(chk, w)


def pairs(chk, w):
    """R14.1 / R14.2 for every hand-written codec pair (also run by C18: the unchecked indexing of a restored predictor relies
    on the restored tables being the ones that were written)"""
    n_pairs = 0
    for adt in PAIRS:
        if chk.config != "W" and w.adt(adt) is None:
            continue   # type not part of this configuration
        enc, ei = C.impl_fn(w, adt, "bincode::enc::Encode", "encode")
        dec, di = C.impl_fn(w, adt, "bincode::de::Decode", "decode", hand_written=True)
        if dec is None:
            dec, di = C.impl_fn(w, adt, "bincode::de::BorrowDecode", "borrow_decode", hand_written=True)
        short = adt.split("::")[-1]
        if enc is None or dec is None:
            chk.undecided("R14.1", "%s:impls" % short, "hand-written Encode/Decode impls not found (enc=%s dec=%s)" % (enc, dec))
            continue
        if ei.get("derive") or di.get("derive"):
            chk.ob("R14.1", "%s:both-hand-written" % short, False, "one side of %s's codec is derived (%s/%s) and the other hand-written" % (adt, ei.get("derive"), di.get("derive")))
            continue
        n_pairs += 1
        be, ite, oe = C.run_fn(w, enc)
        bd, itd, od = C.run_fn(w, dec)
        chk.fn(enc, dec)
        def seqs(it, b, outs, side):
            full, loop = set(), set()
            for o in outs:
                if o.kind == "return" and effects.ret_class(o.value_at((("L", 0),))) in ("Ok", "any"):
                    full.add(tuple((ty, (source_field(it, o, ev[3][0]) if side == "enc" else None)) for _, ty, ev in wire_events(it, b, o, side)))
                elif o.kind == "backedge":
                    # events of the last loop iteration only: after the last `next` call of the loop header
                    k0 = max([k for k, e in enumerate(o.trace) if e[0] == "call" and e[1] == o.info] or [0])
                    loop.add(tuple(ty for _, ty, ev in wire_events(it, b, o, side, k0)))
            return full, loop
        fe, le = seqs(ite, be, oe, "enc")
        fd, ld = seqs(itd, bd, od, "dec")

        def canon_nested(s):
            s = list(s)
            i = 0
            while i + 1 < len(s):
                if s[i][0].startswith("nested:") and s[i + 1][0].endswith("Option<bytes>"):
                    s[i], s[i + 1] = s[i + 1], (s[i][0], s[i + 1][1] if s[i][1] is None else s[i][1])
                    i += 2
                else:
                    i += 1
            return tuple(s)
        fe = {canon_nested(s) for s in fe}
        te = {tuple(t for t, _ in s) for s in fe}
        td = {tuple(t for t, _ in s) for s in fd}
        chk.ob("R14.1", "%s:type-sequences" % short, te == td and bool(te),
               "%s writes the wire sequences %s but reads %s" % (adt, sorted(te), sorted(td)), site=C.site(be), sample={"type": adt, "encode": sorted(map(list, te)), "decode": sorted(map(list, td))})
        le2 = {s for s in le if s}
        ld2 = {s for s in ld if s}
        if le2 or ld2:
            chk.ob("R14.1", "%s:loop-sequences" % short, le2 == ld2, "%s writes per element %s but reads %s" % (adt, sorted(le2), sorted(ld2)), site=C.site(be))
        # field order: i-th encoded field is the field that receives the i-th decode
        for o in od:
            if o.kind != "return":
                continue
            rv = o.value_at((("L", 0),))
            if not (rv[0] == "var" and rv[2] == "Ok" and rv[3] and rv[3][0][0] == "agg"):
                continue
            agg = rv[3][0]
            evs = wire_events(itd, bd, o, "dec")
            order = []
            def mentions(s, names):
                return any(re.search(r"(?<![0-9A-Za-z])%s(?![0-9])" % re.escape(n), s) for n in names)
            for bb, ty, ev in evs:
                tgt = None
                src = itd.unwrap_src
                closure = {"ret:%d" % bb}
                for _ in range(5):
                    for k, v in src.items():
                        if v[0] == "sym" and v[1] in closure:
                            closure.add(k)
                    for e2 in o.trace:
                        # value-transforming calls only: the FIRST argument is derived from the decoded value
                        if e2[0] == "call" and e2[3] and not (e2[2] or "").endswith("::decode") and not (e2[2] or "").endswith("::borrow_decode") and mentions(str(e2[3][0]), closure):
                            closure.add("ret:%d" % e2[1])
                for fname, fv in agg[2]:
                    if mentions(str(fv), closure):
                        tgt = fname
                order.append(tgt)
            enc_orders = {tuple(f for _, f in s) for s in fe}
            if len(agg[2]) == 1:
                break
            # nested payloads are decoded into the same field as their length-prefixed byte wrapper
            ok = any(len(eo) == len(order) and all(a == b_ or (b_ is None and a in ("None",)) for a, b_ in zip(eo, order)) for eo in enc_orders)
            chk.ob("R14.1", "%s:field-order" % short, ok, "%s encodes fields in order %s but decodes into %s" % (adt, sorted(enc_orders), order), site=C.site(bd),
                   sample={"encode_order": sorted(map(list, enc_orders)), "decode_targets": order})
            break
        # ---- R14.2 automata
        ser = [(e, o) for e, o in C.all_calls(oe, lambda e: (e[2] or "").startswith("daachorse::") and e[2].endswith("::serialize"))]
        des = [(e, o) for e, o in C.all_calls(od, lambda e: (e[2] or "").startswith("daachorse::") and e[2].endswith("::deserialize_unchecked"))]
        if ser or des:
            st = {e[2].rsplit("::", 1)[0] for e, _ in ser}
            dt = {e[2].rsplit("::", 1)[0] for e, _ in des}
            chk.ob("R14.2", "%s:same-automaton-type" % short, st == dt and len(st) == 1, "%s serialises %s but deserialises %s" % (adt, sorted(st), sorted(dt)), site=C.site(bd), sample={"type": sorted(st)})
            # the bytes handed to deserialize_unchecked are the first decoded bytes
            okb = False
            for e, o in des:
                nz = forms.Normalizer(itd, o)
                okb = okb or "borrow_decode" in nz.value_atom(e[3][0]) or "borrow_decode" in C.show_arg(nz, e[3][0])
            chk.ob("R14.2", "%s:deserialises-decoded-bytes" % short, okb, "deserialize_unchecked is not applied to the byte slice decoded from the stream", site=C.site(bd))
    return n_pairs


def rest(chk, w):
    c = w.crates["vaporetto"]
    for adt in DERIVED:
        if chk.config != "W" and w.adt(adt) is None:
            continue
        enc = [i for i in c.impls if i["self_adt"] == adt and i["trait"] == "bincode::enc::Encode"]
        dec = [i for i in c.impls if i["self_adt"] == adt and i["trait"] in ("bincode::de::Decode", "bincode::de::BorrowDecode") and i.get("derive") in ("Decode", "BorrowDecode")]
        ok = len(enc) == 1 and enc[0].get("derive") == "Encode" and len(dec) >= 1
        chk.ob("R14.1", "%s:derived-both" % adt.split("::")[-1], ok, "%s is not encoded and decoded by derived impls (Encode: %s, Decode: %s)" % (adt, [i.get("derive") for i in enc], [i.get("derive") for i in dec]))

    # ---- R14.3
    fn = C.P + "::deserialize_from_slice_unchecked"
    b, it, outs = C.run_fn(w, fn)
    chk.fn(fn)
    rem = set()
    for o in outs:
        if o.kind != "return":
            continue
        nz = forms.Normalizer(it, o)
        for e in o.trace:
            if e[0] == "call" and "Index" in (e[2] or "") and len(e[3]) > 1 and e[3][1][0] == "agg" and "RangeFrom" in e[3][1][1] and e[3][0] == ("ref", (("A", 1),)):
                rem.add(C.show_arg(nz, dict(e[3][1][2])["start"]))
    chk.ob("R14.3", "remainder", len(rem) == 1 and re.fullmatch(r"bincode::borrow_decode_from_slice\(&arg1, bincode::config::standard\(\)\)@Ok\.0\.1", list(rem)[0]) is not None,
           "deserialize_from_slice_unchecked returns data[%s..]; expected the decoder's consumed size" % sorted(rem), site=C.site(b), sample={"start": sorted(rem)})
    # ---- R14.4
    enc, _ = C.impl_fn(w, "vaporetto::predictor::WeightVector", "bincode::enc::Encode", "encode")
    be, ite, oe = C.run_fn(w, enc)
    rows = {}
    for o in oe:
        if o.kind != "return":
            continue
        var = [c[2] for s, c in o.cons.items() if c[0] == "varis" and c[1].endswith("WeightVector")]
        wv = w.adt("vaporetto::predictor::WeightVector")
        if not var and wv and len(wv["variants"]) == 1:
            var = [wv["variants"][0]["name"]]
        nz = forms.Normalizer(ite, o)
        for _, ty, ev in wire_events(ite, be, o, "enc"):
            a = ev[3][0]
            v = ite.resolve(o, ite._read(o, a[1])) if a[0] == "ref" else a
            rows[var[0] if var else "?"] = (ty, nz.value_atom(v) if v[0] != "ref" else "&" + nz.path_atom(v[1]))
    fx = rows.get("Fixed")
    has_fixed = any(v["name"] == "Fixed" for v in w.adt("vaporetto::predictor::WeightVector")["variants"])
    if has_fixed or chk.config == "W":
      chk.ob("R14.4", "fixed:trimmed-vec", fx is not None and fx[0] == "seq<i32>" and "trim_end_zeros" in fx[1], "a Fixed weight vector is encoded as %s; expected trim_end_zeros(w) (as a Vec or a slice)" % (fx,), site=C.site(be), sample={"rows": {k: list(v) for k, v in rows.items()}})
      trim_table(chk, w)
      from_table(chk, w)
    vr = rows.get("Variable")
    # a Variable vector is written as it is: its length is part of its behaviour (score buffer sizes), and nothing pads it on reading
    chk.ob("R14.4", "variable:vec", vr is not None and vr[0] == "seq<i32>" and "arg1@Variable.0" in vr[1] and "trim_end_zeros" not in vr[1] and "(" not in vr[1].replace("(&", ""),
           "a Variable weight vector is encoded as %s; expected the vector itself (untrimmed, unconverted)" % (vr,), site=C.site(be))
    dec, _ = C.impl_fn(w, "vaporetto::predictor::WeightVector", "bincode::de::Decode", "decode", hand_written=True)
    bd, itd, od = C.run_fn(w, dec)
    okfrom = False
    for o in od:
        if o.kind == "return" and effects.ret_class(o.value_at((("L", 0),))) in ("Ok", "any"):
            okfrom = any(e[0] == "call" and re.search(r"WeightVector as core::convert::From<alloc::vec::Vec(<i32>)?>>::from$", e[2] or "") is not None for e in o.trace)
    chk.ob("R14.4", "decode-through-From<Vec<i32>>", okfrom, "WeightVector::decode does not build the value through From<Vec<i32>> (which zero-fills fixed vectors)", site=C.site(bd))
    # ---- R14.5 / R14.6
    with chk.only(rules={"R07.2"}, keys=lambda k: "model::Model" not in k):   # the model file is C07's business
        c07.r072(chk, w)
    if chk.config == "W":
        witness.check(chk, "R14.6", "W146UnsafeDeserialize", 1, 1, "Predictor::deserialize_from_slice_unchecked must be an unsafe fn (E0133)")


def trim_table(chk, w):
    """trim_end_zeros may only drop zeros from the END of the slice: the decoder pads with zeros at the end, so anything else
    that is cut changes the restored weights.  Decision table of one step of its loop, derived from the MIR:
    (slice empty) -> return the slice; (last element != 0) -> return the slice unchanged; (last element == 0) -> continue
    with the slice without its last element."""
    fn = "vaporetto::utils::trim_end_zeros"
    b = w.body(fn)
    if b is None:
        chk.undecided("R14.4", "trim:anchor", "%s not found although a Fixed weight vector is encoded through it" % fn)
        return
    chk.fn(fn)
    cf = cfgmod.cfg_of(b)
    loops = cf.natural_loops()
    it = absint.Interp(w, b, models=effects.EXTRA_MODELS, summaries=C.summaries(w))
    rows = set()
    has_split_last = any((cfgmod.callee(t_) or "").endswith("split_last") for _, t_ in cfgmod.calls(b))
    if len(loops) == 1 and not has_split_last:
        ok, rows = _trim_countdown(w, b, cf, it, list(loops)[0])
    elif len(loops) == 1:
        h = list(loops)[0]
        pre = [o for o in it.run(0, stop=[h]) if o.kind == "stop"]
        entry_ok = bool(pre) and pre[0].value_at((("L", 1),)) in (absint.SYM("arg1"), ("ref", (("A", 1),)))
        outs = it.run(h, env=pre[0].env, cons=pre[0].cons, stop_at_entry_again=True, trace=pre[0].trace, invariant=True) if pre else []
        cur = absint.SYM("hv:loop%d:_1" % h)
        for o in outs:
            split = [e for e in o.trace[len(pre[0].trace):] if e[0] == "call" and (e[2] or "").endswith("[T]::split_last")]
            if len(split) != 1:
                rows.add(("?", "?", "no single split_last of the current slice"))
                continue
            sb = split[0][1]
            on_cur = it.resolve(o, split[0][3][0]) in (cur, ("ref", (("S", "hv:loop%d:_1" % h),))) or split[0][3][0] == cur
            r = o.cons.get("ret:%d" % sb)
            var = r[2] if r and r[0] == "varis" else "?"
            lastc = o.cons.get("m:*{ret:%d@Some.0.0}" % sb)
            lc = "-" if var == "None" else "==0" if lastc == ("eq", absint.I(0)) else "!=0" if lastc and lastc[0] == "notin" and absint.I(0) in lastc[1] else "?"
            if o.kind == "return":
                act = "return-unchanged" if o.value_at((("L", 0),)) == cur else "return-other"
            elif o.kind == "stop" and o.info == h:
                act = "continue-with-rest" if o.value_at((("L", 1),)) == ("ref", (("S", "ret:%d@Some.0.1" % sb),)) else "continue-other"
            else:
                act = o.kind
            rows.add((var, lc, act if on_cur else act + "(split of another slice)"))
        want = {("None", "-", "return-unchanged"), ("Some", "!=0", "return-unchanged"), ("Some", "==0", "continue-with-rest")}
        ok = entry_ok and rows == want
    else:
        ok = False
        rows.add(("?", "?", "%d loops; the recognised idiom is the split_last loop" % len(loops)))
    chk.ob("R14.4", "trim:drops-only-trailing-zeros", ok,
           "trim_end_zeros derives the step table %s; specification: empty -> return, last != 0 -> return unchanged, last == 0 -> continue without the last element "
           "(only zeros at the end may be dropped, because decoding pads with zeros at the end)" % sorted(rows), site=C.site(b), sample={"rows": sorted(map(str, rows))})


def _trim_countdown(w, b, cf, it, h):
    """second recognised idiom: `let mut len = w.len(); while len > 0 && w[len - 1] == 0 { len -= 1 }; &w[..len]`.
    Step table over (len, element at len-1): len == 0 -> return the prefix of length len; element != 0 -> return the prefix of
    length len; element == 0 -> continue with len - 1.  len starts as the slice length and is only decremented, so the
    compiler's bounds check of w[len - 1] cannot fail (the interpreter cannot see that invariant; the check is accepted only
    for exactly this index form)."""
    rows = set()
    pre = [o for o in it.run(0, stop=[h]) if o.kind == "stop"]
    if not pre:
        return False, {("?", "?", "loop not reachable")}
    # the counter: the usize local whose value at loop entry is the length of the parameter
    nz0 = forms.Normalizer(it, pre[0])
    cnt = [p[0][1] for p, v in pre[0].env.items() if len(p) == 1 and p[0][0] == "L" and b.locals[p[0][1]]["ty"] == "usize"
           and re.fullmatch(r"\[T\]::len\(&arg1\)|len\(&?arg1\)", C.show_arg(nz0, v) or "")]
    cnt = [l for l in cnt if l in it._loop_assigned_locals(h)]
    if len(cnt) != 1:
        return False, {("?", "?", "no single counter initialised with the slice length (%s)" % cnt)}
    L = cnt[0]
    cur = "hv:loop%d:_%d" % (h, L)
    outs = it.run(h, env=pre[0].env, cons=pre[0].cons, stop_at_entry_again=True, trace=pre[0].trace, invariant=True)
    for o in outs:
        nz = forms.Normalizer(it, o)
        lc = o.cons.get(cur)
        lencls = "len==0" if lc and lc[0] == "ival" and lc[2] == 0 else "len>0" if lc and lc[0] == "ival" and lc[1] is not None and lc[1] >= 1 else "?"
        el = "-"
        for s, c in o.cons.items():
            m = re.fullmatch(r"m:arg1\.\[#(\d+)\]", s)
            if m:
                iv = it.index_vals[int(m.group(1))]
                idx_ok = forms.show(nz.form(iv)) == "-1 + %s" % cur
                el = ("==0" if c == ("eq", absint.I(0)) else "!=0" if c[0] == "notin" and absint.I(0) in c[1] else "?") + ("" if idx_ok else "(at %s)" % forms.show(nz.form(iv)))
        if o.kind == "return":
            rv = C.show_arg(nz, o.value_at((("L", 0),)))
            pref = re.fullmatch(r"&\*\{\[T\]::split_at\(&arg1, %s\)\.0\}" % re.escape(cur), rv) is not None
            act = "return-prefix(len)" if pref else "return %s" % rv[:60]
        elif o.kind == "stop" and o.info == h:
            act = "continue-with-len-1" if forms.show(nz.form(o.value_at((("L", L),)))) == "-1 + %s" % cur else "continue-other"
        elif o.kind == "panic" and str(o.info).startswith("assert:BoundsCheck") and lencls == "len>0":
            continue   # w[len - 1] with 1 <= len <= w.len()
        else:
            act = "%s %s" % (o.kind, o.info)
        rows.add((lencls, el, act))
    want = {("len==0", "-", "return-prefix(len)"), ("len>0", "!=0", "return-prefix(len)"), ("len>0", "==0", "continue-with-len-1")}
    return rows == want, rows


def from_variable_identity(chk, w):
    """in every configuration: whenever From<Vec<i32>> answers Variable, it holds the decoded vector itself (same elements, same
    len(): the length of a tag bias vector sizes the tag score buffer, so dropping or adding entries changes behaviour).
    Not a condition of C14 (a conversion that is idempotent still round-trips); run by C06 and, per configuration, by C13."""
    fn, _ = C.impl_fn(w, "vaporetto::predictor::WeightVector", "core::convert::From", "from")
    if fn is None:
        chk.undecided("R14.4", "from:anchor", "From<Vec<i32>> for WeightVector not found")
        return
    b, it, outs = C.run_fn(w, fn)
    chk.fn(fn)
    pay = set()
    n = 0
    for o in outs:
        if o.kind != "return":
            continue
        v = it.resolve(o, o.value_at((("L", 0),)))
        if v[0] == "var" and v[2] == "Variable":
            n += 1
            x = it.resolve(o, v[3][0]) if v[3] else None
            pay.add(forms.Normalizer(it, o).value_atom(x) if x is not None else "?")
    has_fixed = any(v["name"] == "Fixed" for v in w.adt("vaporetto::predictor::WeightVector")["variants"])
    chk.ob("R14.4", "from:Variable-holds-the-vector", pay == {"arg1"} and n >= 1,
           "From<Vec<i32>> for WeightVector builds Variable(%s); expected Variable(src) with the decoded vector unchanged" % sorted(pay), site=C.site(b), sample={"payload": sorted(pay), "fixed_compiled": has_fixed})


def from_table(chk, w):
    """a Fixed weight vector is written as its trimmed content (0..=WEIGHT_FIXED_LEN elements, 0 when it is all zeros) and read
    back through From<Vec<i32>>.  It is the same kind of vector again (same len(), same scoring code) only if From maps EVERY
    length 0..=WEIGHT_FIXED_LEN to Fixed."""
    fn, _ = C.impl_fn(w, "vaporetto::predictor::WeightVector", "core::convert::From", "from")
    cst = w.const("vaporetto::predictor::WEIGHT_FIXED_LEN")
    if fn is None or cst is None:
        chk.undecided("R14.4", "from:anchor", "From<Vec<i32>> for WeightVector / WEIGHT_FIXED_LEN not found")
        return
    n = cst["value"]["int"]
    b, it, outs = C.run_fn(w, fn)
    chk.fn(fn)
    rows = set()
    for o in outs:
        if o.kind != "return":
            rows.add((o.kind, None, None))
            continue
        v = o.value_at((("L", 0),))
        lens = [c for s, c in o.cons.items() if c[0] in ("ival", "eq") and s.startswith("ret:") and any(e[0] == "call" and "ret:%d" % e[1] == s and (e[2] or "").endswith("::len") for e in o.trace)]
        lo, hi = (None, None)
        if lens:
            c = lens[0]
            lo, hi = (c[1], c[2]) if c[0] == "ival" else (c[1][1], c[1][1])
        if hi is not None and hi < 0:
            continue   # a negative length: infeasible half of the case split
        rows.add((v[2] if v[0] == "var" else "?", 0 if lo is None or lo < 0 else lo, hi))
    want = {("Fixed", 0, n), ("Variable", n + 1, None)}
    chk.ob("R14.4", "from:lengths-0..=%d-are-Fixed" % n, rows == want,
           "From<Vec<i32>> for WeightVector maps (variant, min length, max length) = %s; expected %s: a Fixed vector whose trimmed content has one of the lengths that map to "
           "Variable comes back as another kind of vector (different len(), so buffers sized from it are too short)" % (sorted(rows, key=str), sorted(want, key=str)),
           site=C.site(b), sample={"rows": sorted(map(str, rows))})
