"""C20 - Command-line tools agree with the library, line by line."""
import re

from .. import facts, absint, forms, cfg as cfgmod, effects
from . import common as C
from .c07 import error_discipline

EXPLANATION = (
    "R20.1 (E6/E8b): for both per-line loops of predict::main (--no-norm and normalising) the sequence of output events "
    "on every path of one iteration is derived by abstract interpretation over all flag values and both outcomes of "
    "update_raw: accepted line = tokens, newline, [score block iff --scores], [tag-score block iff --tag-scores]; rejected "
    "line = newline only; the two loops must produce identical sequences. R20.2 (typestate): a call that reads tag "
    "candidates (print_tag_scores / Token::tag_candidates) is preceded on its path by fill_tags on the same sentence with "
    "no update_* in between, and the CLI makes --tag-scores require --predict-tags. R20.3: per accepted line the pipeline "
    "order is [normalise] update_raw, predict, post-filters, [fill_tags iff --predict-tags], [copy onto the original "
    "sentence: update_raw, reset_tags, boundaries copy, tags clone], write; store_tag_scores(true) iff --tag-scores. "
    "R20.4 (FDAI): evaluate's confusion counters for all (reference, system) label pairs, Nagata word counters for all "
    "(labels, matched, tags-equal) cases, and the precision/recall/F1 expression trees. R20.5 (E7): no I/O Result is "
    "unwrapped/ignored in the tools' main functions. R20.6 (E4): evaluate collects, for the reference and for the system "
    "sentence, one tag row per character (iteration count = copied boundaries + 1 or Sentence::len), row i = "
    "tags()[i*n_tags .. (i+1)*n_tags]; the word metric compares these rows position by position."
)
NOT_DECIDED = ["clap argument parsing itself", "byte-level equality of the output with the library's", "I/O behaviour of stdin/stdout"]


def _bytes_of(it, o, a):
    v = a
    for _ in range(3):
        if v[0] == "ref":
            p = v[1]
            while p and p[-1] == ("f", "<content>"):
                p = p[:-1]
            v = it._read(o, p) if p else v
        else:
            break
    return v if v[0] == "bytes" else None


def _sentence_arg(it, fn):
    """position of the &Sentence parameter of a private printing helper (parameters may be reordered)"""
    f = it.world.fn_item(fn)
    if f:
        for i, ty in enumerate(f["inputs"]):
            if "Sentence" in ty:
                return i
    return 0


def line_events(it, o, n0, sentence_names):
    """abstract output/pipeline events of one loop iteration"""
    ev = []
    for e in o.trace[n0:]:
        if e[0] != "call" or not e[2]:
            continue
        nm = e[2]
        short = nm.split("::")[-1]
        if short == "write_all":
            bs = _bytes_of(it, o, e[3][1])
            ev.append(("NL",) if bs == ("bytes", (10,)) else ("CONST", bs[1]) if bs else ("BUF",))
        elif nm.endswith("predict::print_scores"):
            ev.append(("SCORES", e[3][_sentence_arg(it, nm)]))
        elif nm.endswith("predict::print_tag_scores"):
            ev.append(("TAGSCORES", e[3][_sentence_arg(it, nm)]))
        elif nm == C.S + "::write_tokenized_text":
            ev.append(("WRITE", e[3][0]))
        elif nm.startswith(C.S + "::update_") or nm in (C.S + "::fill_tags", C.S + "::reset_tags", C.P + "::predict"):
            ev.append((short.upper(), e[3][0] if short != "predict" else e[3][1]))
        elif short == "for_each":
            ev.append(("FILTERS",))
        elif nm.endswith("StringFilter<S>>::filter") or (short == "filter" and "StringFilter" in nm):
            ev.append(("NORMALISE",))
        elif short in ("copy_from_slice", "clone_from_slice"):
            ev.append(("COPY", short))
        elif short == "flush":
            ev.append(("FLUSH",))
    return ev


def run(chk):
    w = C.world_for(chk)
    from . import ctors as _acc
    _acc.accessors(chk, w, only=["vaporetto::sentence::"])
    # the normalising mode copies boundaries and tags between the normalised and the original sentence position by position:
    # it relies on the normaliser mapping every character to exactly one character (shared with C16)
    from . import c16 as _c16
    chk.rule("R16.1", "normaliser table: one push per char, default identity, idempotent (shared with C16)")
    chk.rule("R16.5", "copy sites order (shared with C16)")
    with chk.only(rules={"R16.1"}, keys=lambda k: "idempotent" not in k and "default-identity" not in k):
        _c16.normaliser(chk, w)
    _c16.copy_sites(chk, w)
    chk.rule("R16.3", "wsconst letter tables of predict and evaluate (shared with C16)")
    with chk.only(rules={"R16.3"}, keys=lambda k: k.startswith("R16.3:predict") or k.startswith("R16.3:evaluate")):
        _c16.letters(chk, w)
    for rid, txt in (("R20.1", "per-line output event sequences; sibling loops agree"), ("R20.2", "tag candidates only after fill_tags on the same sentence"),
                     ("R20.3", "pipeline order and flag wiring"), ("R20.4", "evaluate counter tables and metric formulas"), ("R20.5", "error discipline in the tools")):
        chk.rule(rid, txt)
    predict_rules(chk, w)
    evaluate_rules(chk, w)
    evaluate_tag_rows(chk, w)
    error_discipline(chk, w, "R20.5", ["predict::main", "predict::print_scores", "predict::print_tag_scores", "evaluate::main"], 20)


def evaluate_tag_rows(chk, w):
    """the word metric compares the tags of the reference and the system sentence position by position: both per-character
    tag-row vectors have one row per character = boundaries + 1, row i = tags()[i * n_tags .. (i + 1) * n_tags]"""
    import re
    chk.rule("R20.6", "evaluate collects one tag row per character (boundaries + 1) for the reference and the system sentence, row i = tags[i*n_tags..(i+1)*n_tags]")
    fn = "evaluate::main"
    b, it, outs = C.run_fn(w, fn)
    cf = cfgmod.cfg_of(b)
    names, origin = C.iterator_names(b, outs)
    rn = C.renamer(names)
    rows = []
    for bb, t in cfgmod.calls(b):
        if (cfgmod.callee(t) or "") != C.S + "::tags":
            continue
        lp = cf.innermost_loop_of(bb)
        if lp is None:
            continue
        h, blks = lp
        # the iterator advanced by this loop
        nx = [(bb2, t2) for bb2, t2 in cfgmod.calls(b) if bb2 in blks and (cfgmod.callee(t2) or "").endswith("::next") and cf.innermost_loop_of(bb2) and cf.innermost_loop_of(bb2)[0] == h]
        itn = None
        for bb2, t2 in nx:
            a = t2["args"][0]
            pl = a.get("move") or a.get("copy")
            if not pl:
                continue
            loc = pl["local"]
            for _ in range(4):
                if loc in names:
                    break
                # `next(move _t)` with `_t = &mut *_u; _u = &mut iter` in the same block
                for st in b.blocks[bb2]["stmts"]:
                    if st["k"] == "assign" and st["place"]["local"] == loc and not st["place"]["proj"] and st["rv"]["k"] == "ref":
                        loc = st["rv"]["place"]["local"]
                        break
            if loc in names:
                itn = names[loc]
        rows.append((bb, h, blks, itn))
    chk.floor("R20.6", "tag row loops", len(rows), 2)
    shapes = []
    for k, (bb, h, blks, itn) in enumerate(rows):
        if itn is None or itn not in origin:
            chk.undecided("R20.6", "rows[%d]:iterator" % k, "the loop around Sentence::tags() at bb%d is not driven by a recognisable iterator" % bb, site=C.site(b, bb))
            continue
        arg, o = origin[itn]
        nz = forms.Normalizer(it, o, rename=rn)
        # number of iterations as a form
        cnt = None
        if arg[0] == "agg" and arg[1].endswith("Range"):
            d = dict(arg[2])
            cnt = forms.add(nz.form(d["end"]), nz.form(d["start"]), -1)
        else:
            ra = it.resolve(o, arg)
            name = ra[1] if ra[0] == "sym" else None
            info = nz.ret_info.get(name) if name else None
            if info and (info[0] or "").endswith("RangeInclusive::new"):
                cnt = forms.add(forms.add(nz.form(info[1][1]), nz.form(info[1][0]), -1), forms.const(1))
        if cnt is None:
            chk.undecided("R20.6", "rows[%d]:count" % k, "iteration count of the tag row loop (iterator %s) is not a range" % rn(C.show_arg(nz, arg)), site=C.site(b, h))
            continue
        cs = forms.show(cnt)
        # the vector whose length bounds the loop: a copy of the sentence's boundaries
        m = re.fullmatch(r"1 \+ alloc::vec::Vec::len\(&_(\d+)\)", cs)
        src = None
        if m:
            for e, o2 in C.all_calls(outs, lambda e_: e_[4] == int(m.group(1)) if len(e_) > 4 else False):
                src = forms.Normalizer(it, o2, rename=rn).call_atom(e[2], e[3])
        # a copy (to_vec / to_owned / clone / From / Into) of boundaries()
        ok = bool(m) and src is not None and re.fullmatch(r"[^()]*(to_vec|to_owned|clone|from|into)\(&\*\{vaporetto::sentence::Sentence::boundaries\(&_\d+\)\}\)", src or "") is not None
        ok = ok or re.fullmatch(r"vaporetto::sentence::Sentence::len\(&_\d+\)", cs) is not None
        # the boundaries themselves: 1 + boundaries().len()
        ok = ok or re.fullmatch(r"1 \+ (\[T\]|alloc::vec::Vec)::len\(&\*\{vaporetto::sentence::Sentence::boundaries\(&_\d+\)\}\)", cs) is not None
        chk.ob("R20.6", "rows[%d]:one-row-per-character" % k, ok,
               "the tag row loop at bb%d runs `%s` times (bounding vector: %s); a sentence has boundaries + 1 characters and as many tag rows: with fewer rows the last word's tags are compared against the wrong row "
               "(or, for a one-character line, last() of an empty vector panics)" % (h, cs, src), site=C.site(b, h), sample={"count": re.sub(r"_\d+", "_", cs), "source": re.sub(r"_\d+", "_", src or "")})
        # the row: tags()[i * n_tags .. (i + 1) * n_tags]
        I = "%s.next()@Some.0" % itn
        idx = [x for x in C.all_calls(outs, lambda e_: e_[1] in blks and e_[2] and "Index" in e_[2] and len(e_[3]) > 1 and e_[3][1][0] == "agg" and "Range" in e_[3][1][1])]
        got = set()
        for e, o2 in idx:
            sh = rn(C.show_arg(forms.Normalizer(it, o2, rename=rn), e[3][1]))
            sh = re.sub(r"vaporetto::sentence::Sentence::n_tags\(&_\d+\)", "n_tags", sh).replace(I, "i")
            got.add(sh)
        shapes.append(got)
        chk.ob("R20.6", "rows[%d]:row-slice" % k, got == {"Range{start: i*n_tags, end: n_tags + i*n_tags}"},
               "tag row i is taken as tags()[%s]; specification tags()[i*n_tags .. (i+1)*n_tags]" % sorted(got), site=C.site(b, h), sample={"slices": sorted(got)})


def predict_rules(chk, w):
    b = C.body(w, "predict::main", crate="predict")
    chk.fn("predict::main")
    cf = cfgmod.cfg_of(b)
    loops = cf.natural_loops()
    line_loops = [h for h in sorted(loops) if b.blocks[h]["term"]["k"] == "call" and (cfgmod.callee(b.blocks[h]["term"]) or "").startswith("<std::io::Lines")]
    chk.floor("R20.1", "line loops", len(line_loops), 2)
    it = absint.Interp(w, b, models=effects.EXTRA_MODELS, summaries=C.summaries(w))
    per_loop = {}
    requires = cli_requires(w)
    excluded = 0
    for h in line_loops:
        pre = [o for o in it.run(0, stop=[h]) if o.kind == "stop"]
        if not pre:
            chk.undecided("R20.1", "loop@%d" % h, "line loop not reachable", site=C.site(b, h))
            continue
        # which mode: value of the no_norm flag on the way in
        mode = None
        for o in pre:
            for k, c in o.cons.items():
                if k.endswith(".no_norm") and c[0] == "eq":
                    mode = "no-norm" if c[1][1] else "norm"
        seqs = {}
        outs = []
        for pr in pre:
            for o in it.run(h, env=pr.env, cons=pr.cons, stop_at_entry_again=True, trace=pr.trace):
                outs.append((o, len(pr.trace)))
            # store_tag_scores wiring (R20.3)
            sts = [e for e in pr.trace if e[0] == "call" and (e[2] or "").endswith("store_tag_scores")]
            flag_ts = [c for k, c in pr.cons.items() if k.endswith(".tag_scores") and c[0] == "eq"]
            if flag_ts:
                want_call = flag_ts[0][1][1]
                chk.ob("R20.3", "%s:store_tag_scores-iff-flag(%s)" % (mode, want_call), (len(sts) == 1) == want_call and all(e[3][1] == absint.B(True) for e in sts),
                       "store_tag_scores(true) is called %d time(s) although --tag-scores=%s" % (len(sts), want_call), site=C.site(b, h))
        for o, n0 in outs:
            if o.kind == "stop" and o.info == h:
                pass
            elif o.kind == "return":
                # error propagation of an I/O failure: not a completed line
                continue
            else:
                continue
            line = o.cons.get("ret:%d" % h)
            if not line or line[2] != "Some":
                continue
            ev = line_events(it, o, n0, None)
            flags = {}
            for k, c in o.cons.items():
                m = re.match(r"ret:\d+\.(predict_tags|scores|tag_scores)$", k)
                if m and c[0] == "eq":
                    flags[m.group(1)] = c[1][1]
            # accepted or rejected: outcome of the first update_raw on the working sentence
            upd = [e for e in o.trace[n0:] if e[0] == "call" and e[2] == C.S + "::update_raw"]
            acc = None
            if upd:
                r = it.resolve(o, absint.SYM("ret:%d" % upd[0][1]))
                acc = effects.ret_class(r)
                if acc == "any":
                    # `.is_ok()` consumer
                    for e in o.trace[n0:]:
                        if e[0] == "call" and (e[2] or "").endswith("Result::is_ok") and e[3][0][0] == "ref":
                            rr = it.resolve(o, absint.SYM("ret:%d" % e[1]))
                            if rr[0] == "b":
                                acc = "Ok" if rr[1] else "Err"
            if requires and flags.get("tag_scores") is True and flags.get("predict_tags") is False:
                excluded += 1   # flag combination rejected by clap (requires): not a reachable configuration
                continue
            seqs.setdefault((acc, flags.get("scores"), flags.get("tag_scores"), flags.get("predict_tags")), set()).add(tuple(ev))
        per_loop[h] = (mode, seqs, b)

        # ---- specification per case
        n_cases = 0
        for (acc, sc, ts, ptags), evs in sorted(seqs.items(), key=str):
            for ev in evs:
                n_cases += 1
                out_seq = [e[0] for e in ev if e[0] in ("BUF", "NL", "SCORES", "TAGSCORES", "CONST")]
                if acc == "Ok":
                    want = ["BUF", "NL"] + (["SCORES"] if sc else []) + (["TAGSCORES"] if ts else [])
                    # unknown flag on this path: both readings allowed only if the block is absent
                    if sc is None and "SCORES" in out_seq:
                        want = None
                    if ts is None and "TAGSCORES" in out_seq:
                        want = None
                elif acc == "Err":
                    want = ["NL"]
                else:
                    want = None
                ok = want is not None and out_seq == want
                chk.ob("R20.1", "%s:line(%s,scores=%s,tag_scores=%s)" % (mode, acc, sc, ts), ok,
                       "predict (%s mode): an %s input line with --scores=%s --tag-scores=%s produces the output events %s; specification: %s "
                       "(tokens, newline, then the optional score block, then the optional tag-score block; a rejected line only a newline)"
                       % (mode, "accepted" if acc == "Ok" else "rejected", sc, ts, out_seq, want), site=C.site(b, h),
                       sample={"mode": mode, "accepted": acc, "scores": sc, "tag_scores": ts, "events": out_seq} if n_cases <= 6 else None)
                # ---- R20.2 typestate
                last = {}
                for e in ev:
                    if e[0] in ("UPDATE_RAW", "UPDATE_TOKENIZED", "UPDATE_PARTIAL_ANNOTATION"):
                        last[e[1]] = "updated"
                    elif e[0] == "PREDICT":
                        last[e[1]] = "predicted"
                    elif e[0] == "FILL_TAGS":
                        if last.get(e[1]) == "predicted":
                            last[e[1]] = "filled"
                    elif e[0] == "TAGSCORES":
                        okts = last.get(e[1]) == "filled" and acc == "Ok"
                        chk.ob("R20.2", "%s:tag-candidates-after-fill_tags(accepted=%s,predict_tags=%s)" % (mode, acc, ptags), okts,
                               "predict (%s mode) prints tag candidates of a sentence whose state is `%s` (line accepted: %s, --predict-tags=%s): "
                               "Token::tag_candidates() is only defined after predict + fill_tags on the current text and panics / reports the previous line otherwise"
                               % (mode, last.get(e[1], "never predicted"), acc, ptags), site=C.site(b, h))
                # ---- R20.3 pipeline order on accepted lines
                if acc == "Ok":
                    names = [e[0] for e in ev]
                    core = [n for n in names if n in ("NORMALISE", "UPDATE_RAW", "PREDICT", "FILTERS", "FILL_TAGS", "RESET_TAGS", "COPY", "WRITE")]
                    if mode == "no-norm":
                        want_core = ["UPDATE_RAW", "PREDICT", "FILTERS"] + (["FILL_TAGS"] if ptags else []) + ["WRITE"]
                    else:
                        want_core = ["NORMALISE", "UPDATE_RAW", "PREDICT", "FILTERS"] + (["FILL_TAGS"] if ptags else []) + ["UPDATE_RAW", "RESET_TAGS", "COPY", "COPY", "WRITE"]
                    chk.ob("R20.3", "%s:pipeline(predict_tags=%s)" % (mode, ptags), core == want_core and ptags is not None,
                           "predict (%s mode) runs %s on an accepted line; specification %s" % (mode, core, want_core), site=C.site(b, h))
                    if mode == "norm":
                        cp = [e[1] for e in ev if e[0] == "COPY"]
                        chk.ob("R20.3", "norm:copy-order", cp == ["copy_from_slice", "clone_from_slice"] or cp == ["clone_from_slice", "clone_from_slice"],
                               "boundaries/tags are copied onto the original sentence with %s" % cp, site=C.site(b, h))
        chk.floor("R20.1", "%s cases" % mode, n_cases, 6)
    # ---- sibling agreement (T10)
    if len(per_loop) == 2:
        (m1, s1, _), (m2, s2, _) = list(per_loop.values())
        def norm(s):
            return {k: {tuple(e[0] for e in ev if e[0] in ("BUF", "NL", "SCORES", "TAGSCORES", "CONST")) for ev in v} for k, v in s.items()}
        n1, n2 = norm(s1), norm(s2)
        diff = {k: (sorted(n1.get(k, [])), sorted(n2.get(k, []))) for k in set(n1) | set(n2) if n1.get(k) != n2.get(k)}
        chk.ob("R20.1", "twin(T10):modes-agree", not diff, "the --no-norm and the normalising loop produce different output layouts: %s" % diff, site=C.site(b),
               sample={"cases": len(n1)})
    chk.ob("R20.2", "cli:tag-scores-requires-predict-tags", cli_requires(w),
           "the command line accepts --tag-scores without --predict-tags: the tag-score block is then printed for a predictor built without tag prediction "
           "(fill_tags is never run), which panics on the first line", site=C.site(b))


def cli_requires(w):
    """clap wiring: the builder chain of the `tag_scores` argument contains .requires("predict_tags")"""
    for bd in w.all_bodies("predict"):
        if not bd.fn.endswith("::augment_args") or bd.promoted is not None:
            continue
        cur = None
        for bb, t in sorted(cfgmod.calls(bd)):
            c = cfgmod.callee(t) or ""
            consts = [a["const"].get("str") for a in t["args"] if "const" in a]
            if c.endswith("arg::Arg::new"):
                cur = consts[0] if consts else None
            if c.endswith("arg::Arg::requires") and cur == "tag_scores" and "predict_tags" in consts:
                return True
    return False


def evaluate_pipeline(chk, w, b, cf):
    """the evaluation tool must measure the library pipeline: predict, then the post-filters, then fill_tags (tags are
    predicted for the tokens that the filters leave), all on the same sentence"""
    pred = [bb for bb, t in cfgmod.calls(b) if cfgmod.callee(t) == C.P + "::predict"]
    fill = [bb for bb, t in cfgmod.calls(b) if cfgmod.callee(t) == C.S + "::fill_tags"]
    filt = []
    for bb, t in cfgmod.calls(b):
        c = cfgmod.callee(t) or ""
        if c.endswith("Iterator>::for_each") or c.endswith("SentenceFilter>::filter") or c.endswith("SentenceFilter::filter"):
            # the closure / call applies a SentenceFilter
            z = " ".join(str(a["const"].get("zst", "")) for a in t["args"] if "const" in a)
            cl = C.closure_keys(w, b.fn)
            applies = c.endswith("filter") or any(any((cfgmod.callee(t2) or "").endswith("SentenceFilter>::filter") or "SentenceFilter" in (cfgmod.callee(t2) or "") for _, t2 in cfgmod.calls(w.bodies[k][0])) for k in cl)
            if applies:
                filt.append(bb)
    chk.floor("R20.3", "evaluate pipeline calls", len(pred) + len(filt) + len(fill), 3)
    ok = len(pred) == 1 and len(filt) >= 1 and len(fill) >= 1
    if ok:
        ok = all(cf.dominates(pred[0], f) for f in filt) and all(any(cf.dominates(f, g) for f in filt) for g in fill)
        # no filter application is reachable after fill_tags within the same iteration (i.e. without passing predict again)
        for g in fill:
            later = cf.reachable(g, avoid=set(pred)) - {g}
            if any(f in later for f in filt):
                ok = False
    chk.ob("R20.3", "evaluate:pipeline-order", ok,
           "evaluate::main calls predict at %s, applies the post-filters at %s and fill_tags at %s; specification: predict, then every post-filter, then fill_tags "
           "(as the predict tool and the library do), otherwise the measured tags belong to a tokenisation the filters have since changed" % (pred, filt, fill), site=C.site(b, fill[0] if fill else None),
           sample={"predict": pred, "filters": filt, "fill_tags": fill})


def evaluate_rules(chk, w):
    b = C.body(w, "evaluate::main", crate="evaluate")
    chk.fn("evaluate::main")
    cf = cfgmod.cfg_of(b)
    evaluate_pipeline(chk, w, b, cf)
    loops = cf.natural_loops()
    names = b.names()
    it = absint.Interp(w, b, models=effects.EXTRA_MODELS, summaries=C.summaries(w))
    # counters by structure: user variables of type i32 that are incremented inside a loop (their roles are derived below
    # from the tables, the programmer's names are only used when they are the conventional ones)
    loop_blocks = set().union(*loops.values()) if loops else set()
    inc_locals = set()
    for bb in loop_blocks:
        for s in b.blocks[bb]["stmts"]:
            if s["k"] == "assign" and not s["place"]["proj"] and s["place"]["local"] in names and b.locals[s["place"]["local"]]["ty"] == "i32":
                inc_locals.add(s["place"]["local"])
    counters = {l: "c%d" % l for l in sorted(inc_locals)}
    chk.floor("R20.4", "counters", len(counters), 7)

    def incs(o, env0):
        out = {}
        for l, n in counters.items():
            v = o.value_at((("L", l),))
            if v[0] == "sym":
                continue   # the (forgotten) header value: unchanged in this iteration
            if v[0] == "expr" and v[1] == "Add" and v[3] == absint.I(1) and v[2][0] == "sym":
                out[n] = 1
            else:
                out[n] = "?"
        return out

    # innermost loops that zip boundaries: identified by the counters they touch
    table_char, table_word = {}, {}
    for h in sorted(loops):
        blks = loops[h]
        touched = set()
        for bb in blks:
            for s in b.blocks[bb]["stmts"]:
                if s["k"] == "assign" and not s["place"]["proj"] and s["place"]["local"] in counters:
                    touched.add(counters[s["place"]["local"]])
        inner = not any(h2 != h and loops[h2] < blks for h2 in loops)
        if not inner or not touched:
            continue
        pre = [o for o in it.run(0, stop=[h]) if o.kind == "stop"]
        if not pre:
            continue
        outs = it.run(h, stop=set(cf.blocks) - blks, env=pre[0].env, cons=pre[0].cons, stop_at_entry_again=True, trace=pre[0].trace)
        n0 = len(pre[0].trace)
        matched_l = [l for l in sorted(it._loop_assigned_locals(h)) if l in names and b.locals[l]["tk"] == "bool" and C.loop_carried(b, cf, h, l)]
        for o in outs:
            if o.kind != "stop" or o.info != h:
                continue
            labs = sorted((k, c[2]) for k, c in o.cons.items() if c[0] == "varis" and c[1] == C.CB)
            if len(labs) != 2:
                continue
            # order: reference first (the zip's left operand) - by symbol name order .0 / .1 of the item tuple
            r, s = labs[0][1], labs[1][1]
            inc = incs(o, pre[0].env)
            if len(touched) == 4:
                table_char.setdefault((r, s), set()).add(tuple(sorted(inc.items())))
            else:
                m_in = None
                if matched_l:
                    c = o.cons.get("hv:loop%d:_%d" % (h, matched_l[0])) or o.cons.get("m:_%d" % matched_l[0])
                    for k2, c2 in o.cons.items():
                        if k2.endswith("_%d" % matched_l[0]) and c2[0] == "eq":
                            m_in = c2[1][1]
                    m_out = o.value_at((("L", matched_l[0]),))
                teq = None
                for e in o.trace[n0:]:
                    if e[0] == "call" and "PartialEq" in (e[2] or "") and "Vec" in (e[2] or ""):
                        rr = it.resolve(o, absint.SYM("ret:%d" % e[1]))
                        if rr[0] == "b":
                            teq = rr[1]
                table_word.setdefault((r, s, m_in, teq), set()).add((tuple(sorted(inc.items())), m_out[1] if m_out[0] == "b" else "same"))
    W_ = "WordBoundary"
    N_ = "NotWordBoundary"
    labs3 = ["WordBoundary", "NotWordBoundary", "Unknown"]
    # roles: conventional names when present, otherwise from the defining cells of the tables
    conv = {"c%d" % l: names[l] for l in inc_locals if names[l] in ("n_tp", "n_tn", "n_fp", "n_fn", "n_sys", "n_ref", "n_cor")}
    role = dict(conv)
    def single(tab, key):
        g = tab.get(key)
        if g and len(g) == 1:
            inc = dict(list(g)[0][0] if isinstance(list(g)[0][0], tuple) and list(g)[0] and isinstance(list(g)[0][0][0], tuple) else list(g)[0])
            ks = [k for k, v in inc.items() if v == 1]
            return ks[0] if len(ks) == 1 and len(inc) == 1 else None
        return None
    if len(conv) < 7:
        for key, nm in (((W_, W_), "n_tp"), ((N_, N_), "n_tn"), ((N_, W_), "n_fp"), ((W_, N_), "n_fn")):
            c_ = single(table_char, key)
            if c_ and c_ not in role:
                role[c_] = nm
        wsys = {k for (r, s, m_in, teq), g in table_word.items() if r != s and s == W_ for inc, _ in g for k, v in inc if v == 1}
        wref = {k for (r, s, m_in, teq), g in table_word.items() if r != s and r == W_ and s != W_ for inc, _ in g for k, v in inc if v == 1}
        if len(wsys) == 1 and len(wref) == 1:
            role.setdefault(list(wsys)[0], "n_sys")
            role.setdefault(list(wref)[0], "n_ref")
            rest_ = {k for g in table_word.values() for inc, _ in g for k, v in inc} - wsys - wref
            if len(rest_) == 1:
                role.setdefault(list(rest_)[0], "n_cor")
    chk.ob("R20.4", "counter-roles", sorted(role.values()) == sorted(["n_tp", "n_tn", "n_fp", "n_fn", "n_sys", "n_ref", "n_cor"]),
           "could not identify the seven counters of evaluate (true/false positives/negatives; system, reference, correct words): %s" % role, site=C.site(b), nontrivial=False)
    def tr_inc(inc):
        return tuple(sorted((role.get(k, k), v) for k, v in inc))
    table_char = {k: {tr_inc(i) for i in g} for k, g in table_char.items()}
    table_word = {k: {(tr_inc(i), mo) for i, mo in g} for k, g in table_word.items()}
    raw_to_role = {int(k[1:]): v for k, v in role.items()}
    n = 0
    for r in labs3:
        for s in labs3:
            if r == s:
                want = "n_tp" if s == W_ else "n_tn"
            else:
                want = "n_fp" if s == W_ else "n_fn"
            got = table_char.get((r, s))
            n += 1
            chk.ob("R20.4", "char(%s,%s)" % (r[:1], s[:1]), got == {((want, 1),)},
                   "evaluate --metric char: reference %s / system %s increments %s; specification: %s" % (r, s, sorted(got) if got else None, want),
                   site=C.site(b), sample={"ref": r, "sys": s, "derived": str(sorted(got) if got else None)} if n <= 4 else None)
    chk.floor("R20.4", "char table cases", len(table_char), 9)
    # word metric (Nagata)
    nw = 0
    for (r, s, m_in, teq), got in sorted(table_word.items(), key=str):
        for m in ([m_in] if m_in is not None else [True, False]):
            for t in ([teq] if teq is not None else [True, False]):
                inc = {}
                if r == s:
                    if s == W_:
                        if m and t:
                            inc["n_cor"] = 1
                        inc["n_ref"] = 1
                        inc["n_sys"] = 1
                        mo = True
                    else:
                        mo = "same"
                else:
                    if s == W_:
                        inc["n_sys"] = 1
                    else:
                        inc["n_ref"] = 1
                    mo = False
                want = (tuple(sorted(inc.items())), mo)
                # when the comparison of tags was not evaluated on this path the increment must not depend on it
                ok = any(g[0] == want[0] and (g[1] == want[1] or (want[1] == "same" and g[1] in ("same", m)) or (g[1] == "same" and want[1] == m)) for g in got)
                nw += 1
                chk.ob("R20.4", "word(%s,%s,matched=%s,tags_eq=%s)" % (r[:1], s[:1], m, t), ok,
                       "evaluate --metric word: case ref=%s sys=%s matched=%s tags-equal=%s derives %s; Nagata's method specifies %s" % (r, s, m, t, sorted(got, key=str), want),
                       site=C.site(b), sample={"case": [r, s, m, t], "derived": str(sorted(got, key=str))} if nw <= 4 else None)
    chk.floor("R20.4", "word table cases", nw, 12)
    # formulas: precision = tp/(tp+fp), recall = tp/(tp+fn), f1 = 2pr/(p+r)   (expression trees over f64::from(counter))
    fouts = [o for o in it.run(0) if o.kind == "return"]
    triples = set()
    for o in fouts:
        nz = forms.Normalizer(it, o, rename=lambda s_: re.sub(r"(hv:loop\d+:|m:)?_(\d+)", lambda m_: raw_to_role.get(int(m_.group(2)), names.get(int(m_.group(2)), m_.group(0))), s_))
        vals = {}
        f64s = {}
        for l, nme in names.items():
            if b.locals[l]["ty"] == "f64":
                v = o.value_at((("L", l),))
                if v[0] == "expr":
                    f64s[l] = _expr_str(nz, v)
        by_name = {l: names[l] for l in f64s if names[l] in ("precision", "recall", "f1")}
        if len(set(by_name.values())) < 3:
            # structural roles: F1 is the quotient that contains two other metric expressions; of those two, precision is the
            # one whose denominator involves the system-side counter (false positives / system words)
            for l, e_ in f64s.items():
                inner = [l2 for l2, e2 in f64s.items() if l2 != l and e2 in e_]
                if len(inner) >= 2:
                    by_name[l] = "f1"
                    for l2 in inner:
                        by_name[l2] = "precision" if ("n_fp" in f64s[l2] or "n_sys" in f64s[l2]) else "recall"
        for l, nme in by_name.items():
            vals.setdefault(nme, set()).add(f64s[l])
        for p_ in vals.get("precision", ()):
            for r_ in vals.get("recall", ()):
                for f_ in vals.get("f1", ()):
                    if p_ in f_ and r_ in f_:
                        triples.add((p_, r_, f_))
    allowed = {("Div(n_tp, Add(n_tp, n_fp))", "Div(n_tp, Add(n_tp, n_fn))"), ("Div(n_cor, n_sys)", "Div(n_cor, n_ref)")}
    chk.floor("R20.4", "metric formula triples", len(triples), 2)
    for p_, r_, f_ in sorted(triples):
        metric = "char" if "n_tp" in p_ else "word"
        chk.ob("R20.4", "formula:%s:precision-recall" % metric, (p_, r_) in allowed, "evaluate (%s) computes precision = %s, recall = %s; specification tp/(tp+fp), tp/(tp+fn) resp. cor/sys, cor/ref" % (metric, p_, r_), site=C.site(b),
               sample={"precision": p_, "recall": r_})
        want_f = "Div(Mul(Mul(2, %s), %s), Add(%s, %s))" % (p_, r_, p_, r_)
        chk.ob("R20.4", "formula:%s:f1" % metric, f_ == want_f, "evaluate (%s) computes F1 = %s; specification 2pr/(p+r) = %s" % (metric, f_, want_f), site=C.site(b))


def _expr_str(nz, v):
    v = nz.it.resolve(nz.o, v) if nz.o is not None else v
    if v[0] == "expr":
        return "%s(%s, %s)" % (v[1], _expr_str(nz, v[2]), _expr_str(nz, v[3]))
    if v[0] == "i":
        return str(v[1])
    if v[0] == "fl":
        return ("%g" % v[1])
    if v[0] == "sym":
        info = nz.ret_info.get(v[1])
        if info and info[0] and ("From<i32>>::from" in info[0] or "From<u32>>::from" in info[0]) and len(info[1]) == 1:
            return _expr_str(nz, info[1][0])
        s = nz.rename(v[1])
        return s
    if v[0] == "float":
        return str(v[1])
    return nz.value_atom(v)
