"""C19 - Dictionary edits act as documented; dump and replace are lossless."""
import re

from .. import facts, absint, forms, cfg as cfgmod, effects, witness
from . import common as C
from .c07 import error_discipline

EXPLANATION = (
    "R19.1 frame (E5): Model::replace_dictionary writes exactly the dictionary field of the model data on every path and "
    "reads nothing else of the model; Model::dictionary returns a view of that same field. R19.2 constructor gate: the fields "
    "of WordWeightRecord are not public (item scan + compile-fail witness E0451), WordWeightRecord::new returns Ok only on the "
    "path where weights.len() == word.chars().count() + 1 (FDAI over the comparison) and stores its three arguments unchanged; "
    "the model tool builds records only through new and propagates its error. R19.3 codec agreement of the tool: the same "
    "flatten struct type is the csv serialize argument and deserialize target; the join separator equals the split separator; "
    "weights are formatted from and parsed to i32. R19.4 tool order: read, then dump (from dictionary()), then replace "
    "(replace_dictionary), then write; the dump can never observe the replaced dictionary; every Result is propagated (E7)."
)
NOT_DECIDED = ["csv quoting/escaping (csv crate)", "score deltas as numbers", "byte identity of the re-written model (bincode/zstd)"]

M = "vaporetto::model::Model"
WWR = "vaporetto::dict_model::WordWeightRecord"


def run(chk):
    w = C.world_for(chk)
    from . import ctors as _ctors2
    _ctors2.run(chk, w, only=["DictModel::new"])
    from . import ctors as _acc
    _acc.accessors(chk, w, only=["vaporetto::dict_model::"])
    from . import c01_absent as _abs
    _abs.run(chk, w, directions=("absent-implies-empty",))   # a dictionary-only model must use its dictionary
    for rid, txt in (("R19.1", "replace_dictionary/dictionary touch exactly the dictionary field"), ("R19.2", "records only through the checking constructor"),
                     ("R19.3", "dump/replace codec agreement in the tool"), ("R19.4", "tool order and error discipline")):
        chk.rule(rid, txt)
    E = C.summaries(w)
    fn = M + "::replace_dictionary"
    b = C.body(w, fn)
    chk.fn(fn)
    pfs = [pf for pf in E.paths(fn) if pf.kind == "return"]
    target = C.fpath(1, "0", "dict_model")
    for pf in pfs:
        wr = {absint.pstr(p) for p in pf.written if p[:1] == (("A", 1),)}
        chk.ob("R19.1", "replace_dictionary:writes-only-dictionary", pf.written and all(p[:3] == target for p in pf.written if p[:1] == (("A", 1),)) and effects.is_killed(pf.killed, target),
               "Model::replace_dictionary writes %s; it must overwrite exactly the dictionary field and nothing else of the model" % sorted(wr), site=C.site(b), sample={"written": sorted(wr)})
    R = effects.ReadsBeforeKill(w, E)
    rd = R.rbk(fn) or {}
    reads = sorted(absint.pstr(p) for p in rd.get(1, ()))
    chk.ob("R19.1", "replace_dictionary:reads-nothing-else", all(p.startswith("arg1.0.dict_model") for p in reads), "replace_dictionary reads %s of the model" % reads, site=C.site(b))
    # the new dictionary is the argument
    bi, it, outs = C.run_fn(w, fn)
    vals = set()
    for o in outs:
        if o.kind == "return":
            vals.add(forms.Normalizer(it, o).value_atom(o.value_at(target)))
    chk.ob("R19.1", "replace_dictionary:stores-argument", len(vals) == 1 and "arg2" in list(vals)[0], "the dictionary field receives %s; expected the given records" % sorted(vals), site=C.site(b), sample={"value": sorted(vals)})
    fn = M + "::dictionary"
    bd, it, outs = C.run_fn(w, fn)
    chk.fn(fn)
    rv = set()
    for o in outs:
        if o.kind == "return":
            nz = forms.Normalizer(it, o)
            v = o.value_at((("L", 0),))
            rv.add(nz.value_atom(v) if v[0] != "ref" else "&" + nz.path_atom(v[1]))
    chk.ob("R19.1", "dictionary:returns-dictionary-field", len(rv) == 1 and "dict_model" in list(rv)[0], "Model::dictionary returns %s" % sorted(rv), site=C.site(bd), sample={"returns": sorted(rv)})

    # ---- R19.2
    a = w.adt(WWR)
    pubf = [f["name"] for f in a["variants"][0]["fields"] if f["vis"] == "pub"]
    chk.ob("R19.2", "fields-not-public", not pubf and len(a["variants"][0]["fields"]) == 3, "WordWeightRecord has public fields %s" % pubf, site=a["span"])
    witness.check(chk, "R19.2", "W192RecordFields", 1, 1, "a struct literal of WordWeightRecord outside the crate must not compile (E0451)")
    fn = WWR + "::new"
    bn, it, outs = C.run_fn(w, fn)
    chk.fn(fn)
    rows = set()
    for o in outs:
        if o.kind != "return":
            continue
        nz = forms.Normalizer(it, o)
        rvv = o.value_at((("L", 0),))
        cls = effects.ret_class(rvv)
        cmp_ = []
        for s, info in it.op_info.items():
            c = o.cons.get(s)
            if c and c[0] == "eq":
                fa, fb = forms.show(nz.form(info[1])), forms.show(nz.form(info[2]))
                cmp_.append((info[0], fa, fb, c[1][1]))
        stored = None
        if cls == "Ok" and rvv[3] and rvv[3][0][0] == "agg":
            stored = tuple((k, nz.value_atom(v)) for k, v in rvv[3][0][2])
        rows.add((cls, tuple(cmp_), stored))
    okrows = [r for r in rows if r[0] == "Ok"]
    errrows = [r for r in rows if r[0] == "Err"]
    def equal_len(c):
        op, fa, fb, res = c
        sides = {fa, fb}
        lens = any(re.fullmatch(r"alloc::vec::Vec::len\(&(arg|_)2\)", s) for s in sides)
        cnt = any(re.fullmatch(r"1 \+ <core::str::iter::Chars as core::iter::traits::iterator::Iterator>::count\(str::chars\(&(arg|_)1\.<content>\)\)", s) for s in sides)
        return lens and cnt and ((op == "Ne" and res is False) or (op == "Eq" and res is True))
    def unequal_len(c):
        op, fa, fb, res = c
        return (op == "Ne" and res is True) or (op == "Eq" and res is False)
    ok = len(okrows) == 1 and len(okrows[0][1]) == 1 and equal_len(okrows[0][1][0]) and errrows and all(len(r[1]) == 1 and unequal_len(r[1][0]) for r in errrows)
    chk.ob("R19.2", "new:ok-only-on-length-equality", bool(ok), "WordWeightRecord::new derives (result, comparison) = %s; expected Ok exactly when weights.len() == word.chars().count() + 1" % sorted(rows, key=str), site=C.site(bn),
           sample={"rows": str(sorted(rows, key=str))[:400]})
    st = okrows[0][2] if okrows else None
    chk.ob("R19.2", "new:stores-arguments", st == (("word", "arg1"), ("weights", "arg2"), ("comment", "arg3")), "WordWeightRecord::new stores %s" % (st,), site=C.site(bn))

    # ---- tool
    tool(chk, w)


def tool(chk, w):
    b = w.body("manipulate_model::main", crate="manipulate_model")
    if b is None:
        raise C.AnchorLost("manipulate_model::main")
    chk.fn("manipulate_model::main")
    cf = cfgmod.cfg_of(b)
    calls = {}
    for bb, t in cfgmod.calls(b):
        calls.setdefault(cfgmod.callee(t) or "?", []).append((bb, t))

    def one(name):
        xs = [(n, v) for n, v in calls.items() if n.endswith(name)]
        return xs[0][1] if len(xs) == 1 and len(xs[0][1]) == 1 else None
    rd, dic, rep, wr = one("Model::read"), one("Model::dictionary"), one("Model::replace_dictionary"), one("Model::write")
    newc = one("WordWeightRecord::new")
    chk.ob("R19.4", "tool:calls-present", all(x is not None for x in (rd, dic, rep, wr, newc)), "the model tool does not call each of Model::read / dictionary / replace_dictionary / write / WordWeightRecord::new exactly once", site=C.site(b))
    if all(x is not None for x in (rd, dic, rep, wr, newc)):
        rdb, dib, rpb, wrb, nwb = rd[0][0], dic[0][0], rep[0][0], wr[0][0], newc[0][0]
        chk.ob("R19.4", "tool:read-first", cf.dominates(rdb, dib) and cf.dominates(rdb, rpb) and cf.dominates(rdb, wrb), "Model::read does not precede dump/replace/write", site=C.site(b, rdb))
        chk.ob("R19.4", "tool:dump-before-replace", dib not in cf.reachable(rpb), "the dictionary dump can run after replace_dictionary: the dump would show the new dictionary", site=C.site(b, dib))
        chk.ob("R19.4", "tool:write-after-replace", wrb in cf.reachable(rpb) and rpb not in cf.reachable(wrb), "the model is written before the dictionary is replaced", site=C.site(b, wrb))
        chk.ob("R19.2", "tool:records-through-new", cf.dominates(nwb, rpb) or rpb in cf.reachable(nwb), "replacement records are not built through WordWeightRecord::new", site=C.site(b, nwb))
        # no struct literal of WordWeightRecord in the tool (would not compile, but cheap to assert)
    # ---- every record is kept: an iteration of the dump loop writes its entry, an iteration of the replace loop builds
    # and appends its record (or the tool fails); no path goes round the loop without doing so
    loops = cf.natural_loops()
    for what, anchor, extra in (("replace", "WordWeightRecord::new", "alloc::vec::Vec::push"), ("dump", "::serialize", None)):
        sites = [(bb, n) for n, v in calls.items() for bb, _ in v if n.endswith(anchor)]
        if len(sites) != 1:
            chk.undecided("R19.3", "tool:%s-loop" % what, "expected one call of *%s in the tool, found %d" % (anchor, len(sites)), site=C.site(b))
            continue
        abb = sites[0][0]
        lp = [(h, blks) for h, blks in loops.items() if abb in blks]
        if not lp:
            chk.undecided("R19.3", "tool:%s-loop" % what, "the call of *%s is not inside a loop" % anchor, site=C.site(b, abb))
            continue
        h = max(lp, key=lambda x: len(x[1]))[0]   # the record loop is the outermost loop around the call
        must = [abb]
        if extra:
            # the push of the built record: the push whose pushed value is the result of the anchor call
            pushes = [bb for n, v in calls.items() if n == extra for bb, _ in v if bb in loops[h] and abb in C.blocks_defining_operand(b, bb, 1)]
            must += pushes[:1]
            chk.ob("R19.3", "tool:replace:record-pushed", len(pushes) == 1, "the record built by WordWeightRecord::new is pushed at %s (expected exactly one push of it into the new dictionary)" % pushes, site=C.site(b, abb))
        # path-sensitive: one abstract iteration of the record loop; every path that comes back to the loop header with an
        # item must have gone through the calls in `must` (a failing record leaves the tool with an error instead)
        it = absint.Interp(w, b, models=effects.EXTRA_MODELS, summaries=C.summaries(w))
        pre = [o for o in it.run(0, stop=[h]) if o.kind == "stop"]
        skip = []
        n_back = 0
        if pre:
            for o in it.run(h, stop=set(cf.blocks) - loops[h], env=pre[0].env, cons=pre[0].cons, stop_at_entry_again=True, trace=pre[0].trace):
                if o.kind != "stop" or o.info != h:
                    continue
                item = o.cons.get("ret:%d" % h)
                if not item or item[2] != "Some":
                    continue
                n_back += 1
                seen_bbs = {e[1] for e in o.trace[len(pre[0].trace):] if e[0] == "call"}
                skip += [m for m in must if m not in seen_bbs and m not in skip]
        chk.ob("R19.3", "tool:%s:every-record-kept" % what, not skip and n_back > 0,
               "an iteration of the %s loop of manipulate_model can complete without reaching %s (%d completing path(s)): records are dropped silently, so dump followed by replace is not lossless "
               "(and a dropped record is never validated)" % (what, [C.site(b, m) for m in skip], n_back), site=C.site(b, h), sample={"loop": h, "must": must, "paths": n_back})
    # ---- R19.3
    ser = one("Writer::serialize")
    des = one("Reader::deserialize")
    def ty_of(t):
        g = t["callee"].get("generic", "")
        m = re.findall(r"([A-Za-z_:]*WordWeightRecordFlatten)", g)
        return m[0] if m else g
    chk.ob("R19.3", "tool:same-flatten-type", ser is not None and des is not None and ty_of(ser[0][1]) == ty_of(des[0][1]) and "Flatten" in ty_of(ser[0][1]),
           "csv serialize uses %s, deserialize %s" % (ser and ty_of(ser[0][1]), des and ty_of(des[0][1])), site=C.site(b), sample={"type": ser and ty_of(ser[0][1])})
    # csv reader and writer must be configured alike: any builder option on one side must exist on the other
    ropt, wopt = set(), set()
    for n_, v_ in calls.items():
        m_ = re.match(r"csv::reader::ReaderBuilder::(\w+)$", n_)
        if m_ and m_.group(1) not in ("new", "from_reader", "from_path", "build"):
            ropt.add(m_.group(1))
        m_ = re.match(r"csv::writer::WriterBuilder::(\w+)$", n_)
        if m_ and m_.group(1) not in ("new", "from_writer", "from_path", "build"):
            wopt.add(m_.group(1))
    chk.ob("R19.3", "tool:csv-options-symmetric", ropt == wopt, "the csv reader is configured with %s but the writer with %s: what the dump writes is not what the replace step reads (e.g. a `comment` character makes the reader drop records the writer emits unquoted)"
           % (sorted(ropt), sorted(wopt)), site=C.site(b), sample={"reader_options": sorted(ropt), "writer_options": sorted(wopt)})
    jn, sp = one("[T]::join"), one("str::split")
    def cst(t, i):
        v = C.chase_const(w, b, t["args"][i])
        if v is None:
            return None
        return v[1] if v[0] == "s" else chr(v[1]) if v[0] == "ch" else None
    js = cst(jn[0][1], 1) if jn else None
    ss = cst(sp[0][1], 1) if sp else None
    chk.ob("R19.3", "tool:join-separator==split-separator", js is not None and js == ss, "weights are joined with %r and split at %r" % (js, ss), site=C.site(b), sample={"join": js, "split": ss})
    ps = one("str::parse")
    pty = ps[0][1]["callee"].get("generic", "") if ps else ""
    # formatting side: the closure mapping weights to strings
    fty = set()
    for k in C.closure_keys(w, "manipulate_model::main"):
        bs = w.bodies[k]
        if True:
            for bb, t in cfgmod.calls(bs[0]):
                if (cfgmod.callee(t) or "").endswith("to_string"):
                    fty.add(t["callee"].get("generic", ""))
    chk.ob("R19.3", "tool:weights-i32-both-ways", pty == "[i32]" and fty == {"[i32]"}, "weights are parsed as %s and formatted from %s; expected i32 on both sides" % (pty, sorted(fty)), site=C.site(b), sample={"parse": pty, "format": sorted(fty)})
    # the flatten struct: field names word/weights/comment (serde derives use them as csv headers)
    fl = None
    for c in w.crates.values():
        for p, a in c.adts.items():
            if p.endswith("WordWeightRecordFlatten"):
                fl = a
    chk.ob("R19.3", "tool:flatten-fields", fl is not None and [f["name"] for f in fl["variants"][0]["fields"]] == ["word", "weights", "comment"] and all(f["ty"].endswith("String") for f in fl["variants"][0]["fields"]),
           "the flatten record is not (word, weights, comment) of Strings", site=fl and fl["span"])
    # dump side reads the record through the three getters, replace side passes (word, weights, comment) in order
    error_discipline(chk, w, "R19.4", ["manipulate_model::main"], 10)
