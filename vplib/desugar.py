"""MIR desugaring of iterator pipelines into explicit loops.

Replacing a `for` loop with `continue`/`push` by an iterator chain (`filter`, `map`, `extend`, `unzip`) is a
behaviour-preserving edit that moves the loop's decisions into closures and library adaptors, where a rule anchored at the
function body cannot see them.  Before any analysis the following calls are rewritten in place into the loops they stand
for (closure bodies are spliced in with inline.inline_into), so that the control-flow graph the rules see is the one of the
hand-written loop:

  <Filter as Iterator>::next(&mut it)      it created by Iterator::filter(I, pred)
        loop { n = I.next(); None => None; Some(v) => if pred(&v) { Some(v) } else { continue } }
  <Map as Iterator>::next(&mut it)         it created by Iterator::map(I, f)
        n = I.next(); None => None; Some(v) => Some(f(v))
  <Vec as Extend<T>>::extend(&mut vec, it) it an adaptor chain containing filter/map
        loop { n = it.next(); None => break; Some(x) => vec.push(x) }
  Iterator::unzip(it) -> (Vec<A>, Vec<B>)
        a = Vec::new(); b = Vec::new(); loop { n = it.next(); None => break; Some((x, y)) => { a.push(x); b.push(y) } }; (a, b)

None of these patterns occurs in the tree on which the rules were confirmed, so the pass is inert there."""
import copy
import re

from . import inline

ITER = "core::iter::traits::iterator::Iterator"
MAXR = 8


COLLECT = True


def _callee(t):
    c = t.get("callee") or {}
    if "indirect" in c:
        return ""
    return c.get("resolved") or c.get("path") or ""


def _mk_callee(path, krate="core", unsafe=False):
    return {"path": path, "generic": "[]", "krate": krate, "resolved_krate": krate, "resolved": path, "unsafe": unsafe}


class Rewriter:
    def __init__(self, world, body):
        self.w = world
        self.b = body
        self.j = body.j
        self.changed = 0

    # -------------------------------------------------------------- construction helpers
    def new_local(self, ty, adt=None, tk="adt", mut=True):
        i = len(self.j["locals"])
        self.j["locals"].append({"id": i, "ty": ty, "adt": adt, "tk": tk, "mut": mut})
        return i

    def new_block(self, stmts, term):
        i = len(self.j["blocks"])
        self.j["blocks"].append({"id": i, "cleanup": False, "stmts": stmts, "term": term})
        return i

    def assign(self, local, rv, span, proj=None):
        return {"k": "assign", "place": {"local": local, "proj": proj or []}, "rv": rv, "span": span, "exp": False}

    @staticmethod
    def mv(local, proj=None):
        return {"move": {"local": local, "proj": proj or []}}

    @staticmethod
    def cp(local, proj=None):
        return {"copy": {"local": local, "proj": proj or []}}

    def use(self, operand):
        return {"k": "use", "a": operand}

    def ref(self, local, mut=True, proj=None):
        return {"k": "ref", "mut": mut, "place": {"local": local, "proj": proj or []}}

    def some(self, operand):
        return {"k": "aggr", "adt": "core::option::Option", "variant": "Some", "fields": [operand], "names": ["0"], "is_enum": True}

    def none(self):
        return {"k": "aggr", "adt": "core::option::Option", "variant": "None", "fields": [], "names": [], "is_enum": True}

    def some_payload(self, local):
        return [{"downcast": "Some", "vidx": 1}, {"field": "0", "of": "core::option::Option", "idx": 0}]

    def call(self, path, args, dest, target, span, krate="core"):
        return {"k": "call", "callee": _mk_callee(path, krate), "args": args, "dest": {"local": dest, "proj": []}, "target": target, "span": span, "exp": False, "_ds": True}

    def next_loop_head(self, it_local, opt_ty, span, on_none, on_some_builder):
        """blocks: H: n = <adt as Iterator>::next(&mut it) ; D: switch discr(n) [None -> on_none, Some -> S]; returns (H, n_local)"""
        adt = self.j["locals"][it_local]["adt"] or "?"
        r = self.new_local("&mut " + self.j["locals"][it_local]["ty"], adt, "refmut")
        n = self.new_local(opt_ty, "core::option::Option", "adt")
        d = self.new_local("isize", None, "int")
        H = self.new_block([self.assign(r, self.ref(it_local, True), span)], None)
        S = on_some_builder(n, H)
        D = self.new_block([self.assign(d, {"k": "discr", "place": {"local": n, "proj": []}, "adt": "core::option::Option", "ty": opt_ty}, span)],
                           {"k": "switch", "discr": self.mv(d), "arms": [[0, on_none], [1, S]], "otherwise": on_none, "span": span})
        self.j["blocks"][H]["term"] = self.call("<%s as %s>::next" % (adt, ITER), [self.mv(r)], n, D, span)
        return H, n

    # -------------------------------------------------------------- def chains
    def defs(self):
        d = {}
        for blk in self.j["blocks"]:
            if blk["cleanup"]:
                continue
            for s in blk["stmts"]:
                if s["k"] == "assign" and not s["place"]["proj"]:
                    d.setdefault(s["place"]["local"], []).append(("assign", blk["id"], s))
            t = blk["term"]
            if t and t["k"] == "call" and not t["dest"]["proj"]:
                d.setdefault(t["dest"]["local"], []).append(("call", blk["id"], t))
        return d

    def creator(self, local, names, defs, depth=0):
        """the call (block id, term) that created the iterator value held in `local`: follows moves, `&mut` reborrows and the
        identity IntoIterator::into_iter; `names` = accepted creator callee suffixes"""
        if depth > 12:
            return None
        ds = defs.get(local, [])
        if len(ds) != 1:
            return None
        kind, bb, x = ds[0]
        if kind == "call":
            c = _callee(x)
            if any(c == ITER + "::" + n for n in names):
                return bb, x
            if c.endswith("IntoIterator>::into_iter") or c.endswith("IntoIterator::into_iter"):
                p = x["args"][0].get("move") or x["args"][0].get("copy")
                if p and not p["proj"]:
                    return self.creator(p["local"], names, defs, depth + 1)
            return None
        rv = x["rv"]
        if rv["k"] == "use":
            p = rv["a"].get("move") or rv["a"].get("copy")
            if p and not p["proj"]:
                return self.creator(p["local"], names, defs, depth + 1)
        if rv["k"] == "ref" and rv["place"]["proj"] in ([], ["deref"]):
            return self.creator(rv["place"]["local"], names, defs, depth + 1)
        return None

    def closure_body(self, operand):
        """body of the closure passed as `operand` (a closure-typed local or a zero-sized closure constant)"""
        ty = None
        p = operand.get("move") or operand.get("copy")
        if p is not None:
            ty = self.j["locals"][p["local"]]["ty"]
        elif "const" in operand:
            ty = operand["const"].get("zst") or operand["const"].get("ty")
        m = re.search(r"\{closure@[^}]*\}", ty or "")
        if not m:
            return None
        key = m.group(0)
        for k, bs in self.w.bodies.items():
            if "{closure" in k and "#promoted" not in k and len(bs[0].locals) > 1 and key in bs[0].locals[1]["ty"]:
                return bs[0]
        return None

    def stash(self, blk, operand, span):
        """copy an operand into a fresh local in front of block `blk`'s terminator; returns the local"""
        p = operand.get("move") or operand.get("copy")
        if p is not None:
            src = self.j["locals"][p["local"]]
            l = self.new_local(src["ty"], src["adt"], src["tk"])
            blk["stmts"].append(self.assign(l, self.use({"copy": copy.deepcopy(p)}), span))
        else:
            cty = operand["const"].get("zst") or operand["const"].get("ty") or "?"
            l = self.new_local(cty, None, "closure")
            blk["stmts"].append(self.assign(l, self.use(copy.deepcopy(operand)), span))
        return l

    # -------------------------------------------------------------- rewrites
    def adaptor_state(self, created, span):
        """at the creating call Iterator::filter/map(I, C): stash I and C into fresh locals (once per call site)"""
        bb, t = created
        key = "_ds_state"
        if key not in t:
            blk = next((x for x in self.j["blocks"] if x["term"] is t), self.j["blocks"][bb])
            clo = self.stash(blk, t["args"][1], span)
            p = t["args"][0].get("move") or t["args"][0].get("copy")
            if p is not None and blk["term"] is t:
                # the inner iterator goes through an explicit (identity) into_iter call, as in a `for` loop: rules that name loops by
                # their into_iter call see the rewritten pipeline like the loop it is equivalent to
                src = self.j["locals"][p["local"]]
                inner = self.new_local(src["ty"], src["adt"], src["tk"])
                nb = self.new_block([], t)
                blk["term"] = self.call("core::iter::traits::collect::IntoIterator::into_iter", [{"copy": copy.deepcopy(p)}], inner, nb, span)
            else:
                inner = self.stash(blk, t["args"][0], span)
            t[key] = (inner, clo)
        return t[key]

    def rewrite_next(self, blk, kind, defs):
        t = blk["term"]
        span = t.get("span")
        a0 = t["args"][0].get("move") or t["args"][0].get("copy")
        if a0 is None or a0["proj"] or t.get("target") is None:
            return False
        created = self.creator(a0["local"], [kind], defs)
        if created is None:
            return False
        cbody = self.closure_body(created[1]["args"][1])
        if cbody is None:
            return False
        inner, clo = self.adaptor_state(created, span)
        D, T = t["dest"], t["target"]
        dty = self.j["locals"][D["local"]]["ty"] if not D["proj"] else "core::option::Option<?>"
        if kind == "filter":
            opt_ty = dty
            item_ty = re.sub(r"^(std|core)::option::Option<(.*)>$", r"\2", dty)
        else:
            item_ty = cbody.locals[2]["ty"] if len(cbody.locals) > 2 else "?"
            opt_ty = "core::option::Option<%s>" % item_ty
        none_b = self.new_block([{"k": "assign", "place": copy.deepcopy(D), "rv": self.none(), "span": span, "exp": False}], {"k": "goto", "target": T})

        def on_some(n, H):
            v = self.new_local(item_ty, None, "adt")
            cr = self.new_local("&mut " + self.j["locals"][clo]["ty"], None, "refmut")
            stm = [self.assign(v, self.use(self.mv(n, self.some_payload(n))), span), self.assign(cr, self.ref(clo, True), span)]
            if kind == "filter":
                vr = self.new_local("&" + item_ty, None, "ref")
                p = self.new_local("bool", None, "bool")
                stm.append(self.assign(vr, self.ref(v, False), span))
                yes = self.new_block([{"k": "assign", "place": copy.deepcopy(D), "rv": self.some(self.mv(v)), "span": span, "exp": False}], {"k": "goto", "target": T})
                sw = self.new_block([], {"k": "switch", "discr": self.mv(p), "arms": [[0, H]], "otherwise": yes, "span": span})
                return self.new_block(stm, self.call(cbody.fn, [self.mv(cr), self.mv(vr)], p, sw, span, krate=cbody.crate.name))
            y = self.new_local(cbody.locals[0]["ty"], cbody.locals[0]["adt"], cbody.locals[0]["tk"])
            fin = self.new_block([{"k": "assign", "place": copy.deepcopy(D), "rv": self.some(self.mv(y)), "span": span, "exp": False}], {"k": "goto", "target": T})
            return self.new_block(stm, self.call(cbody.fn, [self.mv(cr), self.mv(v)], y, fin, span, krate=cbody.crate.name))
        H, _ = self.next_loop_head(inner, opt_ty, span, none_b, on_some)
        blk["term"] = {"k": "goto", "target": H}
        self.splice_closures({cbody.fn: cbody})
        self.w.inlined[cbody.fn] = True
        return True

    def is_pipeline(self, local, defs):
        return self.creator(local, ["filter", "map"], defs) is not None

    def rewrite_extend(self, blk, defs):
        t = blk["term"]
        span = t.get("span")
        pv = t["args"][0].get("move") or t["args"][0].get("copy")
        pi = t["args"][1].get("move") or t["args"][1].get("copy")
        if pv is None or pi is None or pv["proj"] or pi["proj"] or t.get("target") is None or not self.is_pipeline(pi["local"], defs):
            return False
        vty = self.j["locals"][pv["local"]]["ty"]
        m = re.search(r"Vec<(.*)>$", vty)
        item_ty = m.group(1) if m else "?"
        it = self.stash(blk, t["args"][1], span)
        D, T = t["dest"], t["target"]
        done = self.new_block([{"k": "assign", "place": copy.deepcopy(D), "rv": {"k": "tuple", "fields": []}, "span": span, "exp": False}], {"k": "goto", "target": T})

        def on_some(n, H):
            x = self.new_local(item_ty, None, "adt")
            vr = self.new_local(vty, "alloc::vec::Vec", "refmut")
            u = self.new_local("()", None, "unit")
            stm = [self.assign(x, self.use(self.mv(n, self.some_payload(n))), span), self.assign(vr, self.ref(pv["local"], True, ["deref"]), span)]
            return self.new_block(stm, self.call("alloc::vec::Vec::push", [self.mv(vr), self.mv(x)], u, H, span, krate="alloc"))
        H, _ = self.next_loop_head(it, "core::option::Option<%s>" % item_ty, span, done, on_some)
        blk["term"] = {"k": "goto", "target": H}
        return True

    def rewrite_collect(self, blk, defs):
        """v = pipeline.collect::<Vec<T>>()   ->   v = Vec::new(); loop { match it.next() { Some(x) => v.push(x), None => break } }"""
        t = blk["term"]
        span = t.get("span")
        pi = t["args"][0].get("move") or t["args"][0].get("copy")
        D, T = t["dest"], t.get("target")
        if pi is None or pi["proj"] or T is None or D["proj"] or not self.is_pipeline(pi["local"], defs):
            return False
        vty = self.j["locals"][D["local"]]["ty"]
        m = re.fullmatch(r"(?:std|alloc)::vec::Vec<(.*)>", vty)
        if not m:
            return False
        item_ty = m.group(1)
        it = self.stash(blk, t["args"][0], span)
        done = self.new_block([], {"k": "goto", "target": T})

        def on_some(n, H):
            x = self.new_local(item_ty, None, "adt")
            vr = self.new_local("&mut " + vty, "alloc::vec::Vec", "refmut")
            u = self.new_local("()", None, "unit")
            stm = [self.assign(x, self.use(self.mv(n, self.some_payload(n))), span), self.assign(vr, self.ref(D["local"], True), span)]
            return self.new_block(stm, self.call("alloc::vec::Vec::push", [self.mv(vr), self.mv(x)], u, H, span, krate="alloc"))
        H, _ = self.next_loop_head(it, "core::option::Option<%s>" % item_ty, span, done, on_some)
        blk["term"] = self.call("alloc::vec::Vec::new", [], D["local"], H, span, krate="alloc")
        return True

    def rewrite_fold(self, blk, defs, tryf):
        """acc = it.fold(init, f)       ->  acc = init; loop { match it.next() { Some(x) => acc = f(acc, x), None => break } }
        r = it.try_fold(init, f)     ->  the same with `match f(acc, x) { Ok(v)/Some(v) => acc = v, miss => { r = miss; break } }`, r = Ok/Some(acc) at the end"""
        t = blk["term"]
        span = t.get("span")
        D, T = t["dest"], t.get("target")
        if T is None or D["proj"] or len(t["args"]) != 3:
            return False
        p0 = t["args"][0].get("move") or t["args"][0].get("copy")
        if p0 is None or p0["proj"]:
            return False
        itl = p0["local"]
        if tryf:
            # try_fold takes `&mut self`: the iterator is the referent of the reference
            ds = defs.get(itl, [])
            if len(ds) != 1 or ds[0][0] != "assign" or ds[0][2]["rv"]["k"] != "ref" or ds[0][2]["rv"]["place"]["proj"]:
                return False
            itl = ds[0][2]["rv"]["place"]["local"]
        if not self.j["locals"][itl].get("adt"):
            return False
        cbody = self.closure_body(t["args"][2])
        if cbody is None or cbody.arg_count != 3:
            return False
        acc_ty = cbody.locals[2]["ty"]
        item_ty = cbody.locals[3]["ty"]
        rty = cbody.locals[0]["ty"]
        if tryf:
            m = re.match(r"(?:std|core)::(result::Result|option::Option)<", rty)
            if not m:
                return False
            adt = "core::" + m.group(1)
            hit, hidx, midx = ("Ok", 0, 1) if "Result" in adt else ("Some", 1, 0)
        # the iterator goes through an explicit (identity) into_iter call, as in a `for` loop
        src = self.j["locals"][itl]
        it = self.new_local(src["ty"], src["adt"], src["tk"])
        acc = self.stash(blk, t["args"][1], span)
        clo = self.stash(blk, t["args"][2], span)
        if tryf:
            fin_rv = {"k": "aggr", "adt": adt, "variant": hit, "fields": [self.mv(acc)], "names": ["0"], "is_enum": True}
        else:
            fin_rv = self.use(self.mv(acc))
        done = self.new_block([{"k": "assign", "place": copy.deepcopy(D), "rv": fin_rv, "span": span, "exp": False}], {"k": "goto", "target": T})

        def on_some(n, H):
            x = self.new_local(item_ty, None, "adt")
            cr = self.new_local("&mut " + self.j["locals"][clo]["ty"], None, "refmut")
            y = self.new_local(rty, cbody.locals[0]["adt"], cbody.locals[0]["tk"])
            stm = [self.assign(x, self.use(self.mv(n, self.some_payload(n))), span), self.assign(cr, self.ref(clo, True), span)]
            if not tryf:
                back = self.new_block([self.assign(acc, self.use(self.mv(y)), span)], {"k": "goto", "target": H})
            else:
                d = self.new_local("isize", None, "int")
                cont = self.new_block([self.assign(acc, self.use(self.mv(y, [{"downcast": hit, "vidx": hidx}, {"field": "0", "of": adt, "idx": 0}])), span)], {"k": "goto", "target": H})
                brk = self.new_block([{"k": "assign", "place": copy.deepcopy(D), "rv": self.use(self.mv(y)), "span": span, "exp": False}], {"k": "goto", "target": T})
                back = self.new_block([self.assign(d, {"k": "discr", "place": {"local": y, "proj": []}, "adt": adt, "ty": rty}, span)],
                                      {"k": "switch", "discr": self.mv(d), "arms": [[hidx, cont], [midx, brk]], "otherwise": brk, "span": span})
            return self.new_block(stm, self.call(cbody.fn, [self.mv(cr), self.mv(acc), self.mv(x)], y, back, span, krate=cbody.crate.name))
        H, _ = self.next_loop_head(it, "core::option::Option<%s>" % item_ty, span, done, on_some)
        blk["term"] = self.call("core::iter::traits::collect::IntoIterator::into_iter", [self.cp(itl)], it, H, span)
        self.splice_closures({cbody.fn: cbody})
        self.w.inlined[cbody.fn] = True
        return True

    def rewrite_try_for_each(self, blk, defs):
        """it.try_for_each(f)   ->   for x in it { match f(x) { Ok(()) / Some(()) => {}, miss => return-value = miss, break } }; Ok(())"""
        t = blk["term"]
        span = t.get("span")
        D, T = t["dest"], t.get("target")
        if T is None or D["proj"] or len(t["args"]) != 2:
            return False
        p0 = t["args"][0].get("move") or t["args"][0].get("copy")
        if p0 is None or p0["proj"]:
            return False
        ds = defs.get(p0["local"], [])
        if len(ds) != 1 or ds[0][0] != "assign" or ds[0][2]["rv"]["k"] != "ref" or ds[0][2]["rv"]["place"]["proj"]:
            return False
        itl = ds[0][2]["rv"]["place"]["local"]
        if not self.j["locals"][itl].get("adt"):
            return False
        cbody = self.closure_body(t["args"][1])
        if cbody is None or cbody.arg_count != 2:
            return False
        rty = cbody.locals[0]["ty"]
        m = re.match(r"(?:std|core)::(result::Result|option::Option)<", rty)
        if not m:
            return False
        adt = "core::" + m.group(1)
        hit, hidx, midx = ("Ok", 0, 1) if "Result" in adt else ("Some", 1, 0)
        item_ty = cbody.locals[2]["ty"]
        src = self.j["locals"][itl]
        it = self.new_local(src["ty"], src["adt"], src["tk"])
        clo = self.stash(blk, t["args"][1], span)
        fin_rv = {"k": "aggr", "adt": adt, "variant": hit, "fields": [{"const": {"unit": True, "ty": "()"}}], "names": ["0"], "is_enum": True}
        done = self.new_block([{"k": "assign", "place": copy.deepcopy(D), "rv": fin_rv, "span": span, "exp": False}], {"k": "goto", "target": T})

        def on_some(n, H):
            x = self.new_local(item_ty, None, "adt")
            cr = self.new_local("&mut " + self.j["locals"][clo]["ty"], None, "refmut")
            y = self.new_local(rty, cbody.locals[0]["adt"], cbody.locals[0]["tk"])
            d = self.new_local("isize", None, "int")
            stm = [self.assign(x, self.use(self.mv(n, self.some_payload(n))), span), self.assign(cr, self.ref(clo, True), span)]
            brk = self.new_block([{"k": "assign", "place": copy.deepcopy(D), "rv": self.use(self.mv(y)), "span": span, "exp": False}], {"k": "goto", "target": T})
            back = self.new_block([self.assign(d, {"k": "discr", "place": {"local": y, "proj": []}, "adt": adt, "ty": rty}, span)],
                                  {"k": "switch", "discr": self.mv(d), "arms": [[hidx, H], [midx, brk]], "otherwise": brk, "span": span})
            return self.new_block(stm, self.call(cbody.fn, [self.mv(cr), self.mv(x)], y, back, span, krate=cbody.crate.name))
        H, _ = self.next_loop_head(it, "core::option::Option<%s>" % item_ty, span, done, on_some)
        blk["term"] = self.call("core::iter::traits::collect::IntoIterator::into_iter", [self.cp(itl)], it, H, span)
        self.splice_closures({cbody.fn: cbody})
        self.w.inlined[cbody.fn] = True
        return True

    def rewrite_for_each(self, blk, defs):
        """it.for_each(f)   ->   for x in it { f(x) }   (closure body spliced in)"""
        t = blk["term"]
        span = t.get("span")
        D, T = t["dest"], t.get("target")
        if T is None or D["proj"] or len(t["args"]) != 2:
            return False
        p0 = t["args"][0].get("move") or t["args"][0].get("copy")
        if p0 is None or p0["proj"] or not self.j["locals"][p0["local"]].get("adt"):
            return False
        cbody = self.closure_body(t["args"][1])
        if cbody is None or cbody.arg_count != 2:
            return False
        item_ty = cbody.locals[2]["ty"]
        src = self.j["locals"][p0["local"]]
        it = self.new_local(src["ty"], src["adt"], src["tk"])
        clo = self.stash(blk, t["args"][1], span)
        done = self.new_block([{"k": "assign", "place": copy.deepcopy(D), "rv": {"k": "tuple", "fields": []}, "span": span, "exp": False}], {"k": "goto", "target": T})

        def on_some(n, H):
            x = self.new_local(item_ty, None, "adt")
            cr = self.new_local("&mut " + self.j["locals"][clo]["ty"], None, "refmut")
            y = self.new_local("()", None, "unit")
            stm = [self.assign(x, self.use(self.mv(n, self.some_payload(n))), span), self.assign(cr, self.ref(clo, True), span)]
            return self.new_block(stm, self.call(cbody.fn, [self.mv(cr), self.mv(x)], y, H, span, krate=cbody.crate.name))
        H, _ = self.next_loop_head(it, "core::option::Option<%s>" % item_ty, span, done, on_some)
        blk["term"] = self.call("core::iter::traits::collect::IntoIterator::into_iter", [self.cp(p0["local"])], it, H, span)
        self.splice_closures({cbody.fn: cbody})
        self.w.inlined[cbody.fn] = True
        return True

    def rewrite_closure_call(self, blk):
        """a local closure called like a function, `f(a, b)`: MIR passes (env, (a, b)); the closure body takes (env, a, b).
        Every call site of that closure in this body is rewritten to the untupled form and the body spliced in, as for an
        extracted helper function."""
        name = _callee(blk["term"])
        cbody = self.w.body(name)
        if cbody is None or cbody.fn == self.b.fn:
            return False
        sites = [bl for bl in self.j["blocks"] if not bl["cleanup"] and bl["term"] and bl["term"]["k"] == "call" and _callee(bl["term"]) == name and not bl["term"].get("_ds")]
        for bl in sites:
            t = bl["term"]
            p1 = (t["args"][1].get("move") or t["args"][1].get("copy")) if len(t["args"]) == 2 else None
            if p1 is None or p1["proj"] or t.get("target") is None or t["dest"]["proj"]:
                return False
        n = cbody.arg_count - 1
        for bl in sites:
            t = bl["term"]
            span = t.get("span")
            p1 = t["args"][1].get("move") or t["args"][1].get("copy")
            args = [t["args"][0]]
            for i in range(n):
                x = self.new_local(cbody.locals[2 + i]["ty"], cbody.locals[2 + i]["adt"], cbody.locals[2 + i]["tk"])
                bl["stmts"].append(self.assign(x, self.use(self.mv(p1["local"], [{"field": str(i), "of": "tuple", "idx": i}])), span))
                args.append(self.mv(x))
            bl["term"] = self.call(cbody.fn, args, t["dest"]["local"], t["target"], span, krate=cbody.crate.name)
        self.splice_closures({cbody.fn: cbody})
        self.w.inlined[cbody.fn] = True
        return True

    def rewrite_then(self, blk):
        """b.then(f)   ->   if b { Some(f()) } else { None }   (closure body spliced in)"""
        t = blk["term"]
        span = t.get("span")
        D, T = t["dest"], t.get("target")
        if T is None or len(t["args"]) != 2:
            return False
        cbody = self.closure_body(t["args"][1])
        if cbody is None or cbody.arg_count != 1:
            return False
        cond = self.stash(blk, t["args"][0], span)
        clo = self.stash(blk, t["args"][1], span)
        none_b = self.new_block([{"k": "assign", "place": copy.deepcopy(D), "rv": self.none(), "span": span, "exp": False}], {"k": "goto", "target": T})
        y = self.new_local(cbody.locals[0]["ty"], cbody.locals[0]["adt"], cbody.locals[0]["tk"])
        fin = self.new_block([{"k": "assign", "place": copy.deepcopy(D), "rv": self.some(self.mv(y)), "span": span, "exp": False}], {"k": "goto", "target": T})
        some_b = self.new_block([], self.call(cbody.fn, [self.mv(clo)], y, fin, span, krate=cbody.crate.name))
        blk["term"] = {"k": "switch", "discr": self.mv(cond), "arms": [[0, none_b]], "otherwise": some_b, "span": span}
        self.splice_closures({cbody.fn: cbody})
        self.w.inlined[cbody.fn] = True
        return True

    def rewrite_ok_or_else(self, blk):
        """o.ok_or_else(f)   ->   match o { Some(v) => Ok(v), None => Err(f()) }"""
        t = blk["term"]
        span = t.get("span")
        D, T = t["dest"], t.get("target")
        if T is None or len(t["args"]) != 2:
            return False
        cbody = self.closure_body(t["args"][1])
        if cbody is None or cbody.arg_count != 1:
            return False
        OPT, RES = "core::option::Option", "core::result::Result"
        src = self.stash(blk, t["args"][0], span)
        clo = self.stash(blk, t["args"][1], span)
        d = self.new_local("isize", None, "int")
        blk["stmts"].append(self.assign(d, {"k": "discr", "place": {"local": src, "proj": []}, "adt": OPT, "ty": self.j["locals"][src]["ty"]}, span))
        ok_rv = {"k": "aggr", "adt": RES, "variant": "Ok", "fields": [self.mv(src, self.some_payload(src))], "names": ["0"], "is_enum": True}
        ok_b = self.new_block([{"k": "assign", "place": copy.deepcopy(D), "rv": ok_rv, "span": span, "exp": False}], {"k": "goto", "target": T})
        y = self.new_local(cbody.locals[0]["ty"], cbody.locals[0]["adt"], cbody.locals[0]["tk"])
        err_rv = {"k": "aggr", "adt": RES, "variant": "Err", "fields": [self.mv(y)], "names": ["0"], "is_enum": True}
        fin = self.new_block([{"k": "assign", "place": copy.deepcopy(D), "rv": err_rv, "span": span, "exp": False}], {"k": "goto", "target": T})
        err_b = self.new_block([], self.call(cbody.fn, [self.mv(clo)], y, fin, span, krate=cbody.crate.name))
        blk["term"] = {"k": "switch", "discr": self.mv(d), "arms": [[0, err_b], [1, ok_b]], "otherwise": err_b, "span": span}
        self.splice_closures({cbody.fn: cbody})
        self.w.inlined[cbody.fn] = True
        return True

    def rewrite_unzip(self, blk, defs):
        t = blk["term"]
        span = t.get("span")
        pi = t["args"][0].get("move") or t["args"][0].get("copy")
        D, T = t["dest"], t.get("target")
        if pi is None or pi["proj"] or T is None or D["proj"] or not self.is_pipeline(pi["local"], defs):
            return False
        dty = self.j["locals"][D["local"]]["ty"]
        m = re.fullmatch(r"\((.*Vec<.*>), (.*Vec<.*>)\)", dty)
        if not m:
            return False
        # split at the top-level comma
        depth, cut = 0, None
        inner = dty[1:-1]
        for i, ch in enumerate(inner):
            depth += ch in "<(["
            depth -= ch in ">)]"
            if ch == "," and depth == 0:
                cut = i
                break
        if cut is None:
            return False
        ta, tb = inner[:cut].strip(), inner[cut + 1:].strip()
        ia = re.search(r"Vec<(.*)>$", ta)
        ib = re.search(r"Vec<(.*)>$", tb)
        if not ia or not ib:
            return False
        it = self.stash(blk, t["args"][0], span)
        va = self.new_local(ta, "alloc::vec::Vec", "adt")
        vb = self.new_local(tb, "alloc::vec::Vec", "adt")
        done = self.new_block([{"k": "assign", "place": copy.deepcopy(D), "rv": {"k": "tuple", "fields": [self.mv(va), self.mv(vb)]}, "span": span, "exp": False}],
                              {"k": "goto", "target": T})

        def on_some(n, H):
            pr = self.new_local("(%s, %s)" % (ia.group(1), ib.group(1)), None, "tuple")
            x = self.new_local(ia.group(1), None, "adt")
            y = self.new_local(ib.group(1), None, "adt")
            ra = self.new_local("&mut " + ta, "alloc::vec::Vec", "refmut")
            rb = self.new_local("&mut " + tb, "alloc::vec::Vec", "refmut")
            u1 = self.new_local("()", None, "unit")
            u2 = self.new_local("()", None, "unit")
            second = self.new_block([self.assign(rb, self.ref(vb, True), span)], self.call("alloc::vec::Vec::push", [self.mv(rb), self.mv(y)], u2, H, span, krate="alloc"))
            stm = [self.assign(pr, self.use(self.mv(n, self.some_payload(n))), span),
                   self.assign(x, self.use(self.mv(pr, [{"field": "0", "of": "tuple", "idx": 0}])), span),
                   self.assign(y, self.use(self.mv(pr, [{"field": "1", "of": "tuple", "idx": 1}])), span),
                   self.assign(ra, self.ref(va, True), span)]
            return self.new_block(stm, self.call("alloc::vec::Vec::push", [self.mv(ra), self.mv(x)], u1, second, span, krate="alloc"))
        H, _ = self.next_loop_head(it, "core::option::Option<(%s, %s)>" % (ia.group(1), ib.group(1)), span, done, on_some)
        nb = self.new_block([], self.call("alloc::vec::Vec::new", [], vb, H, span, krate="alloc"))
        na = self.new_block([], self.call("alloc::vec::Vec::new", [], va, nb, span, krate="alloc"))
        blk["term"] = {"k": "goto", "target": na}
        return True

    def resolve_fn_item(self, path, args):
        """a trait method named through the trait (`core::convert::From::from` with generic args [Self, T]) -> the workspace impl
        `<Self as Trait<..>>::method` when exactly one body matches"""
        if self.w.body(path) is not None or not args.startswith("["):
            return path
        first = re.split(r",\s*(?![^<]*>)", args[1:-1])[0].strip()
        self0 = re.sub(r"<.*>$", "", first)
        trait, _, method = path.rpartition("::")
        cands = [k for k in self.w.bodies if "#promoted" not in k and "{closure" not in k and k.endswith(">::" + method)
                 and re.match(r"<(?:[\w:]*::)?%s as %s[<>]" % (re.escape(self0), re.escape(trait)), k)]
        return cands[0] if len(cands) == 1 else path

    def rewrite_value_map(self, blk, kind):
        """Option::map(o, f) / Result::map(r, f): a match on the variant with f applied to the payload of Some / Ok"""
        t = blk["term"]
        span = t.get("span")
        D, T = t["dest"], t.get("target")
        if T is None or len(t["args"]) != 2:
            return False
        cbody = self.closure_body(t["args"][1])
        adt = "core::option::Option" if kind == "option" else "core::result::Result"
        hit, hidx, miss, midx = ("Some", 1, "None", 0) if kind == "option" else ("Ok", 0, "Err", 1)
        fnitem = t["args"][1].get("const", {}).get("fn") if cbody is None and "const" in t["args"][1] else None
        if cbody is None and fnitem:
            # `.map(Self::from)`: a function item instead of a closure - the hit arm calls it directly
            fnitem = self.resolve_fn_item(fnitem, t["args"][1]["const"].get("args", ""))
            fb = self.w.body(fnitem)
            src = self.stash(blk, t["args"][0], span)
            d = self.new_local("isize", None, "int")
            blk["stmts"].append(self.assign(d, {"k": "discr", "place": {"local": src, "proj": []}, "adt": adt, "ty": self.j["locals"][src]["ty"]}, span))
            if kind == "option":
                miss_rv = self.none()
            else:
                miss_rv = {"k": "aggr", "adt": adt, "variant": "Err", "fields": [self.mv(src, [{"downcast": "Err", "vidx": 1}, {"field": "0", "of": adt, "idx": 0}])], "names": ["0"], "is_enum": True}
            miss_b = self.new_block([{"k": "assign", "place": copy.deepcopy(D), "rv": miss_rv, "span": span, "exp": False}], {"k": "goto", "target": T})
            v = self.new_local(fb.locals[1]["ty"] if fb is not None and len(fb.locals) > 1 else "?", None, "adt")
            y = self.new_local(fb.locals[0]["ty"] if fb is not None else "?", fb.locals[0]["adt"] if fb is not None else None, fb.locals[0]["tk"] if fb is not None else "adt")
            stm = [self.assign(v, self.use(self.mv(src, [{"downcast": hit, "vidx": hidx}, {"field": "0", "of": adt, "idx": 0}])), span)]
            hit_rv = {"k": "aggr", "adt": adt, "variant": hit, "fields": [self.mv(y)], "names": ["0"], "is_enum": True}
            fin = self.new_block([{"k": "assign", "place": copy.deepcopy(D), "rv": hit_rv, "span": span, "exp": False}], {"k": "goto", "target": T})
            hit_b = self.new_block(stm, self.call(fnitem, [self.mv(v)], y, fin, span, krate=fnitem.lstrip("<").split("::")[0]))
            blk["term"] = {"k": "switch", "discr": self.mv(d), "arms": [[midx, miss_b], [hidx, hit_b]], "otherwise": miss_b, "span": span}
            return True
        if cbody is None:
            return False
        src = self.stash(blk, t["args"][0], span)
        clo = self.stash(blk, t["args"][1], span)
        d = self.new_local("isize", None, "int")
        blk["stmts"].append(self.assign(d, {"k": "discr", "place": {"local": src, "proj": []}, "adt": adt, "ty": self.j["locals"][src]["ty"]}, span))
        # miss arm: None stays None, Err(e) stays Err(e)
        if kind == "option":
            miss_rv = self.none()
        else:
            miss_rv = {"k": "aggr", "adt": adt, "variant": "Err", "fields": [self.mv(src, [{"downcast": "Err", "vidx": 1}, {"field": "0", "of": adt, "idx": 0}])], "names": ["0"], "is_enum": True}
        miss_b = self.new_block([{"k": "assign", "place": copy.deepcopy(D), "rv": miss_rv, "span": span, "exp": False}], {"k": "goto", "target": T})
        item_ty = cbody.locals[2]["ty"] if len(cbody.locals) > 2 else "?"
        v = self.new_local(item_ty, None, "adt")
        y = self.new_local(cbody.locals[0]["ty"], cbody.locals[0]["adt"], cbody.locals[0]["tk"])
        env_ty = cbody.locals[1]["ty"]
        stm = [self.assign(v, self.use(self.mv(src, [{"downcast": hit, "vidx": hidx}, {"field": "0", "of": adt, "idx": 0}])), span)]
        if env_ty.startswith("&mut "):
            cr = self.new_local(env_ty, None, "refmut")
            stm.append(self.assign(cr, self.ref(clo, True), span))
            env_op = self.mv(cr)
        elif env_ty.startswith("&"):
            cr = self.new_local(env_ty, None, "ref")
            stm.append(self.assign(cr, self.ref(clo, False), span))
            env_op = self.mv(cr)
        else:
            env_op = self.mv(clo)
        hit_rv = {"k": "aggr", "adt": adt, "variant": hit, "fields": [self.mv(y)], "names": ["0"], "is_enum": True}
        fin = self.new_block([{"k": "assign", "place": copy.deepcopy(D), "rv": hit_rv, "span": span, "exp": False}], {"k": "goto", "target": T})
        hit_b = self.new_block(stm, self.call(cbody.fn, [env_op, self.mv(v)], y, fin, span, krate=cbody.crate.name))
        blk["term"] = {"k": "switch", "discr": self.mv(d), "arms": [[midx, miss_b], [hidx, hit_b]], "otherwise": miss_b, "span": span}
        self.splice_closures({cbody.fn: cbody})
        self.w.inlined[cbody.fn] = True
        return True

    def splice_closures(self, helpers):
        self.sync()
        counter = [self.w._ds_counter]
        inline.inline_into(self.w, self.b, helpers, counter)
        self.w._ds_counter = counter[0]
        self.j = self.b.j

    def sync(self):
        self.b.locals = self.j["locals"]
        self.b.blocks = self.j["blocks"]
        self.b.debug = self.j["debug"]
        self.b._names = None
        self.b._preds = None

    def run(self):
        for _ in range(MAXR):
            progress = False
            defs = self.defs()
            for blk in list(self.j["blocks"]):
                t = blk["term"]
                if blk["cleanup"] or not t or t["k"] != "call":
                    continue
                c = _callee(t)
                ok = False
                if c == "<core::iter::adapters::filter::Filter as %s>::next" % ITER:
                    ok = self.rewrite_next(blk, "filter", defs)
                elif c == "<core::iter::adapters::map::Map as %s>::next" % ITER:
                    ok = self.rewrite_next(blk, "map", defs)
                elif re.search(r"<alloc::vec::Vec as core::iter::traits::collect::Extend(<.*>)?>::extend$", c):
                    ok = self.rewrite_extend(blk, defs)
                elif c == ITER + "::collect" and COLLECT:
                    ok = self.rewrite_collect(blk, defs)
                elif re.search(r"core::iter::traits::iterator::Iterator>?::(try_fold|fold)$", c) and \
                        ITER + "::" + c.rsplit("::", 1)[1] not in self.w._baseline_adaptors.get(self.b.fn, ()):
                    # only where the combinator was introduced after the rules were confirmed (inert on the confirmed tree)
                    ok = self.rewrite_fold(blk, defs, c.endswith("try_fold"))
                elif re.search(r"core::iter::traits::iterator::Iterator>?::try_for_each$", c):
                    ok = self.rewrite_try_for_each(blk, defs)
                elif re.search(r"core::iter::traits::iterator::Iterator>?::for_each$", c) and ITER + "::for_each" not in self.w._baseline_adaptors.get(self.b.fn, ()):
                    ok = self.rewrite_for_each(blk, defs)
                elif "::{closure#" in c and not t.get("_ds") and self.b.fn in c:
                    ok = self.rewrite_closure_call(blk)
                elif c == "bool::then" and c not in self.w._baseline_adaptors.get(self.b.fn, ()):
                    ok = self.rewrite_then(blk)
                elif c == "core::option::Option::ok_or_else" and c not in self.w._baseline_adaptors.get(self.b.fn, ()):
                    ok = self.rewrite_ok_or_else(blk)
                elif c == ITER + "::unzip":
                    ok = self.rewrite_unzip(blk, defs)
                elif c in ("core::option::Option::map", "core::result::Result::map") and c not in self.w._baseline_adaptors.get(self.b.fn, ()):
                    # only where the combinator was introduced after the rules were confirmed (inert on the confirmed tree)
                    ok = self.rewrite_value_map(blk, "option" if "Option" in c else "result")
                if ok:
                    progress = True
                    self.changed += 1
                    defs = self.defs()
            if not progress:
                break
        if self.changed:
            self.sync()
        return self.changed


def apply(world):
    world._ds_counter = 500000
    world.desugared = {}
    world._baseline_adaptors = {}
    import json
    import os
    if os.path.exists(inline.ITEMS):
        with open(inline.ITEMS) as f:
            world._baseline_adaptors = json.load(f).get("adaptor_calls", {})
    members = set(world.crates)
    for b in list(world.all_bodies_raw()):
        if b.promoted is not None:
            continue
        # cheap pre-filter
        names = [_callee(bl["term"]) for bl in b.blocks if bl["term"] and bl["term"]["k"] == "call"]
        if not any(("adapters::filter::Filter as" in n or "adapters::map::Map as" in n or n.endswith("::extend") or n.endswith("Iterator::unzip") or n.endswith("Iterator::collect") or n.endswith("::fold") or n.endswith("::try_fold") or n.endswith("::for_each") or n.endswith("::try_for_each") or n.endswith("::then") or n.endswith("::ok_or_else") or "::{closure#" in n
                    or n in ("core::option::Option::map", "core::result::Result::map")) for n in names):
            continue
        if b.fn.split("::")[0].lstrip("<") not in members and not any(b.fn.startswith("<" + m) for m in members):
            continue
        n = Rewriter(world, b).run()
        if n:
            world.desugared[b.key] = n
