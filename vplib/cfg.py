"""E2: graph utilities over exported MIR bodies (non-cleanup blocks only).

Unwinding edges are not modelled: every rule here is about normal control flow.
"""
from functools import lru_cache


class Cfg:
    def __init__(self, body):
        self.body = body
        self.blocks = [b["id"] for b in body.blocks if not b["cleanup"]]
        self.entry = 0
        self.succ = {}
        for b in self.blocks:
            self.succ[b] = [s for s in self._pruned_succs(b)]
        self.pred = {b: [] for b in self.blocks}
        for b in self.blocks:
            for s in self.succ[b]:
                if s in self.pred:
                    self.pred[s].append(b)
        self._reach = self._reachable_from(self.entry)
        self.blocks = [b for b in self.blocks if b in self._reach]
        self._dom = None
        self._pdom = None

    def _pruned_succs(self, b):
        """successors; `switchInt(const)` keeps only the taken edge (debug_assert! residue etc.)."""
        t = self.body.blocks[b]["term"]
        discr = t.get("discr") if t["k"] == "switch" else None
        if discr is not None and "const" not in discr:
            # `_x = const false; switchInt(move _x)` (debug_assert! residue with -Cdebug-assertions=off)
            p = discr.get("move") or discr.get("copy")
            if p and not p["proj"]:
                c0 = self._const_locals().get(p["local"])
                if c0 is not None:
                    discr = {"const": c0}
        if t["k"] == "switch" and "const" in discr:
            c = discr["const"]
            v = None
            if "bool" in c:
                v = 1 if c["bool"] else 0
            elif "int" in c:
                v = c["int"]
            if v is not None:
                for a in t["arms"]:
                    if a[0] == v:
                        return [a[1]]
                return [t["otherwise"]]
        out = []
        for s in self.body.succs(b):
            if s not in out:
                out.append(s)
        return out

    def _const_locals(self):
        """locals with exactly one definition in the whole body, which is a boolean/integer constant"""
        if not hasattr(self, "_cl"):
            defs = {}
            for blk in self.body.blocks:
                for s in blk["stmts"]:
                    if not s["place"]["proj"]:
                        defs.setdefault(s["place"]["local"], []).append(s)
                    if s["k"] == "assign" and s["rv"]["k"] in ("ref", "rawptr") and s["rv"].get("mut") and not s["rv"]["place"]["proj"]:
                        defs.setdefault(s["rv"]["place"]["local"], []).append(None)
                tt = blk["term"]
                if tt["k"] == "call" and not tt["dest"]["proj"]:
                    defs.setdefault(tt["dest"]["local"], []).append(None)
            self._cl = {}
            for l, ds in defs.items():
                if len(ds) == 1 and ds[0] is not None and ds[0]["k"] == "assign" and ds[0]["rv"]["k"] == "use" and "const" in ds[0]["rv"]["a"]:
                    c = ds[0]["rv"]["a"]["const"]
                    if "bool" in c or "int" in c:
                        self._cl[l] = c
        return self._cl

    def _reachable_from(self, start, succ=None):
        succ = succ or self.succ
        seen = {start}
        st = [start]
        while st:
            x = st.pop()
            for s in succ.get(x, []):
                if s not in seen:
                    seen.add(s)
                    st.append(s)
        return seen

    def reachable(self, start, avoid=()):
        """blocks reachable from `start` (inclusive) without passing through blocks in `avoid`."""
        avoid = set(avoid)
        if start in avoid:
            return set()
        seen = {start}
        st = [start]
        while st:
            x = st.pop()
            for s in self.succ.get(x, []):
                if s not in seen and s not in avoid:
                    seen.add(s)
                    st.append(s)
        return seen

    # -------------------------------------------------------------- dominators
    def _compute_dom(self, entry, succ, pred, nodes):
        order = []
        seen = set()

        def dfs(n):
            st = [(n, iter(succ.get(n, [])))]
            seen.add(n)
            while st:
                x, it = st[-1]
                adv = False
                for s in it:
                    if s not in seen and s in nodes:
                        seen.add(s)
                        st.append((s, iter(succ.get(s, []))))
                        adv = True
                        break
                if not adv:
                    order.append(x)
                    st.pop()
        dfs(entry)
        rpo = list(reversed(order))
        idx = {n: i for i, n in enumerate(rpo)}
        idom = {entry: entry}
        changed = True
        while changed:
            changed = False
            for n in rpo[1:]:
                ps = [p for p in pred.get(n, []) if p in idom]
                if not ps:
                    continue
                new = ps[0]
                for p in ps[1:]:
                    a, b = p, new
                    while a != b:
                        while idx[a] > idx[b]:
                            a = idom[a]
                        while idx[b] > idx[a]:
                            b = idom[b]
                    new = a
                if idom.get(n) != new:
                    idom[n] = new
                    changed = True
        return idom

    def idom(self):
        if self._dom is None:
            self._dom = self._compute_dom(self.entry, self.succ, self.pred, set(self.blocks))
        return self._dom

    def dominates(self, a, b):
        """block a dominates block b"""
        idom = self.idom()
        if b not in idom:
            return False
        x = b
        while True:
            if x == a:
                return True
            p = idom.get(x)
            if p is None or p == x:
                return x == a
            x = p

    def exits(self):
        return [b for b in self.blocks if self.body.blocks[b]["term"]["k"] == "return"]

    def ipdom(self):
        """post-dominators w.r.t. a virtual exit joining all return blocks."""
        if self._pdom is None:
            VE = -1
            succ = {b: list(self.pred[b]) for b in self.blocks}
            pred = {b: list(self.succ[b]) for b in self.blocks}
            succ[VE] = self.exits()
            for e in self.exits():
                pred[e] = pred.get(e, []) + [VE]
            self._pdom = self._compute_dom(VE, succ, pred, set(self.blocks) | {VE})
        return self._pdom

    def postdominates(self, a, b):
        pd = self.ipdom()
        if b not in pd:
            return False
        x = b
        while True:
            if x == a:
                return True
            p = pd.get(x)
            if p is None or p == x:
                return False
            x = p

    # -------------------------------------------------------------- loops
    def back_edges(self):
        out = []
        for b in self.blocks:
            for s in self.succ[b]:
                if self.dominates(s, b):
                    out.append((b, s))
        return out

    def natural_loops(self):
        """header -> set of blocks (merged over all back edges to that header)"""
        loops = {}
        for (t, h) in self.back_edges():
            body = {h}
            st = [t]
            while st:
                x = st.pop()
                if x not in body:
                    body.add(x)
                    st.extend(self.pred[x])
            loops.setdefault(h, set()).update(body)
        return loops

    def innermost_loop_of(self, b):
        best = None
        for h, blks in self.natural_loops().items():
            if b in blks and (best is None or len(blks) < len(best[1])):
                best = (h, blks)
        return best

    # -------------------------------------------------------------- path queries
    def must_pass(self, src, dst_set, through_set):
        """every path from src to any block in dst_set passes through some block of through_set
        (src itself counts if in through_set)."""
        if src in through_set:
            return True
        seen = {src}
        st = [src]
        while st:
            x = st.pop()
            if x in dst_set:
                return False
            for s in self.succ.get(x, []):
                if s in through_set or s in seen:
                    continue
                seen.add(s)
                st.append(s)
        return True

    def paths_avoiding(self, src, dst, avoid):
        """is there a path src ->* dst that avoids `avoid` blocks (src, dst excluded from avoid test)"""
        seen = {src}
        st = [src]
        while st:
            x = st.pop()
            for s in self.succ.get(x, []):
                if s == dst:
                    return True
                if s in avoid or s in seen:
                    continue
                seen.add(s)
                st.append(s)
        return False


_cfg_cache = {}


def cfg_of(body):
    k = id(body)
    if k not in _cfg_cache:
        _cfg_cache[k] = Cfg(body)
    return _cfg_cache[k]


# ---------------------------------------------------------------------------------------------
# statement-level iteration helpers
# ---------------------------------------------------------------------------------------------

def calls(body, cfg=None):
    """yields (bb, term) for every call terminator in reachable non-cleanup blocks"""
    cfg = cfg or cfg_of(body)
    for b in cfg.blocks:
        t = body.blocks[b]["term"]
        if t["k"] == "call":
            yield b, t


def callee(t):
    c = t["callee"]
    if "indirect" in c:
        return None
    return c.get("resolved") or c["path"]


def callee_decl(t):
    c = t["callee"]
    if "indirect" in c:
        return None
    return c["path"]


def callee_matches(t, *names):
    """names match the resolved or declared path exactly or by suffix '::name'"""
    c = t["callee"]
    if "indirect" in c:
        return False
    cands = [c.get("resolved"), c["path"]]
    for n in names:
        for p in cands:
            if p and (p == n or p.endswith("::" + n) or p.endswith(n)):
                return True
    return False
