"""MIR inlining of helper functions that did not exist when the rules were written.

The rules are anchored at functions (Sentence::parse_tokenized, Predictor::predict, Trainer::train, ...).  Extracting part
of such a function into a new private helper is a behaviour-preserving edit that would hide the extracted code from a
rule that inspects the anchor's body.  Every function whose path is not in /verif/baseline_fns.txt (the functions of the
tree on which the rules were confirmed, all configurations) is therefore spliced into each of its callers before any
analysis: callee locals and blocks are renumbered and appended, the call becomes argument assignments + goto, `return`
becomes an assignment to the call's destination + goto.  The helper's own body stays available (summaries, callee lookups)
but is hidden from whole-program enumerations once it has been inlined somewhere, so that its contents are not counted twice.
"""
import copy
import os

BASELINE = os.path.join(os.path.dirname(os.path.dirname(os.path.abspath(__file__))), "baseline_fns.txt")
MAX_ROUNDS = 4
# small private helpers of the confirmed tree that the rules look through: they are always spliced into their callers, so
# that the code looks the same to the rules whether a maintainer keeps the helper, inlines it by hand or renames it
FORCE_INLINE = {
    "vaporetto::sentence::Sentence::push_escaped_tag",
    "vaporetto::type_scorer::boundary_scorer_cache::TypeScorerBoundaryCache::get_score",
    "vaporetto::type_scorer::boundary_scorer_cache::TypeScorerBoundaryCache::increment_seqid",
    "vaporetto::type_scorer::boundary_scorer_cache::TypeScorerBoundaryCache::increment_seqid_without_char",
}


def load_baseline(with_sigs=False):
    if not os.path.exists(BASELINE):
        return None
    names, sigs = set(), {}
    global _CONFIGS, _PRESENT
    _CONFIGS, _PRESENT = [], {}
    with open(BASELINE) as f:
        for l in f:
            l = l.rstrip("\n")
            if l.startswith("#configs\t"):
                _CONFIGS = l.split("\t", 1)[1].split("|")
                continue
            if not l.strip() or l.startswith("#"):
                continue
            parts = l.split("\t")
            n = parts[0]
            names.add(n)
            if len(parts) > 1 and parts[1]:
                sigs[n] = parts[1]
            if len(parts) > 2 and parts[2]:
                _PRESENT[n] = int(parts[2], 16)
    return (names, sigs) if with_sigs else names


_CONFIGS, _PRESENT = [], {}


def present_in(name, config):
    """was the function part of the confirmed tree in this configuration? (unknown configuration: in any)"""
    def key(c):
        return c if not c.startswith("F:") else "F:" + ",".join(sorted(x for x in c[2:].split(",") if x))
    ks = [key(c) for c in _CONFIGS]
    if key(config) in ks and name in _PRESENT:
        return bool(_PRESENT[name] >> ks.index(key(config)) & 1)
    return True


def _tyn(s):
    """type spelling independent of std / alloc / core and of module-path prefixes that depend on the configuration"""
    import re as _re
    s = _re.sub(r"\b(std|alloc|core)::([a-z_]+::)*", "", s or "")
    return s


def _rename_text(x, old, new):
    """replace the path prefix `old` by `new` in every string of a JSON fragment (callee paths, closure names, fn keys)"""
    if isinstance(x, dict):
        return {k: _rename_text(v, old, new) for k, v in x.items()}
    if isinstance(x, list):
        return [_rename_text(v, old, new) for v in x]
    if isinstance(x, str) and old in x:
        import re as _re
        return _re.sub(r"(?<![A-Za-z0-9_])%s(?![A-Za-z0-9_])" % _re.escape(old), new, x)
    return x


def resolve_renames(world, base, sigs):
    """a function of the confirmed tree that no longer exists, and exactly one new function with the same parent path and the
    same signature: a rename.  The new function is presented under the old path everywhere (body key, callee paths, closure
    names), so that rules anchored at the old name keep their anchor.  Returns {old: new}."""
    current = {}
    for c in world.crates.values():
        for p, f in c.fns.items():
            current[p] = (_tyn("%s -> %s" % (", ".join(f["inputs"]), f["output"])), c)
    crates = {c.name for c in world.crates.values()}
    missing = [n for n in sigs if n not in current and n.split("::")[0] in crates and n not in world.bodies and present_in(n, getattr(world, "config", "W"))]
    fresh = [p for p in current if p not in base and p in world.bodies]
    out = {}
    for old in missing:
        parent = old.rsplit("::", 1)[0]
        cands = [p for p in fresh if p.rsplit("::", 1)[0] == parent and current[p][0] == _tyn(sigs[old]) and p not in out.values()]
        if len(cands) == 1:
            out[old] = cands[0]
    for old, new in out.items():
        for c in world.crates.values():
            touched = False
            for b in c.bodies:
                s = None
                if new in b.fn or any(new in str(bl["term"].get("callee", "")) for bl in b.blocks) or new in str(b.j["blocks"]):
                    nj = _rename_text(b.j, new, old)
                    b.__init__(nj, c)
                    touched = True
            if touched:
                for k in ("fns",):
                    if new in c.fns:
                        f = dict(c.fns.pop(new))
                        f["path"] = old
                        c.fns[old] = f
        world.bodies = {}
        for c in world.crates.values():
            for b in c.bodies:
                world.bodies.setdefault(b.key, []).append(b)
    return out


def _remap(x, lmap, bmap, pmap):
    """deep copy of a MIR fragment with locals / block ids / promoted indexes renumbered"""
    if isinstance(x, dict):
        out = {}
        for k, v in x.items():
            if isinstance(v, bool):
                out[k] = v
            elif k == "local" and isinstance(v, int):
                out[k] = lmap(v)
            elif k == "index" and isinstance(v, int) and len(x) == 1:
                out[k] = lmap(v)
            elif k in ("target", "otherwise", "cleanup", "unwind") and isinstance(v, int):
                out[k] = bmap(v)
            elif k == "arms" and isinstance(v, list):
                out[k] = [[a[0], bmap(a[1])] for a in v]
            elif k == "promoted" and isinstance(v, int) and "def" in x:
                out[k] = pmap(v)
            else:
                out[k] = _remap(v, lmap, bmap, pmap)
        return out
    if isinstance(x, list):
        return [_remap(v, lmap, bmap, pmap) for v in x]
    return x


def _callee_path(t):
    c = t.get("callee") or {}
    return c.get("resolved") or c.get("path")


def inline_into(world, body, helpers, counter):
    """splice every call of a helper found in `body`; returns number of call sites inlined"""
    j = body.j
    n = 0
    bi = 0
    while bi < len(j["blocks"]):
        blk = j["blocks"][bi]
        t = blk["term"]
        bi += 1
        if t["k"] != "call" or blk["cleanup"]:
            continue
        cp = _callee_path(t)
        if cp not in helpers or cp == body.fn or t.get("target") is None:
            continue
        hb = helpers[cp]
        if len(t["args"]) != hb.arg_count:
            continue
        lbase = len(j["locals"])
        bbase = len(j["blocks"])
        # promoted indexes of spliced code: deterministic per caller (never a global counter: the numbering of one function
        # must not depend on what was inlined elsewhere, the feature-matrix fingerprints compare functions across builds)
        k_site = getattr(body, "_inl_sites", 0)
        body._inl_sites = k_site + 1
        pbase = 100000 + 1000 * k_site
        lmap = lambda l, lbase=lbase: lbase + l
        bmap = lambda b_, bbase=bbase: bbase + b_
        pmap = lambda p, pbase=pbase: pbase + p
        # promoted bodies of the helper become promoted bodies of the caller
        for key, bs in list(world.bodies.items()):
            if key.startswith(cp + "#promoted"):
                pj = copy.deepcopy(bs[0].j)
                pj["fn"] = body.fn
                pj["promoted"] = pbase + bs[0].promoted
                nb = type(body)(pj, body.crate)
                world.bodies.setdefault(nb.key, []).append(nb)
        for l in hb.j["locals"]:
            nl = dict(l)
            nl["id"] = lbase + l["id"]
            j["locals"].append(nl)
        for d in hb.j["debug"]:
            nd = _remap(d, lmap, bmap, pmap)
            nd["arg"] = None
            j["debug"].append(nd)
        for hblk in hb.j["blocks"]:
            nb = _remap(hblk, lmap, bmap, pmap)
            nb["id"] = bbase + hblk["id"]
            if nb["term"]["k"] == "return":
                nb["stmts"] = nb["stmts"] + [{"k": "assign", "place": copy.deepcopy(t["dest"]), "rv": {"k": "use", "a": {"move": {"local": lbase, "proj": []}}},
                                              "span": t.get("span"), "exp": False}]
                nb["term"] = {"k": "goto", "target": t["target"]}
            j["blocks"].append(nb)
        for k, a in enumerate(t["args"]):
            blk["stmts"].append({"k": "assign", "place": {"local": lbase + k + 1, "proj": []}, "rv": {"k": "use", "a": copy.deepcopy(a)}, "span": t.get("span"), "exp": False})
        blk["term"] = {"k": "goto", "target": bbase}
        n += 1
    if n:
        body.locals = j["locals"]
        body.blocks = j["blocks"]
        body.debug = j["debug"]
        body._names = None
        body._preds = None
    return n


ITEMS = os.path.join(os.path.dirname(BASELINE), "baseline_items.json")


def _map_fields(x, adt, fmap):
    """rename fields of `adt` in place projections and aggregate literals (new name -> old name)"""
    if isinstance(x, dict):
        if x.get("of") == adt and "field" in x and x["field"] in fmap:
            x = dict(x)
            x["field"] = fmap[x["field"]]
        if x.get("k") == "aggr" and x.get("adt") == adt and isinstance(x.get("names"), list):
            x = dict(x)
            x["names"] = [fmap.get(n, n) for n in x["names"]]
        return {k: _map_fields(v, adt, fmap) for k, v in x.items()}
    if isinstance(x, list):
        return [_map_fields(v, adt, fmap) for v in x]
    return x


def _rebuild(world):
    world.bodies = {}
    for c in world.crates.values():
        for b in c.bodies:
            world.bodies.setdefault(b.key, []).append(b)


def _apply_text_rename(world, new, old):
    for c in world.crates.values():
        for b in c.bodies:
            if new in str(b.j):
                b.__init__(_rename_text(b.j, new, old), c)
        for coll in ("adts", "consts", "fns"):
            d = getattr(c, coll)
            for k in list(d):
                if new in str(d[k]) or new in k:
                    v = _rename_text(d.pop(k), new, old)
                    d[_rename_text(k, new, old)] = v
        c.impls = _rename_text(c.impls, new, old)
    _rebuild(world)


def resolve_item_renames(world):
    """renames of private types, fields and constants, and new private types:
      * a type of the confirmed tree that is gone + exactly one new type in the same module with the same variants and field
        types: a type rename -> the new type is presented under the old path;
      * a type that still exists whose fields have the same types in the same order but other names: field renames -> the old
        field names are presented;
      * a constant that is gone + exactly one new constant in the same module with the same type and value: presented under
        the old path;
      * any other new struct: its fields are presented by position ("0", "1", ...), like the tuple it usually replaces."""
    import json
    if not os.path.exists(ITEMS):
        return {}
    with open(ITEMS) as f:
        base = json.load(f)
    out = {"types": {}, "fields": {}, "consts": {}, "positional": []}
    crates = {c.name for c in world.crates.values()}
    cur_adts = {}
    cur_consts = {}
    for c in world.crates.values():
        if c.name not in crates:
            continue
        for p, a in c.adts.items():
            if p.split("::")[0] == c.name:
                cur_adts[p] = a
        for p, k in c.consts.items():
            if p.split("::")[0] == c.name:
                cur_consts[p] = k
    def shape(variants, names=True):
        return [[(f[0] if names else None, _tyn(f[1])) for f in v[1]] for v in variants]
    def cur_shape(a, names=True):
        return [[(f["name"] if names else None, _tyn(f["ty"])) for f in v["fields"]] for v in a["variants"]]
    # type renames
    missing = [p for p in base["adts"] if p not in cur_adts and p.split("::")[0] in crates]
    fresh = [p for p in cur_adts if p not in base["adts"]]
    for old in missing:
        parent = old.rsplit("::", 1)[0]
        cands = [p for p in fresh if p.rsplit("::", 1)[0] == parent and cur_shape(cur_adts[p], False) == shape(base["adts"][old], False)
                 and p not in out["types"].values()]
        if len(cands) == 1:
            out["types"][old] = cands[0]
    for old, new in out["types"].items():
        _apply_text_rename(world, new, old)
        # the type's own name also appears as the struct variant name and, unqualified, in type strings
        on, nn = old.rsplit("::", 1)[1], new.rsplit("::", 1)[1]
        if on != nn:
            _apply_text_rename(world, nn, on)
    if out["types"]:
        cur_adts = {p: a for c in world.crates.values() for p, a in c.adts.items() if p.split("::")[0] == c.name}
    # field renames
    for p, a in cur_adts.items():
        if p not in base["adts"]:
            continue
        bs = base["adts"][p]
        if len(bs) != len(a["variants"]) or any(len(bv[1]) != len(cv["fields"]) for bv, cv in zip(bs, a["variants"])):
            continue
        # position by position: a field that kept its name may have a configuration-dependent type (the shapes of the confirmed
        # tree are recorded once); a field with another name must have exactly the recorded type
        fmap = {}
        same = True
        for bv, cv in zip(bs, a["variants"]):
            for bf, cf in zip(bv[1], cv["fields"]):
                if bf[0] != cf["name"]:
                    if _tyn(bf[1]) != _tyn(cf["ty"]):
                        same = False
                    fmap[cf["name"]] = bf[0]
        if not same:
            continue
        if fmap and len(set(fmap.values())) == len(fmap):
            out["fields"][p] = fmap
    # new structs -> positional fields
    for p, a in cur_adts.items():
        if p not in base["adts"] and p not in out["types"].values() and a["kind"] == "struct" and len(a["variants"]) == 1:
            fmap = {f["name"]: str(i) for i, f in enumerate(a["variants"][0]["fields"]) if not f["name"].isdigit()}
            if fmap:
                out["fields"][p] = fmap
                out["positional"].append(p)
    for p, fmap in out["fields"].items():
        for c in world.crates.values():
            for b in c.bodies:
                if p in str(b.j):
                    b.__init__(_map_fields(b.j, p, fmap), c)
            if p in c.adts:
                a = c.adts[p]
                for v in a["variants"]:
                    for f in v["fields"]:
                        f["name"] = fmap.get(f["name"], f["name"])
    if out["fields"]:
        _rebuild(world)
    # constant renames
    missing = [p for p in base["consts"] if p not in cur_consts and p.split("::")[0] in crates]
    fresh = [p for p in cur_consts if p not in base["consts"]]
    for old in missing:
        parent = old.rsplit("::", 1)[0]
        bt, bv = base["consts"][old]
        cands = [p for p in fresh if p.rsplit("::", 1)[0] == parent and _tyn(cur_consts[p]["ty"]) == _tyn(bt)
                 and json.dumps(cur_consts[p].get("value"), sort_keys=True) == bv and p not in out["consts"].values()]
        if len(cands) == 1:
            out["consts"][old] = cands[0]
    for old, new in out["consts"].items():
        _apply_text_rename(world, new, old)
    return out


def apply(world):
    loaded = load_baseline(with_sigs=True)
    world.inlined = {}
    world.renamed = {}
    if loaded is None:
        return
    base, sigs = loaded
    world.item_renames = resolve_item_renames(world)
    world.renamed = resolve_renames(world, base, sigs)
    helpers = {}
    for key, bs in world.bodies.items():
        b = bs[0]
        if b.promoted is None and "{closure" not in key and "{impl" not in key and (key not in base or key in FORCE_INLINE) and len(bs) == 1 and b.j.get("kind") in ("Fn", "AssocFn"):
            helpers[key] = b
    if not helpers:
        return
    counter = [100000]
    for _ in range(MAX_ROUNDS):
        # helpers first, so that nested helpers are expanded before their callers are
        changed = 0
        order = sorted(world.all_bodies_raw(), key=lambda b: (b.fn not in helpers, b.key))
        for b in order:
            if b.promoted is not None:
                continue
            k = inline_into(world, b, helpers, counter)
            if k:
                changed += k
                for t in [bl["term"] for bl in b.blocks]:
                    pass
        if not changed:
            break
    # which helpers were inlined somewhere: those no longer called by anybody
    still_called = set()
    for b in world.all_bodies_raw():
        for bl in b.blocks:
            t = bl["term"]
            if t["k"] == "call" and _callee_path(t) in helpers:
                still_called.add(_callee_path(t))
    for h in helpers:
        world.inlined[h] = h not in still_called
