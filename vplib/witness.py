"""E11: runs the type-level witnesses (rustdoc compile-pass `no_run` twins and compile_fail,E0xxx doctests)
of /verif/witness against /repo's current sources.  Only the compiler runs; no vaporetto code is executed."""
import json
import os
import re
import shutil
import subprocess

from . import facts

WDIR = os.path.join(facts.VERIF, "witness")


def results(repo=facts.REPO):
    digest = facts.repo_digest(repo)
    with open(os.path.join(WDIR, "src", "lib.rs"), "rb") as f:
        import hashlib
        digest += "-" + hashlib.sha256(f.read()).hexdigest()[:10]
    cache = os.path.join(facts.CACHE, "witness", digest + ".json")
    if os.path.exists(cache):
        with open(cache) as f:
            return json.load(f)
    os.makedirs(os.path.dirname(cache), exist_ok=True)
    shutil.copy(os.path.join(repo, "Cargo.lock"), os.path.join(WDIR, "Cargo.lock"))
    env = dict(os.environ)
    env.update({"CARGO_TARGET_DIR": os.path.join(facts.CACHE, "witness-target"), "CARGO_NET_OFFLINE": "true"})
    env.pop("RUSTC_WORKSPACE_WRAPPER", None)
    env.pop("RUSTFLAGS", None)
    p = subprocess.run(["cargo", "+nightly", "test", "--doc", "--offline"], cwd=WDIR, env=env,
                       stdout=subprocess.PIPE, stderr=subprocess.STDOUT, text=True)
    out = p.stdout
    res = {"raw_tail": out[-3000:], "tests": {}, "built": "test result:" in out}
    for m in re.finditer(r"^test src/lib\.rs - (\w+) \(line (\d+)\)( - compile fail| - compile)? \.\.\. (\w+)", out, re.M):
        name, line, kind, status = m.group(1), int(m.group(2)), (m.group(3) or "").strip(" -"), m.group(4)
        res["tests"].setdefault(name, []).append({"line": line, "kind": kind or "compile", "status": status})
    if res["built"]:
        with open(cache, "w") as f:
            json.dump(res, f)
    return res


def check(chk, rule, witness, expect_fail, expect_pass, what):
    """expect_fail / expect_pass: number of compile_fail resp. compiling (no_run) doctests of the witness item"""
    r = results()
    if not r["built"]:
        chk.ob(rule, "witness:%s" % witness, False, "UNDECIDED: the witness crate did not build against the current tree:\n" + r["raw_tail"][-1200:])
        return
    ts = r["tests"].get(witness, [])
    fails = [t for t in ts if t["kind"] == "compile fail"]
    passes = [t for t in ts if t["kind"] != "compile fail"]
    ok = len(fails) == expect_fail and len(passes) == expect_pass and all(t["status"] == "ok" for t in ts)
    bad = [t for t in ts if t["status"] != "ok"]
    chk.ob(rule, "witness:%s" % witness, ok,
           "type-level witness %s failed: %s. %s" % (witness, bad or "unexpected number of doctests %d/%d" % (len(fails), len(passes)), what),
           site="/verif/witness/src/lib.rs", sample={"witness": witness, "doctests": ts})
