"""E3 (FDAI): finite-domain abstract interpreter over exported MIR.

Path-sensitive exploration of a region of one MIR body.  Values are symbols with finite
constraints (variant sets, integer intervals, excluded-constant sets), constants, enum
variants, references to abstract memory paths and small aggregates.  Whenever a modelled
operation needs to know more about a symbol than its constraint says, the state is split
into the finitely many refinements (lazy case splitting).  Unmodelled operations yield
fresh symbols and havoc everything passed by `&mut` (sound for the observations made by the
rules, which look at stores / calls / exits on each path together with the final
constraints of the declared input symbols).

No vaporetto code is executed: this interprets the compiler's MIR abstractly.
"""
from . import cfg as cfgmod

TOP = ("top",)
UNIT = ("unit",)

BUILTIN_ENUMS = {
    "core::option::Option": [("None", 0), ("Some", 1)],
    "core::result::Result": [("Ok", 0), ("Err", 1)],
    "core::cmp::Ordering": [("Less", -1), ("Equal", 0), ("Greater", 1)],
    "core::ops::control_flow::ControlFlow": [("Continue", 0), ("Break", 1)],
    "alloc::borrow::Cow": [("Borrowed", 0), ("Owned", 1)],
}


class Undecided(Exception):
    pass


def I(n):
    return ("i", n)


def B(b):
    return ("b", bool(b))


def CH(c):
    return ("ch", c if isinstance(c, int) else ord(c))


def VAR(adt, name, payload=None):
    return ("var", adt, name, payload)


def SYM(name):
    return ("sym", name)


def _depth(v):
    if v[0] == "expr":
        return 1 + max(_depth(v[2]), _depth(v[3]))
    return 0


def is_const(v):
    return v[0] in ("i", "b", "ch", "s", "unit", "fn", "bytes")


def pstr(path):
    out = []
    for e in path:
        if isinstance(e, tuple):
            if e[0] == "L":
                out.append("_%d" % e[1])
            elif e[0] == "A":
                out.append("arg%s" % e[1])
            elif e[0] == "f":
                out.append("." + str(e[1]))
            elif e[0] == "dc":
                out.append("@" + str(e[1]))
            elif e[0] == "P":
                out.append("promoted%d" % e[1])
            elif e[0] == "S":
                out.append("*{%s}" % (e[1],))
            elif e[0] == "K":
                out.append("const%s" % (str(e[1])[:40],))
            else:
                out.append(str(e))
        else:
            out.append("." + str(e))
    return "".join(out)


class State:
    __slots__ = ("bb", "idx", "env", "cons", "trace", "seen", "inloops")

    def __init__(self, bb, idx, env, cons, trace, seen, inloops=frozenset()):
        self.bb = bb
        self.idx = idx
        self.env = env
        self.cons = cons
        self.trace = trace
        self.seen = seen
        self.inloops = inloops

    def fork(self):
        return State(self.bb, self.idx, dict(self.env), dict(self.cons), self.trace, self.seen, self.inloops)

    def key(self):
        return (self.bb, frozenset(self.env.items()), frozenset(self.cons.items()))


class Outcome:
    def __init__(self, kind, state, info=None):
        self.kind = kind  # "return" | "stop" | "panic" | "unreachable" | "cycle"
        self.env = state.env
        self.cons = state.cons
        self.trace = state.trace
        self.bb = state.bb
        self.info = info
        self.interp = None

    def value_at(self, path):
        return self.interp.resolve(self, self.interp._read(self, path))

    def effects(self, kind=None):
        return [e for e in self.trace if kind is None or e[0] == kind]


class Interp:
    def __init__(self, world, body, models=None, observe_calls=True, max_paths=20000, sym_types=None,
                 summaries=None, depth=0):
        self.summaries = summaries
        self.depth = depth
        self.trace_deref_stores = False   # also log stores through references that point into locals
        self.log_reads = False            # log reads of memory reachable from reference parameters
        self.world = world
        self.body = body
        self.cfg = cfgmod.cfg_of(body)
        self.models = dict(DEFAULT_MODELS)
        if models:
            self.models.update(models)
        self.max_paths = max_paths
        self.outcomes = []
        self.npaths = 0
        self.sym_types = dict(sym_types or {})
        self.unmodelled = set()
        self._promoted = {}
        self.index_vals = []  # abstract values used in built-in index projections: path element "[#k]"
        self.ret_info = {}   # "ret:<bb>" -> (callee, arg values) of unmodelled calls
        self.unwrap_src = {} # "unwrap:<bb>"/"tryok:<bb>" -> the Option/Result symbol it was taken from
        self.op_info = {}    # "op:..."   -> (op, a, b) of opaque comparisons

    # ------------------------------------------------------------------ enum tables
    def variants(self, adt):
        if adt in BUILTIN_ENUMS:
            return BUILTIN_ENUMS[adt]
        a = self.world.adt(adt)
        if a and a["kind"] == "enum":
            return [(v["name"], v["discr"]) for v in a["variants"]]
        return None

    # ------------------------------------------------------------------ memory
    def init_state(self, entry, env=None, cons=None, trace=()):
        e = {}
        for i in range(1, self.body.arg_count + 1):
            l = self.body.locals[i]
            if l["tk"] in ("ref", "refmut"):
                e[(("L", i),)] = ("ref", (("A", i),))
            else:
                e[(("L", i),)] = SYM("arg%d" % i)
                self.sym_types.setdefault("arg%d" % i, (l["tk"], l["adt"]))
        if env:
            e.update(env)
        return State(entry, 0, e, dict(cons or {}), tuple(trace), frozenset())

    def canon(self, st, place):
        """place JSON -> canonical path (deref resolved through known refs)"""
        path = (("L", place["local"]),)
        for e in place["proj"]:
            if e == "deref":
                v = self._read(st, path)
                if v[0] == "ref":
                    path = v[1]
                elif v[0] in ("bytes", "s"):
                    path = (("K", v),)
                elif v[0] == "sym":
                    path = (("S", v[1]),)
                else:
                    path = (("S", "unknown-ptr:%s" % pstr(path)),)
            elif isinstance(e, dict):
                if "field" in e:
                    path = path + (("f", e["field"]),)
                elif "downcast" in e:
                    path = path + (("dc", e["downcast"]),)
                elif "index" in e:
                    iv = self.resolve(st, self._read(st, (("L", e["index"]),)))
                    if iv not in self.index_vals:
                        self.index_vals.append(iv)
                    # a built-in index projection (slices, arrays): logged like the Index/IndexMut call a Vec would need
                    ev = ("index", getattr(st, "bb", None), path, iv)
                    if not st.trace or st.trace[-1] != ev:
                        st.trace = st.trace + (ev,)
                    path = path + (("f", "[#%d]" % self.index_vals.index(iv)),)
                elif "constidx" in e:
                    path = path + (("f", "[%d]" % e["constidx"]),)
                elif "subslice_from" in e:
                    path = path + (("f", "[..]"),)
                else:
                    path = path + (("f", "?"),)
            else:
                path = path + (("f", str(e)),)
        return path

    def _project(self, v, elem, fullpath):
        """apply one path element to an abstract value"""
        if v[0] == "var":
            if elem[0] == "dc":
                if elem[1] == v[2]:
                    return ("varpayload", v)
                return TOP
        if v[0] == "varpayload":
            var = v[1]
            if var[3] is not None and len(var[3]) == 2 and var[3][0] == "symp":
                return SYM("%s@%s%s" % (var[3][1], var[2], pstr((elem,))))
            if elem[0] == "f" and var[3] is not None:
                try:
                    i = int(elem[1])
                    return var[3][i]
                except (ValueError, IndexError):
                    for n, x in var[3] if var[3] and isinstance(var[3][0], tuple) and len(var[3][0]) == 2 and isinstance(var[3][0][0], str) else ():
                        if n == elem[1]:
                            return x
            return SYM("m:" + pstr(fullpath))
        if v[0] == "agg":
            if elem[0] == "f":
                for n, x in v[2]:
                    if str(n) == str(elem[1]):
                        return x
            return SYM("m:" + pstr(fullpath))
        if v[0] == "top":
            return TOP
        if v[0] == "sym":
            return SYM(v[1] + pstr((elem,)))
        return SYM("m:" + pstr(fullpath))

    def _read(self, st, path):
        env = st.env
        for n in range(len(path), 0, -1):
            pre = path[:n]
            if pre in env:
                v = env[pre]
                for k in range(n, len(path)):
                    v = self._project(v, path[k], path[:k + 1])
                if n == len(path):
                    # whole read of a path with child overrides -> unknown composite
                    for q in env:
                        if len(q) > n and q[:n] == pre:
                            return self._compose(st, pre, v)
                return v
        root = path[0]
        if root[0] == "K":
            v = root[1]
            for k in range(1, len(path)):
                v = self._project(v, path[k], path[:k + 1])
            return v
        if root[0] == "P":
            self._load_promoted(st, root[1])
            if (root,) in st.env:
                return self._read(st, path)
        return SYM("m:" + pstr(path))

    def _compose(self, st, pre, base):
        kids = tuple(sorted((pstr(q[len(pre):]), v) for q, v in st.env.items() if len(q) > len(pre) and q[:len(pre)] == pre))
        return ("agg", "composite", (("base", base),) + kids)

    def _write(self, st, path, v):
        for q in [q for q in st.env if len(q) > len(path) and q[:len(path)] == path]:
            del st.env[q]
        # writing below an aggregate value: split the aggregate into leaves first
        for n in range(len(path) - 1, 0, -1):
            pre = path[:n]
            if pre in st.env and st.env[pre][0] in ("agg", "var"):
                base = st.env[pre]
                if base[0] == "agg" and base[1] != "composite":
                    del st.env[pre]
                    for fn_, fv in base[2]:
                        st.env[pre + (("f", str(fn_)),)] = fv
                break
        st.env[path] = v

    def _havoc(self, st, path, tag):
        for q in [q for q in st.env if q[:len(path)] == path]:
            del st.env[q]
        st.env[path] = SYM("hv:%s" % (tag,))

    def _load_promoted(self, st, n):
        pb = self.world.body(self.body.fn, promoted=n, crate=self.body.crate.name)
        root = (("P", n),)
        if pb is None:
            st.env[root] = TOP
            return
        sub = Interp(self.world, pb, models=self.models)
        outs = sub.run(0)
        if len(outs) != 1 or outs[0].kind != "return":
            st.env[root] = TOP
            return
        o = outs[0]
        r = o.value_at((("L", 0),))
        if r[0] == "ref":
            val = sub._read(o, r[1])
            st.env[root] = val if (is_const(val) or val[0] in ("var", "agg")) else TOP
        else:
            st.env[root] = TOP

    # ------------------------------------------------------------------ values
    def resolve(self, st, v):
        if v[0] == "sym":
            c = st.cons.get(v[1])
            if c and c[0] == "eq":
                return c[1]
            if c and c[0] == "varis":
                return ("var", c[1], c[2], ("symp", v[1]))
        return v

    def const_val(self, c):
        if c.get("unit"):
            return UNIT
        if "int" in c:
            return I(c["int"])
        if "bool" in c:
            return B(c["bool"])
        if "char" in c:
            return CH(c["char"])
        if "str" in c:
            return ("s", c["str"])
        if "bytes" in c:
            return ("bytes", tuple(c["bytes"]))
        if "fn" in c:
            return ("fn", c["fn"])
        if "variant" in c and c.get("variant"):
            return VAR(c["of"], c["variant"], ())
        if "promoted" in c:
            return ("ref", (("P", c["promoted"]),))
        if "constitem" in c:
            if c.get("value"):
                return self.const_val(c["value"])
            return SYM("const:" + c["constitem"])
        if "float_bits" in c:
            import struct
            try:
                if c.get("ty") == "f64":
                    return ("fl", struct.unpack("<d", struct.pack("<Q", c["float_bits"]))[0])
                if c.get("ty") == "f32":
                    return ("fl", struct.unpack("<f", struct.pack("<I", c["float_bits"]))[0])
            except Exception:
                pass
            return TOP
        if "zst" in c:
            return UNIT
        if c.get("opaque") == "indirect" and isinstance(c.get("repr"), str) and c["repr"].startswith('"') and c.get("ty", "").endswith("str"):
            import ast, re as _re2
            try:
                r = _re2.sub(r"\\u\{([0-9a-fA-F]+)\}", lambda m: "\\U%08x" % int(m.group(1), 16), c["repr"])
                return ("s", ast.literal_eval(r))
            except Exception:
                return TOP
        if c.get("opaque") == "indirect" and isinstance(c.get("repr"), str) and c["repr"].startswith('b"'):
            import ast
            try:
                return ("bytes", tuple(ast.literal_eval(c["repr"])))
            except Exception:
                return TOP
        return TOP

    def eval_operand(self, st, o):
        if "const" in o:
            return self.const_val(o["const"])
        p = o.get("copy") or o.get("move")
        path = self.canon(st, p)
        if self.log_reads and path and path[0][0] == "A" and len(path) > 1:
            st.trace = st.trace + (("read", st.bb, path),)
        v = self._read(st, path)
        return self.resolve(st, v)

    # constraint helpers -----------------------------------------------------
    def _int_range(self, st, v):
        """(lo, hi, excluded) for an integer/char-like abstract value or None"""
        if v[0] == "i":
            return (v[1], v[1], frozenset())
        if v[0] == "ch":
            return (v[1], v[1], frozenset())
        if v[0] == "sym":
            c = st.cons.get(v[1])
            if c is None:
                return (None, None, frozenset())
            if c[0] == "ival":
                return (c[1], c[2], frozenset())
            if c[0] == "notin":
                xs = frozenset(x[1] for x in c[1] if x[0] in ("i", "ch"))
                return (None, None, xs)
            if c[0] == "eq" and c[1][0] in ("i", "ch"):
                return (c[1][1], c[1][1], frozenset())
        return None

    def _cmp_split(self, st, op, a, b):
        """returns list of (state, bool) for comparison of a (sym) with constant b"""
        n = b[1]
        mk = CH if b[0] == "ch" else I
        r = self._int_range(st, a)
        lo, hi, excl = r
        # normalise to predicate on a: a OP n
        def subrange(lo2, hi2):
            l = lo2 if lo is None else (lo if lo2 is None else max(lo, lo2))
            h = hi2 if hi is None else (hi if hi2 is None else min(hi, hi2))
            if l is not None and h is not None and l > h:
                return None
            return (l, h)
        if op in ("Eq", "Ne"):
            if (lo is not None and n < lo) or (hi is not None and n > hi) or n in excl:
                return [(st, op == "Ne")]
            if lo == hi == n:
                return [(st, op == "Eq")]
            s1 = st.fork()
            s1.cons[a[1]] = ("eq", mk(n))
            s2 = st.fork()
            if lo is None and hi is None:
                s2.cons[a[1]] = ("notin", frozenset([mk(x) for x in excl] + [mk(n)]))
            elif lo == n:
                s2.cons[a[1]] = ("ival", n + 1, hi)
            elif hi == n:
                s2.cons[a[1]] = ("ival", lo, n - 1)
            else:
                # interval with a hole: keep interval (sound over-approximation)
                s2.cons[a[1]] = ("ival", lo, hi)
            return [(s1, op == "Eq"), (s2, op == "Ne")]
        # exclusions are dropped for ordering comparisons (sound over-approximation)
        if op == "Lt":
            t, f = subrange(None, n - 1), subrange(n, None)
        elif op == "Le":
            t, f = subrange(None, n), subrange(n + 1, None)
        elif op == "Gt":
            t, f = subrange(n + 1, None), subrange(None, n)
        elif op == "Ge":
            t, f = subrange(n, None), subrange(None, n - 1)
        else:
            raise Undecided("cmp op " + op)
        out = []
        for rng, res in ((t, True), (f, False)):
            if rng is None:
                continue
            s1 = st.fork()
            if rng[0] is not None and rng[0] == rng[1]:
                s1.cons[a[1]] = ("eq", mk(rng[0]))
            else:
                s1.cons[a[1]] = ("ival", rng[0], rng[1])
            out.append((s1, res))
        return out

    FLIP = {"Lt": "Gt", "Le": "Ge", "Gt": "Lt", "Ge": "Le", "Eq": "Eq", "Ne": "Ne"}

    def eval_binop(self, st, op, a, b, site):
        a = self.resolve(st, a)
        b = self.resolve(st, b)
        cmpops = ("Eq", "Ne", "Lt", "Le", "Gt", "Ge")
        if a[0] in ("i", "ch", "b") and b[0] in ("i", "ch", "b"):
            x, y = a[1], b[1]
            if op in cmpops:
                r = {"Eq": x == y, "Ne": x != y, "Lt": x < y, "Le": x <= y, "Gt": x > y, "Ge": x >= y}[op]
                return [(st, B(r))]
            if a[0] == "i":
                try:
                    r = {"Add": x + y, "Sub": x - y, "Mul": x * y, "BitAnd": x & y, "BitOr": x | y,
                         "BitXor": x ^ y, "Shl": x << y, "Shr": x >> y,
                         "Div": (x // y if y else None), "Rem": (x % y if y else None)}.get(op)
                except Exception:
                    r = None
                if r is not None:
                    return [(st, I(r))]
            if a[0] == "b" and op in ("BitAnd", "BitOr", "BitXor"):
                r = {"BitAnd": x and y, "BitOr": x or y, "BitXor": x != y}[op]
                return [(st, B(r))]
        if op in cmpops:
            if a[0] == "sym" and b[0] in ("i", "ch") and self._int_range(st, a) is not None:
                return [(s, B(r)) for s, r in self._cmp_split(st, op, a, b)]
            if b[0] == "sym" and a[0] in ("i", "ch") and self._int_range(st, b) is not None:
                return [(s, B(r)) for s, r in self._cmp_split(st, self.FLIP[op], b, a)]
            if a[0] == "sym" and b[0] == "sym" and a[1] == b[1]:
                return [(st, B(op in ("Eq", "Le", "Ge")))]
            if a[0] == "b" or b[0] == "b":
                # bool == bool with one symbolic side
                symv, cv = (b, a) if a[0] == "b" else (a, b)
                outs = []
                for s2, bv in self.split_bool(st, symv):
                    r = (bv == cv[1]) if op == "Eq" else (bv != cv[1]) if op == "Ne" else None
                    if r is None:
                        raise Undecided("bool ordering")
                    outs.append((s2, B(r)))
                return outs
        if op not in cmpops and _depth(a) < 8 and _depth(b) < 8 and a[0] != "top" and b[0] != "top":
            # symbolic arithmetic: kept as an expression tree for the linear-form rules (E4)
            return [(st, ("expr", op, a, b))]
        # comparison on unknowns: opaque boolean, keyed by site
        self.sym_types["op:%s:%s" % (op, site)] = ("bool", None)
        self.op_info["op:%s:%s" % (op, site)] = (op, a, b)
        return [(st, SYM("op:%s:%s" % (op, site)))]

    def split_bool(self, st, v):
        v = self.resolve(st, v)
        if v[0] == "b":
            return [(st, v[1])]
        if v[0] == "sym":
            c = st.cons.get(v[1])
            outs = []
            for bv in (True, False):
                if c and c[0] == "notin" and B(bv) in c[1]:
                    continue
                s2 = st.fork()
                s2.cons[v[1]] = ("eq", B(bv))
                outs.append((s2, bv))
            return outs
        if v[0] == "top":
            return [(st.fork(), True), (st.fork(), False)]
        raise Undecided("bool split of %r" % (v,))

    def split_variant(self, st, path, adt):
        """ensure the value at `path` is a known variant of `adt`; returns [(state, variant_name)]"""
        v = self.resolve(st, self._read(st, path))
        if v[0] == "var":
            return [(st, v[2])]
        vs = self.variants(adt)
        if vs is None:
            raise Undecided("unknown enum %s" % adt)
        allowed = None
        if v[0] == "sym":
            c = st.cons.get(v[1])
            if c and c[0] == "vars":
                allowed = c[1]
        outs = []
        for name, _d in vs:
            if allowed is not None and name not in allowed:
                continue
            s2 = st.fork()
            if v[0] == "sym":
                s2.cons[v[1]] = ("varis", adt, name)
            else:
                self._write(s2, path, ("var", adt, name, None))
            outs.append((s2, name))
        return outs

    # ------------------------------------------------------------------ rvalues
    def discr_of(self, adt, name):
        for n, d in self.variants(adt) or []:
            if n == name:
                return d
        return None

    def eval_rvalue(self, st, rv, site):
        k = rv["k"]
        if k == "use":
            return [(st, self.eval_operand(st, rv["a"]))]
        if k in ("ref", "rawptr"):
            return [(st, ("ref", self.canon(st, rv["place"])))]
        if k == "bin":
            a = self.eval_operand(st, rv["a"])
            b = self.eval_operand(st, rv["b"])
            return self.eval_binop(st, rv["op"], a, b, site)
        if k == "un":
            a = self.eval_operand(st, rv["a"])
            if rv["op"] == "Not":
                if a[0] == "b":
                    return [(st, B(not a[1]))]
                if a[0] == "sym" and self.sym_is_bool(st, a, rv):
                    return [(s2, B(not bv)) for s2, bv in self.split_bool(st, a)]
            if rv["op"] == "Neg" and a[0] == "i":
                return [(st, I(-a[1]))]
            if rv["op"] == "Neg":
                return [(st, ("expr", "Sub", I(0), a))]
            if rv["op"] == "PtrMetadata":
                return [(st, SYM("len:%s" % (a[1] if a[0] == "ref" else site,) if a[0] != "ref" else "len:" + pstr(a[1])))]
            return [(st, SYM("op:%s:%s" % (rv["op"], site)))]
        if k == "cast":
            a = self.eval_operand(st, rv["a"])
            if rv["kind"] in ("IntToInt", "Transmute") or "Pointer" in rv["kind"] or "Unsize" in rv["kind"]:
                if a[0] == "ch":
                    return [(st, I(a[1]))]
                if rv["kind"] == "IntToInt" and a[0] in ("sym", "expr"):
                    # a narrowing cast of an unknown value keeps only the low bits: it is NOT the same value any more
                    # (`c as u8` of a char equals the character only below 0x100)
                    W = {"u8": 8, "i8": 8, "u16": 16, "i16": 16, "u32": 32, "i32": 32, "char": 32, "u64": 64, "i64": 64, "usize": 64, "isize": 64, "u128": 128, "i128": 128}
                    p = rv["a"].get("copy") or rv["a"].get("move")
                    src = self.body.locals[p["local"]]["ty"] if p and not p["proj"] else None
                    if src in W and rv.get("ty") in W and W[rv["ty"]] < W[src] and W[rv["ty"]] <= 16:
                        return [(st, ("expr", "Trunc%d" % W[rv["ty"]], a, I(0)))]
                return [(st, a)]
            return [(st, SYM("cast:%s" % (site,)))]
        if k == "discr":
            path = self.canon(st, rv["place"])
            adt = rv.get("adt")
            outs = []
            for s2, name in self.split_variant(st, path, adt):
                d = self.discr_of(adt, name)
                outs.append((s2, I(d) if d is not None else SYM("discr:%s" % site)))
            return outs
        if k == "aggr":
            vals = tuple(self.eval_operand(st, f) for f in rv["fields"])
            if rv["is_enum"]:
                return [(st, ("var", rv["adt"], rv["variant"], vals))]
            return [(st, ("agg", rv["adt"], tuple(zip(rv["names"], vals))))]
        if k == "tuple":
            vals = tuple(self.eval_operand(st, f) for f in rv["fields"])
            if not vals:
                return [(st, UNIT)]
            return [(st, ("agg", "tuple", tuple((str(i), v) for i, v in enumerate(vals))))]
        if k == "array":
            return [(st, SYM("array:%s" % (site,)))]
        if k == "closure":
            vals = tuple(self.eval_operand(st, f) for f in rv["fields"])
            return [(st, ("agg", "closure:" + rv["fn"], tuple((str(i), v) for i, v in enumerate(vals))))]
        return [(st, SYM("rv:%s:%s" % (k, site)))]

    def sym_is_bool(self, st, a, rv):
        return True

    # ------------------------------------------------------------------ stepping
    def run(self, entry, stop=(), env=None, cons=None, stop_at_entry_again=False, trace=(), invariant=True):
        """invariant: when one abstract iteration of a loop is analysed from its header (stop_at_entry_again),
        everything the loop may modify is first forgotten, so that the result holds for every iteration and
        not only for the first one"""
        self.outcomes = []
        self.npaths = 0
        st0 = self.init_state(entry, env, cons, trace)
        if stop_at_entry_again and invariant and entry in self._loops():
            n = len(st0.trace)
            st0 = self._havoc_loop(st0, entry)
            st0.trace = st0.trace[:n]
            st0.bb, st0.idx = entry, 0
        stop = set(stop)
        self._explore(st0, stop, entry if stop_at_entry_again else None, first=True)
        for o in self.outcomes:
            o.interp = self
        return self.outcomes

    def _finish(self, kind, st, info=None):
        self.npaths += 1
        if self.npaths > self.max_paths:
            raise Undecided("path explosion (> %d paths)" % self.max_paths)
        self.outcomes.append(Outcome(kind, st, info))

    def _loops(self):
        if not hasattr(self, "_loops_cache"):
            self._loops_cache = self.cfg.natural_loops()
        return self._loops_cache

    def _loop_assigned_locals(self, h):
        blks = self._loops()[h]
        out = set()
        for b in blks:
            blk = self.body.blocks[b]
            for s in blk["stmts"]:
                pl = s["place"]
                if "deref" not in pl["proj"]:
                    out.add(pl["local"])
                if s["k"] == "assign" and s["rv"]["k"] in ("ref", "rawptr") and s["rv"].get("mut"):
                    rp = s["rv"]["place"]
                    if "deref" not in rp["proj"]:
                        # a `&mut` that is provably only read through (e.g. the environment of a spliced FnMut closure that
                        # captures by shared reference) does not modify its referent
                        if s["rv"]["k"] == "ref" and not pl["proj"] and self._readonly_ref(pl["local"]):
                            continue
                        out.add(rp["local"])
            t = blk["term"]
            if t["k"] == "call" and "deref" not in t["dest"]["proj"]:
                out.add(t["dest"]["local"])
        return out

    def _readonly_ref(self, r, depth=0, seen=None):
        """every use of reference local `r` in the body is a read through it, a shared reborrow, or a move/copy/`&mut *`
        reborrow into a local with the same property; never a store through it, never an argument of a call"""
        seen = seen if seen is not None else set()
        if r in seen:
            return True
        seen.add(r)
        if depth > 8:
            return False
        if not hasattr(self, "_ro_cache"):
            self._ro_cache = {}
        if depth == 0 and r in self._ro_cache:
            return self._ro_cache[r]

        def base(op):
            p = op.get("move") or op.get("copy") if isinstance(op, dict) else None
            return p
        ok = True
        for blk in self.body.blocks:
            if blk["cleanup"]:
                continue
            for s in blk["stmts"]:
                pl = s["place"]
                if pl["local"] == r and pl["proj"]:
                    ok = False      # store through r
                if s["k"] != "assign":
                    continue
                rv = s["rv"]
                ops = [rv.get("a"), rv.get("b")] + list(rv.get("fields", []) or [])
                for o in ops:
                    p = base(o)
                    if p is None or p["local"] != r:
                        continue
                    if not p["proj"]:
                        # the reference itself flows on
                        if rv["k"] == "use" and not pl["proj"]:
                            ok = ok and self._readonly_ref(pl["local"], depth + 1, seen)
                        else:
                            ok = False
                if rv["k"] in ("ref", "rawptr") and rv["place"]["local"] == r:
                    if rv.get("mut") or rv["k"] == "rawptr":
                        ok = ok and rv["k"] == "ref" and not pl["proj"] and self._readonly_ref(pl["local"], depth + 1, seen)
                if rv["k"] in ("discr", "len") and rv.get("place", {}).get("local") == r:
                    pass
            t = blk["term"]
            if t and t["k"] == "call":
                for a in t["args"]:
                    p = base(a)
                    if p is not None and p["local"] == r:
                        ok = False
                if t["dest"]["local"] == r and t["dest"]["proj"]:
                    ok = False
            elif t and t["k"] == "drop":
                pass
            if not ok:
                break
        if depth == 0:
            self._ro_cache[r] = ok
        return ok

    def _havoc_loop(self, st, h):
        """loop summarisation: forget everything the loop may modify (locals by syntax, memory by a
        discovery pass over the body), so that the header state over-approximates every iteration."""
        blks = self._loops()[h]
        s0 = st.fork()
        for l in self._loop_assigned_locals(h):
            self._havoc(s0, (("L", l),), "loop%d:_%d" % (h, l))
        mem = set()
        for _round in range(4):
            sub = Interp(self.world, self.body, models=None, max_paths=4000, sym_types=self.sym_types,
                         summaries=self.summaries, depth=self.depth)
            sub.models = self.models
            sub._loops_cache = self._loops()
            probe = s0.fork()
            probe.trace = ()
            probe.seen = frozenset()
            probe.inloops = st.inloops | {h}
            probe.bb = h
            probe.idx = 0
            sub.outcomes = []
            sub.npaths = 0
            outside = set(self.cfg.blocks) - blks
            try:
                sub._explore(probe, outside, None, first=True, in_discovery=True)
            except Undecided:
                raise
            new = set()
            for o in sub.outcomes:
                for e in o.trace:
                    if e[0] in ("store", "push", "clear", "havoc") and e[2][0][0] in ("A", "S", "L"):
                        new.add(e[2])
            self.unmodelled |= sub.unmodelled
            self.ret_info.update(sub.ret_info)
            if new <= mem:
                break
            mem |= new
            for pth in new:
                self._havoc(s0, pth, "loop%d:%s" % (h, pstr(pth)))
        return s0

    def _explore(self, st, stop, loop_entry, first=False, in_discovery=False):
        # iterative DFS over states
        stack = [(st, first)]
        loops = self._loops()
        while stack:
            st, first = stack.pop()
            bb = st.bb
            if st.idx == 0 and not first:
                if bb in stop:
                    self._finish("stop", st, bb)
                    continue
                if loop_entry is not None and bb == loop_entry:
                    self._finish("stop", st, bb)
                    continue
            if st.idx == 0:
                if st.inloops:
                    keep = frozenset(h for h in st.inloops if bb in loops.get(h, ()))
                    if keep != st.inloops:
                        st.inloops = keep
                if bb in loops:
                    if bb in st.inloops:
                        if not first:
                            self._finish("backedge", st, bb)
                            continue
                    elif first and (loop_entry == bb):
                        st.inloops = st.inloops | {bb}
                    else:
                        st = self._havoc_loop(st, bb)
                        st.inloops = st.inloops | {bb}
                k = st.key()
                if k in st.seen:
                    self._finish("cycle", st, bb)
                    continue
                st.seen = st.seen | {k}
            blk = self.body.blocks[bb]
            stmts = blk["stmts"]
            if st.idx < len(stmts):
                s = stmts[st.idx]
                site = "%d.%d" % (bb, st.idx)
                if s["k"] == "assign":
                    for s2, v in self.eval_rvalue(st, s["rv"], site):
                        if s2 is st:
                            s2 = st.fork()
                        path = self.canon(s2, s["place"])
                        self._write(s2, path, v)
                        if path[0][0] in ("A", "S") or (self.trace_deref_stores and "deref" in s["place"]["proj"]):
                            s2.trace = s2.trace + (("store", bb, path, v),)
                        s2.idx = st.idx + 1
                        stack.append((s2, False))
                else:  # setdiscr
                    s2 = st.fork()
                    path = self.canon(s2, s["place"])
                    self._havoc(s2, path, site)
                    s2.idx = st.idx + 1
                    stack.append((s2, False))
                continue
            t = blk["term"]
            k = t["k"]
            if k == "goto":
                s2 = st.fork(); s2.bb = t["target"]; s2.idx = 0
                stack.append((s2, False))
            elif k == "return":
                self._finish("return", st)
            elif k in ("unreachable", "resume", "abort"):
                self._finish("unreachable", st)
            elif k == "drop":
                s2 = st.fork(); s2.bb = t["target"]; s2.idx = 0
                stack.append((s2, False))
            elif k == "assert":
                cv = self.eval_operand(st, t["cond"])
                if cv[0] == "b":
                    if cv[1] == t["expected"]:
                        s2 = st.fork(); s2.bb = t["target"]; s2.idx = 0
                        stack.append((s2, False))
                    else:
                        self._finish("panic", st, "assert:" + t["msg"])
                elif cv[0] == "sym":
                    for s2, bv in self.split_bool(st, cv):
                        if bv == t["expected"]:
                            s2.bb = t["target"]; s2.idx = 0
                            stack.append((s2, False))
                        else:
                            self._finish("panic", s2, "assert:" + t["msg"])
                else:
                    s2 = st.fork(); s2.bb = t["target"]; s2.idx = 0
                    stack.append((s2, False))
            elif k == "switch":
                v = self.eval_operand(st, t["discr"])
                for s2, tgt in self._switch(st, v, t):
                    s2.bb = tgt; s2.idx = 0
                    stack.append((s2, False))
            elif k == "call":
                for s2, rv in self._call(st, t, bb):
                    if rv is None:
                        # a modelled call that cannot return on this path (unwrap of None / Err)
                        self._finish("panic", s2, "%s on an absent value" % (cfgmod.callee(t),))
                        continue
                    if s2 is st:
                        s2 = st.fork()
                    if t["target"] is None:
                        self._finish("panic", s2, cfgmod.callee(t))
                        continue
                    path = self.canon(s2, t["dest"])
                    self._write(s2, path, rv)
                    if path[0][0] in ("A", "S"):
                        s2.trace = s2.trace + (("store", bb, path, rv),)
                    s2.bb = t["target"]; s2.idx = 0
                    stack.append((s2, False))
            else:
                raise Undecided("terminator %s" % k)

    def _switch(self, st, v, t):
        v = self.resolve(st, v)
        arms = t["arms"]
        if v[0] in ("i", "b", "ch"):
            n = int(v[1])
            for a in arms:
                if a[0] == n:
                    return [(st.fork(), a[1])]
            return [(st.fork(), t["otherwise"])]
        if v[0] == "sym":
            outs = []
            c = st.cons.get(v[1])
            is_bool = len(arms) == 1 and arms[0][0] == 0 and (c is None or (c[0] in ("eq", "notin") and all(x[0] == "b" for x in (c[1] if c[0] == "notin" else [c[1]]))))
            ty = self.sym_types.get(v[1])
            if ty and ty[0] != "bool":
                is_bool = False
            if is_bool and (ty is None or ty[0] == "bool"):
                ty_known_bool = True
            if is_bool:
                for s2, bv in self.split_bool(st, v):
                    outs.append((s2, arms[0][1] if not bv else t["otherwise"]))
                return outs
            mk = CH if (ty and ty[0] == "char") else I
            r = self._int_range(st, v)
            lo, hi, excl = r if r else (None, None, frozenset())
            taken = []
            for a in arms:
                n = a[0]
                if (lo is not None and n < lo) or (hi is not None and n > hi) or n in excl:
                    continue
                s2 = st.fork()
                s2.cons[v[1]] = ("eq", mk(n))
                outs.append((s2, a[1]))
                taken.append(n)
            # otherwise
            if lo is not None and hi is not None and hi - lo < 64 and all(x in taken or x in excl for x in range(lo, hi + 1)):
                return outs
            s2 = st.fork()
            if lo is None and hi is None:
                s2.cons[v[1]] = ("notin", frozenset([mk(x) for x in excl] + [mk(a[0]) for a in arms]))
            outs.append((s2, t["otherwise"]))
            return outs
        # top: all targets
        outs = []
        seen = set()
        for a in arms:
            if a[1] not in seen:
                seen.add(a[1]); outs.append((st.fork(), a[1]))
        if t["otherwise"] not in seen:
            outs.append((st.fork(), t["otherwise"]))
        return outs

    # ------------------------------------------------------------------ calls
    def _call(self, st, t, bb):
        name = cfgmod.callee(t)
        decl = cfgmod.callee_decl(t)
        args = [self.eval_operand(st, a) for a in t["args"]]
        model = None
        if name is not None:
            model = self.models.get(name) or self.models.get(decl)
            if model is None:
                for key, m in self.models.items():
                    if key.startswith("*") and (name.endswith(key[1:]) or (decl or "").endswith(key[1:])):
                        model = m
                        break
        if model is not None:
            if self.log_reads:
                for i, a in enumerate(t["args"]):
                    p = a.get("copy") or a.get("move")
                    if p is not None and not p["proj"] and self.body.locals[p["local"]]["tk"] == "ref" and args[i][0] == "ref" \
                            and args[i][1] and args[i][1][0][0] == "A" and len(args[i][1]) > 1:
                        st.trace = st.trace + (("read", bb, args[i][1]),)
            res = model(self, st, t, args, bb)
            if res is not None:
                outs = []
                for s2, rv in res:
                    if s2 is st:
                        s2 = st.fork()
                    s2.trace = s2.trace + (("call", bb, name, tuple(args), t["dest"]["local"], rv),)
                    outs.append((s2, rv))
                return outs
        # unmodelled: havoc &mut arguments (only what the callee's summary says it may write, when the
        # callee is a workspace function), fresh result
        s2 = st.fork()
        self.unmodelled.add(name)
        written = None
        if self.summaries is not None and name and self.world.body(name) is not None:
            pfs = self.summaries.paths(name, self.depth + 1)
            if pfs:
                written = set()
                for pf in pfs:
                    written |= pf.written
        for i, a in enumerate(t["args"]):
            p = a.get("copy") or a.get("move")
            if p is None:
                continue
            lt = self.body.locals[p["local"]]
            if self.log_reads and not p["proj"] and lt["tk"] in ("ref", "refmut") and args[i][0] == "ref" and args[i][1] and args[i][1][0][0] == "A" \
                    and len(args[i][1]) > 1 and (name is None or self.world.body(name) is None):
                s2.trace = s2.trace + (("read", bb, args[i][1]),)
            if not p["proj"] and lt["tk"] == "refmut" and args[i][0] == "ref":
                if written is None:
                    self._havoc(s2, args[i][1], "%d.a%d" % (bb, i))
                    s2.trace = s2.trace + (("havoc", bb, args[i][1], name),)
                else:
                    root = (("A", i + 1),)
                    for q in sorted(written):
                        if q[:1] == root:
                            tgt = args[i][1] + q[1:]
                            self._havoc(s2, tgt, "%d.a%d%s" % (bb, i, pstr(q[1:])))
                            s2.trace = s2.trace + (("havoc", bb, tgt, name),)
        s2.trace = s2.trace + (("call", bb, name, tuple(args), t["dest"]["local"]),)
        dl = t["dest"]
        rv = SYM("ret:%d" % bb)
        self.ret_info["ret:%d" % bb] = (name, tuple(args))
        if not dl["proj"]:
            l = self.body.locals[dl["local"]]
            self.sym_types["ret:%d" % bb] = (l["tk"], l["adt"])
            if l["tk"] == "unit":
                rv = UNIT
        return [(s2, rv)]


# ---------------------------------------------------------------------------------------------
# call models
# ---------------------------------------------------------------------------------------------

def _deref(interp, st, v):
    if v[0] == "ref":
        return interp.resolve(st, interp._read(st, v[1]))
    return TOP


def m_partial_eq(negate=False):
    def model(interp, st, t, args, bb):
        a = _deref(interp, st, args[0]) if args[0][0] == "ref" else args[0]
        b = _deref(interp, st, args[1]) if args[1][0] == "ref" else args[1]
        # &&T arguments (derived eq on references)
        if a[0] == "ref":
            a = _deref(interp, st, a)
        if b[0] == "ref":
            b = _deref(interp, st, b)
        nref_ = len(t["callee"].get("self_ty", "")) - len(t["callee"].get("self_ty", "").lstrip("&"))
        if nref_ and a[0] == "sym" and not st.cons.get(a[1]):
            a = interp.resolve(st, interp._read(st, (("S", a[1]),)))
        if nref_ and b[0] == "sym" and not st.cons.get(b[1]):
            b = interp.resolve(st, interp._read(st, (("S", b[1]),)))
        adt = t["callee"].get("self_adt")
        outs = []
        if a[0] == "var" and b[0] == "var" and a[1] == b[1]:
            if a[2] != b[2]:
                return [(st, B(negate))]
            ad = interp.world.adt(a[1])
            fieldless = ad is not None and all(not v["fields"] for v in ad["variants"] if v["name"] == a[2])
            if fieldless or (a[3] == () and b[3] == ()):
                return [(st, B(not negate))]
        if is_const(a) and is_const(b):
            return [(st, B((a == b) != negate))]
        # one side is an enum symbol with finite domain: split it
        for x, y, xarg in ((a, b, args[0]), (b, a, args[1])):
            if x[0] == "sym" and y[0] == "var" and adt and interp.variants(adt) and xarg[0] == "ref":
                ad = interp.world.adt(adt)
                if ad and all(not v["fields"] for v in ad["variants"]):
                    for s2, name in interp.split_variant(st, xarg[1], adt):
                        outs.append((s2, B((name == y[2]) != negate)))
                    return outs
            if x[0] == "sym" and y[0] in ("i", "ch") and interp._int_range(st, x) is not None:
                return [(s2, B(r != negate)) for s2, r in interp._cmp_split(st, "Eq", x, y)]
            if x[0] == "sym" and y[0] in ("s", "bytes"):
                c = st.cons.get(x[1])
                if c and c[0] == "notin" and y in c[1]:
                    return [(st, B(negate))]
                s1 = st.fork(); s1.cons[x[1]] = ("eq", y)
                s2 = st.fork(); s2.cons[x[1]] = ("notin", frozenset((c[1] if c and c[0] == "notin" else frozenset()) | {y}))
                return [(s1, B(not negate)), (s2, B(negate))]
        if a[0] == "sym" and b[0] == "sym" and a[1] == b[1]:
            return [(st, B(not negate))]
        # two different symbols of a field-less enum: split both
        if a[0] == "sym" and b[0] == "sym" and adt and args[0][0] == "ref" and args[1][0] == "ref":
            ad = interp.world.adt(adt)
            if ad and ad["kind"] == "enum" and all(not v["fields"] for v in ad["variants"]):
                p0, p1 = args[0][1], args[1][1]
                nref = len(t["callee"].get("self_ty", "")) - len(t["callee"].get("self_ty", "").lstrip("&"))
                for _ in range(nref):
                    v0 = interp._read(st, p0)
                    p0 = v0[1] if v0[0] == "ref" else (("S", v0[1]),) if v0[0] == "sym" else p0
                    v1 = interp._read(st, p1)
                    p1 = v1[1] if v1[0] == "ref" else (("S", v1[1]),) if v1[0] == "sym" else p1
                for s2, n0 in interp.split_variant(st, p0, adt):
                    for s3, n1 in interp.split_variant(s2, p1, adt):
                        outs.append((s3, B((n0 == n1) != negate)))
                return outs
        return None
    return model


def m_option_as_ref(interp, st, t, args, bb):
    if args[0][0] != "ref":
        return None
    p = args[0][1]
    outs = []
    for s2, name in interp.split_variant(st, p, "core::option::Option"):
        if name == "None":
            outs.append((s2, VAR("core::option::Option", "None", ())))
        else:
            outs.append((s2, VAR("core::option::Option", "Some", (("ref", p + (("dc", "Some"), ("f", "0"))),))))
    return outs


def m_option_is(which):
    def model(interp, st, t, args, bb):
        if args[0][0] != "ref":
            return None
        return [(s2, B(name == which)) for s2, name in interp.split_variant(st, args[0][1], "core::option::Option")]
    return model


def m_option_take(interp, st, t, args, bb):
    if args[0][0] != "ref":
        return None
    p = args[0][1]
    outs = []
    for s2, name in interp.split_variant(st, p, "core::option::Option"):
        old = interp._read(s2, p)
        if name == "None":
            rv = VAR("core::option::Option", "None", ())
        else:
            payload = interp._read(s2, p + (("dc", "Some"), ("f", "0")))
            rv = VAR("core::option::Option", "Some", (payload,))
        interp._write(s2, p, VAR("core::option::Option", "None", ()))
        s2.trace = s2.trace + (("store", bb, p, VAR("core::option::Option", "None", ())),) if p[0][0] in ("A", "S") else s2.trace
        outs.append((s2, rv))
    return outs


def m_option_replace(interp, st, t, args, bb):
    if args[0][0] != "ref":
        return None
    p = args[0][1]
    outs = []
    for s2, name in interp.split_variant(st, p, "core::option::Option"):
        if name == "None":
            rv = VAR("core::option::Option", "None", ())
        else:
            payload = interp._read(s2, p + (("dc", "Some"), ("f", "0")))
            rv = VAR("core::option::Option", "Some", (payload,))
        nv = VAR("core::option::Option", "Some", (args[1],))
        interp._write(s2, p, nv)
        if p[0][0] in ("A", "S"):
            s2.trace = s2.trace + (("store", bb, p, nv),)
        outs.append((s2, rv))
    return outs


def _note_src(interp, name, v):
    if v[0] == "var" and v[3] is not None and len(v[3]) == 2 and v[3][0] == "symp":
        interp.unwrap_src[name] = SYM(v[3][1])
    elif v[0] == "sym":
        interp.unwrap_src[name] = v


def m_option_unwrap(interp, st, t, args, bb):
    v = args[0]
    _note_src(interp, "unwrap:%d" % bb, v)
    if v[0] == "var" and v[1] == "core::option::Option":
        if v[2] == "Some":
            if v[3] and v[3] != () and not (len(v[3]) == 2 and v[3][0] == "symp"):
                return [(st, v[3][0])]
            return [(st, SYM("unwrap:%d" % bb))]
        s2 = st.fork()
        s2.trace = s2.trace + (("unwrap_none", bb, cfgmod.callee(t)),)
        return [(s2, None)]
    if v[0] == "var" and v[1] == "core::result::Result":
        if v[2] == "Ok":
            return [(st, v[3][0] if v[3] and not (len(v[3]) == 2 and v[3][0] == "symp") else SYM("unwrap:%d" % bb))]
        s2 = st.fork()
        s2.trace = s2.trace + (("unwrap_none", bb, cfgmod.callee(t)),)
        return [(s2, None)]
    # unknown option: both outcomes, the None one is a potential panic
    s1 = st.fork()
    s1.trace = s1.trace + (("unwrap_unknown", bb, cfgmod.callee(t)),)
    return [(s1, SYM("unwrap:%d" % bb))]


def m_try_branch(interp, st, t, args, bb):
    v = args[0]
    _note_src(interp, "tryok:%d" % bb, v)
    CF = "core::ops::control_flow::ControlFlow"
    if v[0] == "var":
        if v[2] in ("Ok", "Some"):
            pl = v[3][0] if v[3] and not (len(v[3]) == 2 and v[3][0] == "symp") else SYM("tryok:%d" % bb)
            return [(st, VAR(CF, "Continue", (pl,)))]
        return [(st, VAR(CF, "Break", (v,)))]
    # unknown result: both
    s1 = st.fork()
    s2 = st.fork()
    return [(s1, VAR(CF, "Continue", (SYM("tryok:%d" % bb),))),
            (s2, VAR(CF, "Break", (VAR("core::result::Result", "Err", (SYM("tryerr:%d" % bb),)),)))]


def m_from_residual(interp, st, t, args, bb):
    v = args[0]
    if v[0] == "var" and v[2] in ("Err", "None"):
        return [(st, VAR(v[1], v[2], (SYM("converted-err:%d" % bb),) if v[2] == "Err" else ()))]
    return [(st, VAR("core::result::Result", "Err", (SYM("residual:%d" % bb),)))]


def m_identity(interp, st, t, args, bb):
    return [(st, args[0])]


def m_checked_sub_one(interp, st, t, args, bb):
    """usize::checked_sub(a, 1): None exactly when a == 0, otherwise Some(a - 1) - the guard-and-index idiom
    `if let Some(left) = start.checked_sub(1)`; any other subtrahend stays unmodelled"""
    if len(args) != 2 or args[1] != I(1):
        return None
    a = interp.resolve(st, args[0])
    O = "core::option::Option"
    if a[0] == "i":
        return [(st, ("var", O, "None", ())) if a[1] == 0 else (st, ("var", O, "Some", (I(a[1] - 1),)))]
    if a[0] != "sym":
        return None
    c = st.cons.get(a[1])
    outs = []
    if not (c and c[0] == "notin" and I(0) in c[1]) and not (c and c[0] == "eq" and c[1] != I(0)):
        s0 = st.fork()
        s0.cons[a[1]] = ("eq", I(0))
        outs.append((s0, ("var", O, "None", ())))
    if not (c and c[0] == "eq" and c[1] == I(0)):
        s1 = st.fork()
        if not (c and c[0] in ("eq", "ival")):
            s1.cons[a[1]] = ("notin", frozenset((c[1] if c and c[0] == "notin" else frozenset()) | {I(0)}))
        outs.append((s1, ("var", O, "Some", (("expr", "Sub", a, I(1)),))))
    return outs


def m_transpose(interp, st, t, args, bb):
    """Option<Result<T, E>>::transpose -> Result<Option<T>, E> on known variants"""
    v = args[0]
    O, R = "core::option::Option", "core::result::Result"
    if v[0] == "var" and v[1] == O:
        if v[2] == "None":
            return [(st, VAR(R, "Ok", (VAR(O, "None", ()),)))]
        inner = v[3][0] if v[3] else None
        if inner and inner[0] == "var" and inner[1] == R:
            if inner[2] == "Ok":
                return [(st, VAR(R, "Ok", (VAR(O, "Some", inner[3]),)))]
            return [(st, VAR(R, "Err", inner[3]))]
        if inner is not None:
            # Some(result of a fallible call): both outcomes, named like the `?` operator names them
            _note_src(interp, "tryok:%d" % bb, inner)
            s1, s2 = st.fork(), st.fork()
            return [(s1, VAR(R, "Ok", (VAR(O, "Some", (SYM("tryok:%d" % bb),)),))),
                    (s2, VAR(R, "Err", (SYM("tryerr:%d" % bb),)))]
    return None


def m_deref(interp, st, t, args, bb):
    # Deref/DerefMut/Index/IndexMut/as_slice on containers: the result aliases the container's content
    # (never its length/emptiness facts)
    if args[0][0] == "ref":
        p = args[0][1]
        if p and p[-1] == ("f", "<content>"):
            return [(st, ("ref", p))]
        return [(st, ("ref", p + (("f", "<content>"),)))]
    return None


def idx_name(v):
    if v[0] == "i":
        return str(v[1])
    if v[0] == "sym":
        return v[1]
    return "expr"


def m_index(interp, st, t, args, bb):
    """container[index]: element reference for scalar indices, content alias for ranges"""
    res = m_deref(interp, st, t, args, bb)
    if res is None or len(args) < 2:
        return res
    ix = args[1]
    if ix[0] in ("i", "sym", "expr"):
        (s2, r), = res
        if ix[0] == "expr":
            if ix not in interp.index_vals:
                interp.index_vals.append(ix)
            nm = "#%d" % interp.index_vals.index(ix)
        else:
            nm = idx_name(ix)
        return [(s2, ("ref", r[1] + (("f", "[%s]" % nm),)))]
    return res


def _coll_path(v):
    if v[0] == "ref":
        p = v[1]
        while p and (p[-1] == ("f", "<content>") or (p[-1][0] == "f" and str(p[-1][1]).startswith("["))):
            p = p[:-1]
        return p
    return None


def _coll_state(interp, st, p):
    v = interp.resolve(st, interp._read(st, p + (("f", "<empty?>"),)))
    return v


def m_is_empty(interp, st, t, args, bb):
    p = _coll_path(args[0])
    if p is None:
        return None
    v = _coll_state(interp, st, p)
    if v[0] == "b":
        return [(st, v)]
    s1 = st.fork(); interp._write(s1, p + (("f", "<empty?>"),), B(True))
    s2 = st.fork(); interp._write(s2, p + (("f", "<empty?>"),), B(False))
    return [(s1, B(True)), (s2, B(False))]


def m_push(interp, st, t, args, bb):
    p = _coll_path(args[0])
    if p is None:
        return None
    s2 = st.fork()
    interp._write(s2, p + (("f", "<empty?>"),), B(False))
    if p[0][0] in ("A", "S"):
        s2.trace = s2.trace + (("push", bb, p, args[1] if len(args) > 1 else None),)
    return [(s2, UNIT)]


def m_clear(interp, st, t, args, bb):
    p = _coll_path(args[0])
    if p is None:
        return None
    s2 = st.fork()
    interp._havoc(s2, p, "clear%d" % bb)
    interp._write(s2, p + (("f", "<empty?>"),), B(True))
    if p[0][0] in ("A", "S"):
        s2.trace = s2.trace + (("clear", bb, p),)
    return [(s2, UNIT)]


def m_new_empty(interp, st, t, args, bb):
    return [(st, ("agg", "coll", (("<empty?>", B(True)),)))]


def m_end_elem(which):
    def model(interp, st, t, args, bb):
        p = _coll_path(args[0])
        if p is None:
            return None
        v = _coll_state(interp, st, p)
        O = "core::option::Option"
        el = ("ref", p + (("f", "<content>"), ("f", "[%s]" % which)))
        if v[0] == "b":
            if v[1]:
                return [(st, VAR(O, "None", ()))]
            return [(st, VAR(O, "Some", (el,)))]
        s1 = st.fork(); interp._write(s1, p + (("f", "<empty?>"),), B(True))
        s2 = st.fork(); interp._write(s2, p + (("f", "<empty?>"),), B(False))
        return [(s1, VAR(O, "None", ())), (s2, VAR(O, "Some", (el,)))]
    return model


def m_len(interp, st, t, args, bb):
    v = args[0]
    for _ in range(3):
        if v[0] == "ref":
            p = v[1]
            while p and p[-1] == ("f", "<content>"):
                p = p[:-1]
            v = interp.resolve(st, interp._read(st, p))
    if v[0] in ("bytes", "s"):
        return [(st, I(len(v[1]) if v[0] == "bytes" else len(v[1].encode())))]
    return None


def m_bool_is_positive(interp, st, t, args, bb):
    v = interp.resolve(st, args[0])
    return [(s2, B(r)) for s2, r in (interp._cmp_split(st, "Gt", v, I(0)) if v[0] == "sym" else [(st, v[1] > 0)])]


def m_ord_cmp(interp, st, t, args, bb):
    a = _deref(interp, st, args[0]) if args[0][0] == "ref" else args[0]
    b = _deref(interp, st, args[1]) if args[1][0] == "ref" else args[1]
    OR = "core::cmp::Ordering"
    if a[0] == "sym" and b[0] == "i" and interp._int_range(st, a) is not None:
        outs = []
        for s2, lt in interp._cmp_split(st, "Lt", a, b):
            if lt:
                outs.append((s2, VAR(OR, "Less", ())))
            else:
                for s3, eq in interp._cmp_split(s2, "Eq", a, b):
                    outs.append((s3, VAR(OR, "Equal" if eq else "Greater", ())))
        return outs
    if a[0] == "i" and b[0] == "i":
        return [(st, VAR(OR, "Less" if a[1] < b[1] else "Equal" if a[1] == b[1] else "Greater", ()))]
    return None


DEFAULT_MODELS = {
    "core::cmp::PartialEq::eq": m_partial_eq(False),
    "core::cmp::PartialEq::ne": m_partial_eq(True),
    "*::PartialEq>::eq": m_partial_eq(False),
    "*::PartialEq>::ne": m_partial_eq(True),
    "core::option::Option::as_ref": m_option_as_ref,
    "core::option::Option::as_mut": m_option_as_ref,
    "core::option::Option::is_some": m_option_is("Some"),
    "core::option::Option::is_none": m_option_is("None"),
    "core::option::Option::take": m_option_take,
    "core::option::Option::replace": m_option_replace,
    "core::option::Option::unwrap": m_option_unwrap,
    "core::option::Option::expect": m_option_unwrap,
    "core::result::Result::unwrap": m_option_unwrap,
    "core::result::Result::expect": m_option_unwrap,
    "*::Try>::branch": m_try_branch,
    "core::ops::try_trait::Try::branch": m_try_branch,
    "*::FromResidual>::from_residual": m_from_residual,
    "*::FromResidual<core::result::Result>>::from_residual": m_from_residual,
    "core::ops::try_trait::FromResidual::from_residual": m_from_residual,
    "core::option::Option::transpose": m_transpose,
    "usize::checked_sub": m_checked_sub_one,
    "*::IntoIterator>::into_iter": m_identity,
    "core::iter::traits::collect::IntoIterator::into_iter": m_identity,
    "*::Deref>::deref": m_deref,
    "*::DerefMut>::deref_mut": m_deref,
    "*::Index<I>>::index": m_index,
    "*::IndexMut<I>>::index_mut": m_index,
    "core::ops::index::Index::index": m_index,
    "core::ops::index::IndexMut::index_mut": m_index,
    "alloc::vec::Vec::as_mut_slice": m_deref,
    "alloc::string::String::as_bytes": m_deref,
    "core::str::<impl str>::as_bytes": m_deref,
    "str::as_bytes": m_deref,
    "alloc::string::String::as_str": m_deref,
    "alloc::string::String::as_mut_vec": m_deref,
    "alloc::vec::Vec::as_slice": m_deref,
    "alloc::string::String::is_empty": m_is_empty,
    "alloc::vec::Vec::is_empty": m_is_empty,
    "core::str::<impl str>::is_empty": m_is_empty,
    "str::is_empty": m_is_empty,
    "[T]::is_empty": m_is_empty,
    "alloc::string::String::push": m_push,
    "alloc::vec::Vec::push": m_push,
    "alloc::string::String::clear": m_clear,
    "alloc::vec::Vec::clear": m_clear,
    "alloc::string::String::new": m_new_empty,
    "alloc::vec::Vec::new": m_new_empty,
    "[T]::len": m_len,
    "str::len": m_len,
    "[T]::last_mut": m_end_elem("last"),
    "[T]::first_mut": m_end_elem("first"),
    "[T]::last": m_end_elem("last"),
    "[T]::first": m_end_elem("first"),
    "core::num::<impl i32>::is_positive": m_bool_is_positive,
    "i32::is_positive": m_bool_is_positive,
    "*::Ord>::cmp": m_ord_cmp,
    "core::cmp::Ord::cmp": m_ord_cmp,
}


# ---------------------------------------------------------------------------------------------
# loop header fixpoint over a finite set of header states
# ---------------------------------------------------------------------------------------------

def _finite(v):
    if v[0] in ("i", "b", "ch", "s", "unit", "fn", "bytes", "ref"):
        return True
    if v[0] == "var":
        return v[3] in ((), None) or all(_finite(x) for x in v[3] if isinstance(x, tuple)) if not (v[3] and len(v[3]) == 2 and v[3][0] == "symp") else False
    if v[0] == "agg":
        return all(_finite(x) for _, x in v[2])
    return False


def header_fixpoint(interp, header, h0_env, h0_cons, max_states=256, keep=None, trace=()):
    """All header states of the loop at `header` reachable from the initial header state, as a finite set.

    A header state is the environment at the loop header.  After one abstract iteration, every
    path whose value is still the initial one keeps it; a value that is finite (constant, variant,
    reference) is kept as is (disjunctively); any other changed value becomes the loop variable
    symbol `lv:<path>` (one per path: 'changed since the loop was entered').  Resolved constraints
    (bool/variant/eq) of symbols are folded into the values, other constraints are dropped.
    Returns (states, outcomes_by_state) where outcomes include continue ("stop" at header) and exits.
    """
    def canon_env(env, cons, base_env):
        out = {}
        for p, v in env.items():
            if p[0][0] == "L" and len(p) >= 1:
                pass
            v2 = v
            if v2[0] == "sym":
                c = cons.get(v2[1])
                if c and c[0] == "eq":
                    v2 = c[1]
                elif c and c[0] == "varis":
                    v2 = ("var", c[1], c[2], None)
            b0 = base_env.get(p)
            if keep is not None and not keep(p):
                # untracked: locals assigned in the loop are uniformly 'changed'; other paths: unchanged ->
                # initial value, changed -> one 'changed' symbol per path
                if p[0][0] == "L" and p[0][1] in assigned:
                    if p[:1] in base_env:
                        out[p[:1]] = SYM("lv:" + pstr(p[:1]))
                    # else: absent = unknown; a read yields a fresh symbol anyway
                else:
                    out[p] = b0 if (v2 == b0 or v == b0) else SYM("lv:" + pstr(p))
                continue
            if v2 == b0 or v == b0:
                out[p] = b0
            elif _finite(v2):
                out[p] = v2
            else:
                out[p] = SYM("lv:" + pstr(p))
        return out

    states = []
    seen = set()
    assigned = interp._loop_assigned_locals(header) if header in interp._loops() else set()
    h0_env = dict(h0_env)
    if keep is not None:
        for p in list(h0_env):
            if p[0][0] == "L" and p[0][1] in assigned and not keep(p):
                del h0_env[p]
                h0_env[p[:1]] = SYM("lv:" + pstr(p[:1]))
    work = [dict(h0_env)]
    results = []
    base = dict(h0_env)
    while work:
        env = work.pop()
        key = frozenset(env.items())
        if key in seen:
            continue
        seen.add(key)
        if len(seen) > max_states:
            raise Undecided("loop header state explosion at bb%d" % header)
        states.append(env)
        outs = interp.run(header, env=env, cons=dict(h0_cons), stop_at_entry_again=True, trace=trace, invariant=False)
        results.append((env, list(outs)))
        for o in outs:
            if o.kind == "stop" and o.info == header:
                nenv = canon_env(o.env, o.cons, base)
                # paths not mentioned any more fall back to the base value
                for p, v in base.items():
                    nenv.setdefault(p, v)
                work.append(nenv)
    return states, results
