"""E5: field effects / kill sets, per return class, with call-graph summaries (inlining bound 3).

A path (access path rooted at the pointee of a reference parameter) is *killed* on a control
path when it is fully overwritten: assignment, clear, take/replace, clone_from, or a callee that
kills the corresponding parameter on the return class taken on this path.
"""
from . import absint, cfg as cfgmod

KILL_CALLS = (
    "alloc::vec::Vec::clear", "alloc::string::String::clear",
    "core::option::Option::take", "core::option::Option::replace",
    "core::clone::Clone::clone_from", "::clone_from",
    "alloc::vec::Vec::truncate",  # only with constant 0, checked below
)


def m_cow_to_mut(interp, st, t, args, bb):
    # Cow::to_mut(&mut cow) -> &mut owned content: the result aliases the Cow's storage
    if args[0][0] == "ref":
        return [(st, ("ref", args[0][1] + (("f", "<content>"),)))]
    return None


def m_clone_from(interp, st, t, args, bb):
    if args[0][0] == "ref":
        p = absint._coll_path(args[0]) or args[0][1]
        s2 = st.fork()
        interp._havoc(s2, p, "clone_from%d" % bb)
        s2.trace = s2.trace + (("store", bb, p, absint.SYM("clone_from:%d" % bb)),)
        return [(s2, absint.UNIT)]
    return None


EXTRA_MODELS = {
    "alloc::borrow::Cow::to_mut": m_cow_to_mut,
    "*::Clone>::clone_from": m_clone_from,
    "core::clone::Clone::clone_from": m_clone_from,
}


def ret_class(v):
    if v[0] == "var" and v[1] == "core::result::Result":
        return v[2]
    if v[0] == "var" and v[1] == "core::option::Option":
        return v[2]
    return "any"


def strip_content(p):
    while p and p[-1] in (("f", "<content>"), ("f", "<empty?>")):
        p = p[:-1]
    return p


class PathFacts:
    def __init__(self, kind, rclass, killed, written, calls, outcome):
        self.kind = kind
        self.rclass = rclass
        self.killed = killed      # set of canonical paths fully overwritten
        self.written = written    # set of canonical paths written (partially or fully)
        self.calls = calls        # [(bb, callee, args)]
        self.outcome = outcome


class Effects:
    def __init__(self, world, max_depth=3):
        self.world = world
        self.memo = {}
        self.max_depth = max_depth
        self.analysed = set()

    def paths(self, fn, depth=0):
        """list of PathFacts for every return path of `fn` (None if body unknown / too deep)"""
        if fn in self.memo:
            return self.memo[fn]
        body = self.world.body(fn)
        if body is None or depth > self.max_depth:
            return None
        self.memo[fn] = None  # recursion guard
        it = absint.Interp(self.world, body, models=EXTRA_MODELS, summaries=self, depth=depth)
        outs = it.run(0)
        self.analysed.add(fn)
        res = []
        for o in outs:
            if o.kind == "backedge":
                continue
            if o.kind not in ("return", "panic", "unreachable"):
                res.append(PathFacts(o.kind, "any", set(), set(), [], o))
                continue
            rc = ret_class(o.value_at((("L", 0),))) if o.kind == "return" else "panic"
            killed, written, calls = set(), set(), []
            for e in o.trace:
                if e[0] == "store":
                    p = strip_content(e[2])
                    if e[2] and e[2][-1] == ("f", "<empty?>"):
                        continue
                    written.add(p)
                    if p == e[2]:
                        killed.add(p)
                        # a whole store also kills everything below
                elif e[0] == "clear":
                    killed.add(strip_content(e[2])); written.add(strip_content(e[2]))
                elif e[0] in ("push", "resize"):
                    written.add(strip_content(e[2]))
                elif e[0] == "havoc":
                    written.add(strip_content(e[2]))
                elif e[0] == "call":
                    bb, callee, args = e[1], e[2], e[3]
                    calls.append((bb, callee, args))
                    sub = self.paths(callee, depth + 1) if callee else None
                    if sub:
                        # return class of the callee on this path
                        rv = o.interp.resolve(o, absint.SYM("ret:%d" % bb))
                        cls = ret_class(rv)
                        cbody = self.world.body(callee)
                        for j, a in enumerate(args):
                            if a[0] != "ref":
                                continue
                            base = strip_content(a[1])
                            root = (("A", j + 1),)
                            cand = [pf for pf in sub if pf.kind == "return" and (cls == "any" or pf.rclass in (cls, "any"))]
                            if not cand:
                                continue
                            ks = None
                            ws = set()
                            for pf in cand:
                                k = {q for q in pf.killed if q[:1] == root}
                                ks = k if ks is None else (ks & k)
                                ws |= {q for q in pf.written if q[:1] == root}
                            for q in ks or ():
                                killed.add(base + q[1:]); written.add(base + q[1:])
                            for q in ws:
                                written.add(base + q[1:])
            res.append(PathFacts(o.kind, rc, killed, written, calls, o))
        self.memo[fn] = res
        return res


def is_killed(killed, path):
    """path is killed if it or one of its prefixes is killed"""
    for n in range(1, len(path) + 1):
        if path[:n] in killed:
            return True
    return False


class ReadsBeforeKill:
    """fields (access paths under a reference parameter) that a function may read before it overwrites them,
    composed through workspace callees (bounded depth)"""

    def __init__(self, world, eff, max_depth=4):
        self.world = world
        self.eff = eff
        self.memo = {}
        self.max_depth = max_depth
        self.analysed = set()

    def rbk(self, fn, depth=0):
        """dict param_index -> set of paths (rooted at ("A", param_index)) read before killed"""
        if fn in self.memo:
            return self.memo[fn]
        body = self.world.body(fn)
        if body is None or depth > self.max_depth:
            return None
        self.memo[fn] = {}
        it = absint.Interp(self.world, body, models=MODELS_WITH_READS, summaries=self.eff, depth=depth)
        it.log_reads = True
        outs = it.run(0)
        self.analysed.add(fn)
        res = {}
        for o in outs:
            killed = set()
            for e in o.trace:
                if e[0] == "read":
                    p = strip_content(e[2])
                    if not is_killed(killed, p):
                        res.setdefault(p[0][1], set()).add(p)
                elif e[0] == "store":
                    if e[2] and e[2][-1] == ("f", "<empty?>"):
                        continue
                    if strip_content(e[2]) == e[2]:
                        killed.add(e[2])
                elif e[0] == "clear":
                    killed.add(strip_content(e[2]))
                elif e[0] == "call":
                    callee, args = e[2], e[3]
                    sub = self.rbk(callee, depth + 1) if callee and self.world.body(callee) is not None else None
                    if sub is None and callee and self.world.body(callee) is not None:
                        # too deep: assume the callee may read everything it is given
                        for a in args:
                            if a[0] == "ref" and a[1] and a[1][0][0] == "A":
                                p = strip_content(a[1])
                                if not is_killed(killed, p):
                                    res.setdefault(p[0][1], set()).add(p)
                        continue
                    if sub:
                        for j, a in enumerate(args):
                            if a[0] == "ref" and a[1] and a[1][0][0] == "A":
                                base = strip_content(a[1])
                                for q in sub.get(j + 1, ()):
                                    p = base + q[1:]
                                    if not is_killed(killed, p):
                                        res.setdefault(p[0][1], set()).add(p)
                        # kills performed by the callee (all return paths)
                        pfs = self.eff.paths(callee, depth + 1)
                        if pfs:
                            for j, a in enumerate(args):
                                if a[0] != "ref" or not a[1] or a[1][0][0] != "A":
                                    continue
                                base = strip_content(a[1])
                                root = (("A", j + 1),)
                                ks = None
                                for pf in pfs:
                                    if pf.kind != "return":
                                        continue
                                    k = {q for q in pf.killed if q[:1] == root}
                                    ks = k if ks is None else ks & k
                                for q in ks or ():
                                    killed.add(base + q[1:])
        self.memo[fn] = res
        return res


def m_len_read(interp, st, t, args, bb):
    # len()/is_empty() of a container: a read of its shape only
    if args and args[0][0] == "ref" and args[0][1] and args[0][1][0][0] == "A" and interp.log_reads:
        s2 = st.fork()
        s2.trace = s2.trace + (("read", bb, strip_content(args[0][1]) + (("f", "<len>"),)),)
        return [(s2, absint.SYM("ret:%d" % bb))]
    return None


MODELS_WITH_READS = dict(EXTRA_MODELS)
MODELS_WITH_READS.update({"alloc::vec::Vec::len": m_len_read, "[T]::len": m_len_read})
