"""E4: normalised linear (polynomial) forms of abstract integer values.

A form is a dict {monomial: coeff}; a monomial is a sorted tuple of atom strings (() = constant).
Atoms: input symbols (memory reads named by access path, call results expanded to
`callee(args)`), function atoms for min/max/saturating_sub etc.  Forms are only *compared*.
"""
from . import absint

TRANSPARENT_CALLS = (
    "::From<u8>>::from", "::From<u16>>::from", "::From<u32>>::from", "::From<i16>>::from", "::From<i8>>::from",
    "::From<bool>>::from", "::Into<", "::into", "::TryFrom<", "::try_from", "::TryInto<", "::try_into",
    "core::convert::From::from", "core::convert::Into::into",
)

FUNC_ATOMS = {
    "core::cmp::Ord::min": "min", "core::cmp::Ord::max": "max", "::Ord>::min": "min", "::Ord>::max": "max",
    "core::cmp::min": "min", "core::cmp::max": "max",
    "saturating_sub": "satsub", "saturating_add": "satadd", "::pow": "pow",
}


def const(n):
    return {(): n} if n else {}


def atom(name):
    return {(name,): 1}


def add(a, b, sign=1):
    out = dict(a)
    for m, c in b.items():
        out[m] = out.get(m, 0) + sign * c
        if out[m] == 0:
            del out[m]
    return out


def mul(a, b):
    out = {}
    for m1, c1 in a.items():
        for m2, c2 in b.items():
            m = tuple(sorted(m1 + m2))
            out[m] = out.get(m, 0) + c1 * c2
            if out[m] == 0:
                del out[m]
    return out


def show(f):
    if not f:
        return "0"
    parts = []
    for m, c in sorted(f.items(), key=lambda kv: (len(kv[0]), kv[0])):
        if not m:
            parts.append(str(c))
        else:
            parts.append(("" if c == 1 else "-" if c == -1 else "%d*" % c) + "*".join(m))
    return " + ".join(parts).replace("+ -", "- ")


def is_const_form(f):
    return all(m == () for m in f)


class Normalizer:
    def __init__(self, interp, outcome=None, rename=None):
        self.it = interp
        self.o = outcome
        self.rename = rename or (lambda s: s)
        # call arguments are path specific: take them from this path's own trace (last call per block),
        # the interpreter-wide table is only a fallback for symbols created before this path started
        self.ret_info = dict(interp.ret_info)
        if outcome is not None:
            for e in outcome.trace:
                if e[0] == "call":
                    self.ret_info["ret:%d" % e[1]] = (e[2], e[3])

    def A(self, name):
        return {(self.rename(name),): 1}

    def path_atom(self, p):
        # expand call-result roots:  *{ret:23}  ->  *{callee(args)}
        if p and p[0][0] == "S" and isinstance(p[0][1], str):
            name = p[0][1]
            base = name[2:] if name.startswith("m:") else name
            base = self._unwrap_name(base)
            for k, (callee, args) in self.ret_info.items():
                if base == k or base.startswith(k + "@") or base.startswith(k + "."):
                    return "*{%s%s}%s" % (self.call_atom(callee, args), base[len(k):], absint.pstr(p[1:]))
        return self.rename(absint.pstr(p))

    def _unwrap_name(self, name):
        """tryok:<bb><suffix> / unwrap:<bb><suffix>  ->  <source symbol>@Ok.0<suffix>"""
        import re
        m = re.match(r"(tryok|unwrap):(\d+)(.*)$", name)
        if m and hasattr(self.it, "unwrap_src"):
            src = self.it.unwrap_src.get("%s:%s" % (m.group(1), m.group(2)))
            if src is not None and src[0] == "sym":
                return "%s@Ok.0%s" % (src[1], m.group(3))
        return name

    def _payload_of(self, v):
        """Ok/Some payload of a Result/Option valued symbol (for map_err / ok_or chains)"""
        if self.o is not None:
            v = self.it.resolve(self.o, v)
        if v[0] == "var" and v[3] is not None and len(v[3]) == 2 and v[3][0] == "symp":
            return ("sym", "%s@Ok.0" % v[3][1])
        if v[0] == "var" and v[3]:
            return v[3][0]
        if v[0] == "sym":
            return ("sym", v[1] + "@Ok.0")
        return v

    def value_atom(self, v):
        """string atom for a non-arithmetic value"""
        v0 = v
        if v[0] == "sym":
            v = ("sym", self._unwrap_name(v[1]))
        if self.o is not None:
            v = self.it.resolve(self.o, v)
        if v[0] == "i":
            return str(v[1])
        if v[0] == "ref":
            return "&" + self.path_atom(v[1])
        if v[0] == "sym":
            name = v[1]
            if name in self.ret_info:
                callee, args = self.ret_info[name]
                return self.call_atom(callee, args)
            # payload / projection of a call result:  ret:7@Some.0.0
            for k in self.ret_info:
                if name.startswith(k + "@") or name.startswith(k + "."):
                    callee, args = self.ret_info[k]
                    return self.call_atom(callee, args) + name[len(k):]
            if name.startswith("m:"):
                name = name[2:]
            # memory reads through call results:  *{ret:5@Some.0}.0  ->  *{callee(args)@Some.0}.0
            import re as _re

            def _exp(m):
                k = m.group(1)
                if k in self.ret_info:
                    callee, args = self.ret_info[k]
                    return self.call_atom(callee, args)
                return k
            if "ret:" in name and not getattr(self, "_expanding", False):
                self._expanding = True
                try:
                    name = _re.sub(r"(ret:\d+)", _exp, name)
                finally:
                    self._expanding = False
            return self.rename(name)
        if v[0] == "var":
            return "%s::%s" % (v[1].split("::")[-1], v[2])
        if v[0] == "expr":
            return "(" + show(self.form(v)) + ")"
        return str(v)

    def call_atom(self, callee, args):
        short = callee or "?"
        return "%s(%s)" % (short, ", ".join(self.value_atom(a) for a in args))

    def form(self, v):
        if self.o is not None:
            v = self.it.resolve(self.o, v)
        k = v[0]
        if k == "i":
            return const(v[1])
        if k == "expr":
            op, a, b = v[1], v[2], v[3]
            fa, fb = self.form(a), self.form(b)
            if op == "Add":
                return add(fa, fb)
            if op == "Sub":
                return add(fa, fb, -1)
            if op == "Mul":
                return mul(fa, fb)
            if op == "Shl" and is_const_form(fa) and fa.get((), 0) == 1:
                return self.A("(1<<%s)" % show(fb))
            return self.A("%s(%s, %s)" % (op, show(fa), show(fb)))
        if k == "sym":
            name = self._unwrap_name(v[1])
            v = ("sym", name)
            import re as _re
            mm = _re.match(r"(ret:\d+)@(Ok|Some)\.0$", name)
            if mm and mm.group(1) in self.ret_info:
                callee, args = self.ret_info[mm.group(1)]
                if callee and len(args) == 1 and any(callee.endswith(x) or x in callee for x in TRANSPARENT_CALLS):
                    return self.form(args[0])
                if callee and (callee.endswith("Result::map_err") or callee.endswith("Option::ok_or_else") or callee.endswith("Option::ok_or")):
                    return self.form(("sym", self._unwrap_name("unwrap:0")) if False else self._payload_of(args[0]))
            info = self.ret_info.get(name)
            if info:
                callee, args = info
                if callee:
                    if any(callee.endswith(x) or x in callee for x in TRANSPARENT_CALLS) and len(args) == 1:
                        return self.form(args[0])
                    if callee.endswith("Result::map_err") or callee.endswith("Option::ok_or_else") or callee.endswith("Option::ok_or"):
                        return self.form(args[0])
                    for pat, fa in FUNC_ATOMS.items():
                        if callee.endswith(pat):
                            if fa == "satsub" and getattr(self, "linear_satsub", False) and len(args) == 2:
                                # saturating difference, keyed by the (linear) difference itself: satsub(a + 1, b) == satsub(a, b - 1)
                                return self.A("satdiff(%s)" % show(add(self.form(args[0]), self.form(args[1]), -1)))
                            shown = [show(self.form(a)) for a in args]
                            if fa in ("min", "max"):
                                shown.sort()    # commutative
                            return self.A("%s(%s)" % (fa, ", ".join(shown)))
                return self.A(self.call_atom(callee, args))
            # unwrap of a transparent try_from etc.
            if name.startswith("unwrap:") or name.startswith("tryok:"):
                src = self.it.unwrap_src.get(name) if hasattr(self.it, "unwrap_src") else None
                if src is not None:
                    return self.form(src)
            return self.A(self.value_atom(v))
        return self.A(self.value_atom(v))


def equal(f1, f2):
    return f1 == f2


def resort(s):
    """re-sort the arguments of min(..)/max(..) in a shown form after atoms were renamed (the order chosen by
    Normalizer.form is the order of the un-renamed atoms)"""
    out, i = [], 0
    while i < len(s):
        if s.startswith(("min(", "max("), i) and (i == 0 or not (s[i - 1].isalnum() or s[i - 1] in "_:")):
            depth, j = 0, i + 3
            args, start = [], i + 4
            while j < len(s):
                c = s[j]
                if c in "([{":
                    depth += 1
                elif c in ")]}":
                    depth -= 1
                    if depth == 0:
                        args.append(s[start:j])
                        break
                elif c == "," and depth == 1 and s[j + 1:j + 2] == " ":
                    args.append(s[start:j])
                    start = j + 2
                j += 1
            else:
                out.append(s[i:])
                break
            out.append(s[i:i + 4] + ", ".join(sorted(resort(a) for a in args)) + ")")
            i = j + 1
        else:
            out.append(s[i])
            i += 1
    return "".join(out)
