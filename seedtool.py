#!/usr/bin/env python3
"""Seeded-change bookkeeping (not registered in MANIFEST).

  seedtool.py confirm <worktree> <seed-id> <property> [--features F]   re-runs, in the scratch worktree, the demonstration without and with
                                              the change and the whole suite with the change; on success stores
                                              /verif/seeded/<seed-id>/{patch.diff, demo file, meta.json}
  seedtool.py detect [<seed-id> ...] [--tier quick|thorough] [--all-props]
                                              applies each stored patch to /repo (git apply), runs the property's check
                                              (or all 20), prints what was reported, and undoes the patch (git checkout)
"""
import json
import os
import shutil
import subprocess
import sys
import time

HERE = os.path.dirname(os.path.abspath(__file__))
SEEDED = os.path.join(HERE, "seeded")
REPO = os.environ.get("VP_REPO", "/repo")


def sh(cmd, cwd=None, timeout=3600):
    env = dict(os.environ, CARGO_NET_OFFLINE="true")
    p = subprocess.run(cmd, shell=True, cwd=cwd, env=env, stdout=subprocess.PIPE, stderr=subprocess.STDOUT, text=True, timeout=timeout)
    return p.returncode, p.stdout


def confirm(wt, sid, prop, features="", pkg="vaporetto", extra_cmd=None):
    out = os.path.join(wt, "OUT")
    meta = json.load(open(os.path.join(out, "meta.json")))
    demo = [f for f in os.listdir(out) if f.endswith(".rs")]
    scripts = [f for f in os.listdir(out) if f.endswith(".sh")]
    if not demo and scripts:
        extra_cmd = extra_cmd or "CARGO_TARGET_DIR=<wt>/target bash OUT/%s" % scripts[0]
    assert demo or scripts, "no demo .rs / .sh file"
    sh("git checkout -- . && git clean -fdq -e OUT -e target", cwd=wt)
    rc, o = sh("git apply --check OUT/patch.diff", cwd=wt)
    assert rc == 0, "patch does not apply: " + o
    tdir = os.path.join(wt, pkg, "tests")
    os.makedirs(tdir, exist_ok=True)
    for d in demo:
        shutil.copy(os.path.join(out, d), os.path.join(tdir, d))
    name = demo[0][:-3] if demo else "none"
    feat = ("--features " + features) if features else ""
    cmd = "CARGO_TARGET_DIR=%s/target cargo test -p %s %s --test %s --offline" % (wt, pkg, feat, name)
    if extra_cmd:
        cmd = extra_cmd.replace("<wt>", wt)
    rc0, o0 = sh(cmd, cwd=wt)
    sh("git apply OUT/patch.diff", cwd=wt)
    rc1, o1 = sh(cmd, cwd=wt)
    # whole suite with the change, demo removed
    for d in demo:
        os.remove(os.path.join(tdir, d))
    rc2, o2 = sh("CARGO_TARGET_DIR=%s/target cargo test --workspace --no-fail-fast --offline" % wt, cwd=wt)
    sh("git checkout -- . && git clean -fdq -e OUT -e target", cwd=wt)
    res = {"demo_without_patch_passes": rc0 == 0, "demo_with_patch_fails": rc1 != 0, "suite_with_patch_passes": rc2 == 0}
    print(sid, res)
    if not all(res.values()):
        print("NOT CONFIRMED", (o0[-600:], o1[-600:], o2[-600:]))
        return False
    d = os.path.join(SEEDED, sid)
    os.makedirs(d, exist_ok=True)
    shutil.copy(os.path.join(out, "patch.diff"), os.path.join(d, "patch.diff"))
    for f in demo + scripts:
        shutil.copy(os.path.join(out, f), os.path.join(d, f))
    fails = [l for l in o1.splitlines() if "panicked" in l or "FAIL" in l or "assertion" in l][:6]
    json.dump({
        "id": sid, "property": prop,
        "summary": meta.get("summary"), "needs_to_manifest": meta.get("needs"),
        "author": "independent sub-agent given only the property text and a scratch worktree of /repo",
        "base_commit": subprocess.check_output(["git", "-C", wt, "rev-parse", "HEAD"], text=True).strip(),
        "confirmed_by_me": {
            "worktree": "scratch git worktree of /repo (removed afterwards)",
            "demo_cmd": "copy the demo to %s/tests/ ; " % pkg + cmd.replace(wt, "<worktree>"),
            "demo_without_change": "passes", "demo_with_change": "fails: " + " | ".join(fails)[:600],
            "suite_with_change": "cargo test --workspace --no-fail-fast --offline: passes",
            "date": time.strftime("%Y-%m-%d"),
        },
    }, open(os.path.join(d, "meta.json"), "w"), indent=1, ensure_ascii=False)
    return True


def detect(ids, tier="quick", all_props=False):
    st = subprocess.run(["git", "-C", REPO, "status", "--porcelain"], capture_output=True, text=True).stdout.strip()
    if st:
        print("refusing: /repo is not clean")
        sys.exit(2)
    ids = ids or sorted(os.listdir(SEEDED))
    summary = {}
    for sid in ids:
        d = os.path.join(SEEDED, sid)
        meta = json.load(open(os.path.join(d, "meta.json")))
        props = [meta["property"]]
        if all_props:
            props = [c["property_id"] for c in json.load(open(os.path.join(HERE, "MANIFEST.json")))["checks"]]
        rc, o = sh("git -C %s apply %s" % (REPO, os.path.join(d, "patch.diff")))
        if rc != 0:
            print(sid, "PATCH DOES NOT APPLY", o[-300:])
            continue
        try:
            found = {}
            for p in props:
                rc, o = sh("%s/vcheck %s --tier %s" % (HERE, p, tier), cwd=HERE)
                keys = [l.split("instance ")[1].strip() for l in o.splitlines() if "instance " in l]
                if rc != 0:
                    found[p] = keys
            summary[sid] = found
            print("%-14s %s -> %s" % (sid, meta["property"], {k: v[:4] for k, v in found.items()} if found else "MISSED"))
        finally:
            sh("git -C %s checkout -- ." % REPO)
    return summary


if __name__ == "__main__":
    a = sys.argv[1:]
    if a and a[0] == "confirm":
        feats = ""
        pkg = "vaporetto"
        extra = None
        if "--features" in a:
            feats = a[a.index("--features") + 1]
        if "--pkg" in a:
            pkg = a[a.index("--pkg") + 1]
        if "--cmd" in a:
            extra = a[a.index("--cmd") + 1]
        ok = confirm(a[1], a[2], a[3], feats, pkg, extra)
        sys.exit(0 if ok else 1)
    elif a and a[0] == "detect":
        tier = "quick"
        if "--tier" in a:
            tier = a[a.index("--tier") + 1]
        ids = [x for x in a[1:] if not x.startswith("--") and x not in ("quick", "thorough")]
        detect(ids, tier, "--all-props" in a)
    else:
        print(__doc__)
