// vpx: fact exporter for the vaporetto static checks.
//
// A rustc_private driver used as RUSTC_WORKSPACE_WRAPPER under `cargo +nightly check`.
// For every workspace crate it is invoked on, it writes one JSON file with
//   * items  (ADTs, consts, impls, fns) and
//   * the MIR body of every local fn / method / closure (+ promoted bodies)
// to $VPX_OUT/<crate>-<kind>-<id>.json.  Nothing is decided here; the rules live in
// /verif/vplib (Python).  One write per process.
#![feature(rustc_private)]
#![feature(box_patterns)]
#![allow(clippy::all)]

extern crate rustc_abi;
extern crate rustc_data_structures;
extern crate rustc_driver;
extern crate rustc_hir;
extern crate rustc_interface;
extern crate rustc_middle;
extern crate rustc_session;
extern crate rustc_span;

use std::collections::{HashMap, HashSet};
use std::fmt::Write as _;

use rustc_driver::Compilation;
use rustc_hir::def::DefKind;
use rustc_hir::def_id::{DefId, LocalDefId, LOCAL_CRATE};
use rustc_interface::interface::Compiler;
use rustc_middle::mir::{
    self, AggregateKind, BasicBlockData, Body, CastKind, Const as MirConst, ConstValue, Operand,
    Place, ProjectionElem, Rvalue, StatementKind, TerminatorKind,
};
use rustc_middle::ty::{self, GenericArgsRef, Ty, TyCtxt, TypingEnv};
use rustc_span::Span;

// ---------------------------------------------------------------------------------------------
// tiny JSON
// ---------------------------------------------------------------------------------------------

#[derive(Clone)]
enum J {
    Null,
    Bool(bool),
    Int(i128),
    Str(String),
    Arr(Vec<J>),
    Obj(Vec<(&'static str, J)>),
}

fn s<T: Into<String>>(x: T) -> J {
    J::Str(x.into())
}

fn esc(out: &mut String, st: &str) {
    out.push('"');
    for c in st.chars() {
        match c {
            '"' => out.push_str("\\\""),
            '\\' => out.push_str("\\\\"),
            '\n' => out.push_str("\\n"),
            '\r' => out.push_str("\\r"),
            '\t' => out.push_str("\\t"),
            c if (c as u32) < 0x20 => {
                let _ = write!(out, "\\u{:04x}", c as u32);
            }
            c => out.push(c),
        }
    }
    out.push('"');
}

impl J {
    fn write(&self, out: &mut String) {
        match self {
            J::Null => out.push_str("null"),
            J::Bool(b) => out.push_str(if *b { "true" } else { "false" }),
            J::Int(i) => {
                let _ = write!(out, "{}", i);
            }
            J::Str(st) => esc(out, st),
            J::Arr(v) => {
                out.push('[');
                for (i, x) in v.iter().enumerate() {
                    if i != 0 {
                        out.push(',');
                    }
                    x.write(out);
                }
                out.push(']');
            }
            J::Obj(v) => {
                out.push('{');
                for (i, (k, x)) in v.iter().enumerate() {
                    if i != 0 {
                        out.push(',');
                    }
                    esc(out, k);
                    out.push(':');
                    x.write(out);
                }
                out.push('}');
            }
        }
    }
}

// ---------------------------------------------------------------------------------------------
// naming
// ---------------------------------------------------------------------------------------------

struct Cx<'tcx> {
    tcx: TyCtxt<'tcx>,
    cell_memo: HashMap<Ty<'tcx>, Option<String>>,
}

fn crate_name(tcx: TyCtxt<'_>, did: DefId) -> String {
    tcx.crate_name(did.krate).to_string()
}

/// `crate::mod::Item` without generic arguments.
fn plain_path(tcx: TyCtxt<'_>, did: DefId) -> String {
    let dp = tcx.def_path(did);
    let mut out = crate_name(tcx, did);
    for d in dp.data.iter() {
        out.push_str("::");
        let _ = write!(out, "{}", d.as_sym(true));
    }
    out
}

fn ty_str<'tcx>(ty: Ty<'tcx>) -> String {
    ty::print::with_no_trimmed_paths!(format!("{}", ty))
}

fn self_ty_name<'tcx>(tcx: TyCtxt<'tcx>, ty: Ty<'tcx>) -> String {
    match ty.kind() {
        ty::Adt(adt, _) => plain_path(tcx, adt.did()),
        _ => ty_str(ty),
    }
}

/// Readable, stable name of a function-like item:
///   inherent method:  crate::mod::Type::name
///   trait impl:       <crate::mod::Type as trait::Path>::name
///   closure:          <parent>::{closure#n}
///   other:            crate::mod::name
fn nice_path(tcx: TyCtxt<'_>, did: DefId) -> String {
    let kind = tcx.def_kind(did);
    match kind {
        DefKind::Closure | DefKind::InlineConst | DefKind::AnonConst => {
            let parent = tcx.parent(did);
            let dp = tcx.def_path(did);
            let last = dp.data.last().map(|d| d.as_sym(true).to_string()).unwrap_or_default();
            return format!("{}::{}", nice_path(tcx, parent), last);
        }
        _ => {}
    }
    if let Some(parent) = tcx.opt_parent(did) {
        if matches!(tcx.def_kind(parent), DefKind::Impl { .. }) {
            let self_ty = tcx.type_of(parent).instantiate_identity().skip_norm_wip();
            let name = tcx.item_name(did);
            let sname = self_ty_name(tcx, self_ty);
            if let Some(tr) = tcx.impl_opt_trait_ref(parent) {
                let tr = tr.instantiate_identity().skip_norm_wip();
                let extra: Vec<String> = tr.args.iter().skip(1).filter_map(|a| a.as_type()).map(|t| self_ty_name(tcx, t)).collect();
                let targs = if extra.is_empty() { String::new() } else { format!("<{}>", extra.join(",")) };
                return format!("<{} as {}{}>::{}", sname, plain_path(tcx, tr.def_id), targs, name);
            }
            return format!("{}::{}", sname, name);
        }
    }
    plain_path(tcx, did)
}

fn span_str(tcx: TyCtxt<'_>, sp: Span) -> String {
    let sm = tcx.sess.source_map();
    let sp = sp.source_callsite();
    let lo = sm.lookup_char_pos(sp.lo());
    let name = match &lo.file.name {
        rustc_span::FileName::Real(r) => match r.local_path() {
            Some(p) => p.display().to_string(),
            None => format!("{:?}", r),
        },
        other => format!("{:?}", other),
    };
    format!("{}:{}", name, lo.line)
}

// ---------------------------------------------------------------------------------------------
// constants
// ---------------------------------------------------------------------------------------------

fn scalar_json<'tcx>(tcx: TyCtxt<'tcx>, si: ty::ScalarInt, ty: Ty<'tcx>) -> J {
    let size = si.size();
    match ty.kind() {
        ty::Bool => J::Obj(vec![("bool", J::Bool(si.to_uint(size) != 0))]),
        ty::Char => {
            let v = si.to_uint(size) as u32;
            J::Obj(vec![
                ("char", J::Int(v as i128)),
                ("repr", s(char::from_u32(v).map(|c| c.to_string()).unwrap_or_default())),
            ])
        }
        ty::Int(_) => J::Obj(vec![("int", J::Int(si.to_int(size))), ("ty", s(ty_str(ty)))]),
        ty::Uint(_) => J::Obj(vec![("int", J::Int(si.to_uint(size) as i128)), ("ty", s(ty_str(ty)))]),
        ty::Float(_) => J::Obj(vec![("float_bits", J::Int(si.to_uint(size) as i128)), ("ty", s(ty_str(ty)))]),
        ty::Adt(adt, _) if adt.is_enum() => {
            let raw = si.to_uint(size);
            let mut name = None;
            for (vi, d) in adt.discriminants(tcx) {
                let mask = if size.bits() >= 128 { u128::MAX } else { (1u128 << size.bits()) - 1 };
                if d.val & mask == raw {
                    name = Some(adt.variant(vi).name.to_string());
                }
            }
            J::Obj(vec![
                ("variant", name.map(s).unwrap_or(J::Null)),
                ("of", s(plain_path(tcx, adt.did()))),
                ("raw", J::Int(raw as i128)),
            ])
        }
        _ => J::Obj(vec![("scalar", J::Int(si.to_uint(size) as i128)), ("ty", s(ty_str(ty)))]),
    }
}

fn fn_def_json<'tcx>(tcx: TyCtxt<'tcx>, did: DefId, args: GenericArgsRef<'tcx>) -> J {
    J::Obj(vec![
        ("fn", s(nice_path(tcx, did))),
        ("args", s(ty::print::with_no_trimmed_paths!(format!("{:?}", args)))),
    ])
}

fn constval_json<'tcx>(tcx: TyCtxt<'tcx>, _c: MirConst<'tcx>, val: ConstValue, ty: Ty<'tcx>) -> J {
    match val {
        ConstValue::Scalar(mir::interpret::Scalar::Int(si)) => scalar_json(tcx, si, ty),
        ConstValue::Scalar(_) => {
            let repr = ty::print::with_no_trimmed_paths!(format!("{}", MirConst::Val(val, ty)));
            J::Obj(vec![("opaque", s("indirect")), ("ty", s(ty_str(ty))), ("repr", s(repr))])
        }
        ConstValue::ZeroSized => match ty.kind() {
            ty::FnDef(did, args) => fn_def_json(tcx, *did, args),
            _ => J::Obj(vec![("zst", s(ty_str(ty)))]),
        },
        ConstValue::Slice { .. } => {
            if let Some(bytes) = val.try_get_slice_bytes_for_diagnostics(tcx) {
                let is_str = matches!(ty.kind(), ty::Ref(_, inner, _) if inner.is_str());
                if is_str {
                    J::Obj(vec![("str", s(String::from_utf8_lossy(bytes).to_string()))])
                } else {
                    J::Obj(vec![("bytes", J::Arr(bytes.iter().map(|b| J::Int(*b as i128)).collect()))])
                }
            } else {
                J::Obj(vec![("opaque", s("slice")), ("ty", s(ty_str(ty)))])
            }
        }
        ConstValue::Indirect { .. } => {
            // byte-string / array constants: take the compiler's own pretty-printed value
            let repr = ty::print::with_no_trimmed_paths!(format!("{}", MirConst::Val(val, ty)));
            J::Obj(vec![("opaque", s("indirect")), ("ty", s(ty_str(ty))), ("repr", s(repr))])
        }
    }
}

fn const_json<'tcx>(tcx: TyCtxt<'tcx>, owner: DefId, c: MirConst<'tcx>) -> J {
    match c {
        MirConst::Val(val, ty) => constval_json(tcx, c, val, ty),
        MirConst::Unevaluated(uv, ty) => {
            if let Some(p) = uv.promoted {
                return J::Obj(vec![
                    ("promoted", J::Int(p.as_u32() as i128)),
                    ("def", s(nice_path(tcx, uv.def))),
                    ("ty", s(ty_str(ty))),
                ]);
            }
            let mut fields = vec![("constitem", s(nice_path(tcx, uv.def))), ("ty", s(ty_str(ty)))];
            let env = TypingEnv::post_analysis(tcx, owner);
            if let Ok(val) = c.eval(tcx, env, rustc_span::DUMMY_SP) {
                let evaluated = MirConst::Val(val, ty);
                fields.push(("value", constval_json(tcx, evaluated, val, ty)));
            }
            J::Obj(fields)
        }
        MirConst::Ty(ty, ct) => {
            if let Some(v) = ct.try_to_value() {
                if let Some(si) = v.try_to_leaf() {
                    return scalar_json(tcx, si, ty);
                }
                if let Some(bytes) = v.try_to_raw_bytes(tcx) {
                    let is_str = matches!(ty.kind(), ty::Ref(_, inner, _) if inner.is_str());
                    if is_str {
                        return J::Obj(vec![("str", s(String::from_utf8_lossy(bytes).to_string()))]);
                    }
                    return J::Obj(vec![("bytes", J::Arr(bytes.iter().map(|b| J::Int(*b as i128)).collect()))]);
                }
            }
            J::Obj(vec![("opaque", s("tyconst")), ("ty", s(ty_str(ty)))])
        }
    }
}

// ---------------------------------------------------------------------------------------------
// places / operands / rvalues
// ---------------------------------------------------------------------------------------------

fn place_json<'tcx>(tcx: TyCtxt<'tcx>, body: &Body<'tcx>, place: &Place<'tcx>) -> J {
    let mut proj = vec![];
    for (i, elem) in place.projection.iter().enumerate() {
        let base_ty = Place::ty_from(place.local, &place.projection[..i], &body.local_decls, tcx);
        let j = match elem {
            ProjectionElem::Deref => s("deref"),
            ProjectionElem::Field(f, _) => {
                let mut name = format!("{}", f.as_usize());
                let mut of = String::new();
                match base_ty.ty.kind() {
                    ty::Adt(adt, _) => {
                        let vi = base_ty.variant_index.unwrap_or(rustc_abi::FIRST_VARIANT);
                        let v = adt.variant(vi);
                        if let Some(fd) = v.fields.get(f) {
                            name = fd.name.to_string();
                        }
                        of = plain_path(tcx, adt.did());
                        if adt.is_enum() {
                            of = format!("{}::{}", of, v.name);
                        }
                    }
                    ty::Closure(..) => {
                        of = "closure".to_string();
                    }
                    ty::Tuple(..) => {
                        of = "tuple".to_string();
                    }
                    _ => {}
                }
                J::Obj(vec![("field", s(name)), ("of", s(of)), ("idx", J::Int(f.as_usize() as i128))])
            }
            ProjectionElem::Index(l) => J::Obj(vec![("index", J::Int(l.as_usize() as i128))]),
            ProjectionElem::ConstantIndex { offset, min_length, from_end } => J::Obj(vec![
                ("constidx", J::Int(offset as i128)),
                ("min_length", J::Int(min_length as i128)),
                ("from_end", J::Bool(from_end)),
            ]),
            ProjectionElem::Subslice { from, to, from_end } => J::Obj(vec![
                ("subslice_from", J::Int(from as i128)),
                ("to", J::Int(to as i128)),
                ("from_end", J::Bool(from_end)),
            ]),
            ProjectionElem::Downcast(name, vi) => J::Obj(vec![
                ("downcast", name.map(|n| s(n.to_string())).unwrap_or(J::Null)),
                ("vidx", J::Int(vi.as_usize() as i128)),
            ]),
            ProjectionElem::OpaqueCast(_) => s("opaquecast"),
            ProjectionElem::UnwrapUnsafeBinder(_) => s("unwrapbinder"),
        };
        proj.push(j);
    }
    J::Obj(vec![("local", J::Int(place.local.as_usize() as i128)), ("proj", J::Arr(proj))])
}

fn operand_json<'tcx>(tcx: TyCtxt<'tcx>, owner: DefId, body: &Body<'tcx>, op: &Operand<'tcx>) -> J {
    match op {
        Operand::Copy(p) => J::Obj(vec![("copy", place_json(tcx, body, p))]),
        Operand::Move(p) => J::Obj(vec![("move", place_json(tcx, body, p))]),
        Operand::Constant(c) => J::Obj(vec![("const", const_json(tcx, owner, c.const_))]),
        #[allow(unreachable_patterns)]
        _ => J::Obj(vec![("otherop", s(format!("{:?}", op)))]),
    }
}

fn ty_kind<'tcx>(ty: Ty<'tcx>) -> &'static str {
    match ty.kind() {
        ty::Bool => "bool",
        ty::Char => "char",
        ty::Int(_) => "int",
        ty::Uint(_) => "uint",
        ty::Float(_) => "float",
        ty::Adt(..) => "adt",
        ty::Ref(_, _, m) => if m.is_mut() { "refmut" } else { "ref" },
        ty::RawPtr(..) => "ptr",
        ty::Slice(_) => "slice",
        ty::Array(..) => "array",
        ty::Str => "str",
        ty::Tuple(t) => if t.is_empty() { "unit" } else { "tuple" },
        ty::Closure(..) => "closure",
        ty::FnDef(..) => "fndef",
        ty::Never => "never",
        _ => "other",
    }
}

fn adt_of<'tcx>(tcx: TyCtxt<'tcx>, ty: Ty<'tcx>) -> J {
    let mut t = ty;
    loop {
        match t.kind() {
            ty::Ref(_, inner, _) => t = *inner,
            ty::RawPtr(inner, _) => t = *inner,
            ty::Adt(adt, _) => return s(plain_path(tcx, adt.did())),
            _ => return J::Null,
        }
    }
}

fn rvalue_json<'tcx>(tcx: TyCtxt<'tcx>, owner: DefId, body: &Body<'tcx>, rv: &Rvalue<'tcx>) -> J {
    let op = |o: &Operand<'tcx>| operand_json(tcx, owner, body, o);
    match rv {
        Rvalue::Use(o, ..) => J::Obj(vec![("k", s("use")), ("a", op(o))]),
        Rvalue::Repeat(o, n) => J::Obj(vec![
            ("k", s("repeat")),
            ("a", op(o)),
            ("n", s(ty::print::with_no_trimmed_paths!(format!("{}", n)))),
        ]),
        Rvalue::Ref(_, bk, p) => J::Obj(vec![
            ("k", s("ref")),
            ("mut", J::Bool(matches!(bk, mir::BorrowKind::Mut { .. }))),
            ("place", place_json(tcx, body, p)),
        ]),
        Rvalue::RawPtr(kind, p) => J::Obj(vec![
            ("k", s("rawptr")),
            ("mut", J::Bool(format!("{:?}", kind).contains("Mut"))),
            ("place", place_json(tcx, body, p)),
        ]),
        Rvalue::Cast(kind, o, ty) => {
            let kn = match kind {
                CastKind::IntToInt => "IntToInt".to_string(),
                CastKind::Transmute => "Transmute".to_string(),
                other => format!("{:?}", other),
            };
            J::Obj(vec![("k", s("cast")), ("kind", s(kn)), ("a", op(o)), ("ty", s(ty_str(*ty)))])
        }
        Rvalue::BinaryOp(bop, box (a, b)) => J::Obj(vec![
            ("k", s("bin")),
            ("op", s(format!("{:?}", bop))),
            ("a", op(a)),
            ("b", op(b)),
        ]),
        Rvalue::UnaryOp(uop, a) => J::Obj(vec![("k", s("un")), ("op", s(format!("{:?}", uop))), ("a", op(a))]),
        Rvalue::Discriminant(p) => {
            let pty = p.ty(&body.local_decls, tcx).ty;
            J::Obj(vec![("k", s("discr")), ("place", place_json(tcx, body, p)), ("adt", adt_of(tcx, pty)), ("ty", s(ty_str(pty)))])
        }
        Rvalue::Aggregate(box kind, fields) => {
            let fs: Vec<J> = fields.iter().map(|f| op(f)).collect();
            match kind {
                AggregateKind::Adt(did, vi, _args, _, _) => {
                    let adt = tcx.adt_def(*did);
                    let v = adt.variant(*vi);
                    let names: Vec<J> = v.fields.iter().map(|f| s(f.name.to_string())).collect();
                    J::Obj(vec![
                        ("k", s("aggr")),
                        ("adt", s(plain_path(tcx, *did))),
                        ("variant", s(v.name.to_string())),
                        ("is_enum", J::Bool(adt.is_enum())),
                        ("names", J::Arr(names)),
                        ("fields", J::Arr(fs)),
                    ])
                }
                AggregateKind::Tuple => J::Obj(vec![("k", s("tuple")), ("fields", J::Arr(fs))]),
                AggregateKind::Array(_) => J::Obj(vec![("k", s("array")), ("fields", J::Arr(fs))]),
                AggregateKind::Closure(did, _) => J::Obj(vec![
                    ("k", s("closure")),
                    ("fn", s(nice_path(tcx, *did))),
                    ("fields", J::Arr(fs)),
                ]),
                other => J::Obj(vec![("k", s("aggr_other")), ("dbg", s(format!("{:?}", other))), ("fields", J::Arr(fs))]),
            }
        }
        Rvalue::CopyForDeref(p) => J::Obj(vec![("k", s("use")), ("a", J::Obj(vec![("copy", place_json(tcx, body, p))]))]),
        Rvalue::ThreadLocalRef(did) => J::Obj(vec![("k", s("tls")), ("def", s(plain_path(tcx, *did)))]),
        other => J::Obj(vec![("k", s("other")), ("dbg", s(format!("{:?}", other)))]),
    }
}

// ---------------------------------------------------------------------------------------------
// bodies
// ---------------------------------------------------------------------------------------------

fn callee_json<'tcx>(tcx: TyCtxt<'tcx>, owner: DefId, body: &Body<'tcx>, func: &Operand<'tcx>) -> J {
    if let Some((did, args)) = func.const_fn_def() {
        let mut fields = vec![
            ("path", s(nice_path(tcx, did))),
            ("generic", s(ty::print::with_no_trimmed_paths!(format!("{:?}", args)))),
            ("krate", s(crate_name(tcx, did))),
        ];
        // self type of a trait method = first generic argument
        if let Some(tr) = tcx.trait_of_assoc(did) {
            fields.push(("trait", s(plain_path(tcx, tr))));
            if let Some(st) = args.types().next() {
                fields.push(("self_ty", s(ty_str(st))));
                fields.push(("self_adt", adt_of(tcx, st)));
            }
        }
        let env = TypingEnv::post_analysis(tcx, owner);
        let mut resolved = J::Null;
        let mut unsafe_ = false;
        if matches!(tcx.def_kind(did), DefKind::Fn | DefKind::AssocFn) {
            unsafe_ = tcx.fn_sig(did).skip_binder().safety().is_unsafe();
        }
        if let Ok(Some(inst)) = ty::Instance::try_resolve(tcx, env, did, args) {
            let rdid = inst.def_id();
            resolved = s(nice_path(tcx, rdid));
            if matches!(tcx.def_kind(rdid), DefKind::Fn | DefKind::AssocFn) {
                unsafe_ = unsafe_ || tcx.fn_sig(rdid).skip_binder().safety().is_unsafe();
            }
            fields.push(("resolved_krate", s(crate_name(tcx, rdid))));
        }
        fields.push(("resolved", resolved));
        fields.push(("unsafe", J::Bool(unsafe_)));
        J::Obj(fields)
    } else {
        J::Obj(vec![("indirect", operand_json(tcx, owner, body, func))])
    }
}

fn block_json<'tcx>(tcx: TyCtxt<'tcx>, owner: DefId, body: &Body<'tcx>, bb: usize, data: &BasicBlockData<'tcx>) -> J {
    let mut stmts = vec![];
    for st in data.statements.iter() {
        match &st.kind {
            StatementKind::Assign(box (place, rv)) => {
                stmts.push(J::Obj(vec![
                    ("k", s("assign")),
                    ("place", place_json(tcx, body, place)),
                    ("rv", rvalue_json(tcx, owner, body, rv)),
                    ("span", s(span_str(tcx, st.source_info.span))),
                    ("exp", J::Bool(st.source_info.span.from_expansion())),
                ]));
            }
            StatementKind::SetDiscriminant { place, variant_index } => {
                stmts.push(J::Obj(vec![
                    ("k", s("setdiscr")),
                    ("place", place_json(tcx, body, place)),
                    ("vidx", J::Int(variant_index.as_usize() as i128)),
                ]));
            }
            _ => {}
        }
    }
    let term = data.terminator();
    let sp = s(span_str(tcx, term.source_info.span));
    let exp = J::Bool(term.source_info.span.from_expansion());
    let bbj = |b: mir::BasicBlock| J::Int(b.as_usize() as i128);
    let t = match &term.kind {
        TerminatorKind::Goto { target } => J::Obj(vec![("k", s("goto")), ("target", bbj(*target))]),
        TerminatorKind::SwitchInt { discr, targets } => {
            let mut arms = vec![];
            for (v, t) in targets.iter() {
                arms.push(J::Arr(vec![J::Int(v as i128), bbj(t)]));
            }
            J::Obj(vec![
                ("k", s("switch")),
                ("discr", operand_json(tcx, owner, body, discr)),
                ("arms", J::Arr(arms)),
                ("otherwise", bbj(targets.otherwise())),
                ("span", sp),
            ])
        }
        TerminatorKind::Return => J::Obj(vec![("k", s("return"))]),
        TerminatorKind::Unreachable => J::Obj(vec![("k", s("unreachable"))]),
        TerminatorKind::UnwindResume => J::Obj(vec![("k", s("resume"))]),
        TerminatorKind::UnwindTerminate(_) => J::Obj(vec![("k", s("abort"))]),
        TerminatorKind::Drop { place, target, .. } => J::Obj(vec![
            ("k", s("drop")),
            ("place", place_json(tcx, body, place)),
            ("target", bbj(*target)),
        ]),
        TerminatorKind::Call { func, args, destination, target, .. } => {
            let a: Vec<J> = args.iter().map(|x| operand_json(tcx, owner, body, &x.node)).collect();
            J::Obj(vec![
                ("k", s("call")),
                ("callee", callee_json(tcx, owner, body, func)),
                ("args", J::Arr(a)),
                ("dest", place_json(tcx, body, destination)),
                ("target", target.map(bbj).unwrap_or(J::Null)),
                ("span", sp),
                ("exp", exp),
            ])
        }
        TerminatorKind::Assert { cond, expected, target, msg, .. } => J::Obj(vec![
            ("k", s("assert")),
            ("cond", operand_json(tcx, owner, body, cond)),
            ("expected", J::Bool(*expected)),
            ("target", bbj(*target)),
            ("msg", s(format!("{:?}", msg).chars().take(80).collect::<String>())),
            ("span", sp),
        ]),
        TerminatorKind::FalseEdge { real_target, .. } => J::Obj(vec![("k", s("goto")), ("target", bbj(*real_target))]),
        TerminatorKind::FalseUnwind { real_target, .. } => J::Obj(vec![("k", s("goto")), ("target", bbj(*real_target))]),
        other => J::Obj(vec![("k", s("otherterm")), ("dbg", s(format!("{:?}", other).chars().take(120).collect::<String>()))]),
    };
    J::Obj(vec![
        ("id", J::Int(bb as i128)),
        ("cleanup", J::Bool(data.is_cleanup)),
        ("stmts", J::Arr(stmts)),
        ("term", t),
    ])
}

fn body_json<'tcx>(tcx: TyCtxt<'tcx>, owner: DefId, body: &Body<'tcx>, promoted: Option<usize>) -> J {
    let mut locals = vec![];
    for (l, decl) in body.local_decls.iter_enumerated() {
        locals.push(J::Obj(vec![
            ("id", J::Int(l.as_usize() as i128)),
            ("ty", s(ty_str(decl.ty))),
            ("adt", adt_of(tcx, decl.ty)),
            ("tk", s(ty_kind(decl.ty))),
            ("mut", J::Bool(decl.mutability.is_mut())),
        ]));
    }
    let mut dbg = vec![];
    for v in body.var_debug_info.iter() {
        if let mir::VarDebugInfoContents::Place(p) = &v.value {
            dbg.push(J::Obj(vec![
                ("name", s(v.name.to_string())),
                ("place", place_json(tcx, body, p)),
                ("arg", v.argument_index.map(|a| J::Int(a as i128)).unwrap_or(J::Null)),
            ]));
        }
    }
    let mut blocks = vec![];
    for (bb, data) in body.basic_blocks.iter_enumerated() {
        blocks.push(block_json(tcx, owner, body, bb.as_usize(), data));
    }
    J::Obj(vec![
        ("fn", s(nice_path(tcx, owner))),
        ("promoted", promoted.map(|p| J::Int(p as i128)).unwrap_or(J::Null)),
        ("kind", s(format!("{:?}", tcx.def_kind(owner)))),
        ("span", s(span_str(tcx, body.span))),
        ("arg_count", J::Int(body.arg_count as i128)),
        ("locals", J::Arr(locals)),
        ("debug", J::Arr(dbg)),
        ("blocks", J::Arr(blocks)),
    ])
}

// ---------------------------------------------------------------------------------------------
// deep interior-mutability walk
// ---------------------------------------------------------------------------------------------

impl<'tcx> Cx<'tcx> {
    /// Some(path description) if `ty` can contain an `UnsafeCell` anywhere (through fields, generic
    /// arguments behind raw pointers / PhantomData, boxes, vectors ...).  `is_freeze` is shallow.
    fn deep_cell(&mut self, ty: Ty<'tcx>, depth: usize, seen: &mut HashSet<Ty<'tcx>>) -> Option<String> {
        if let Some(r) = self.cell_memo.get(&ty) {
            return r.clone();
        }
        if depth > 40 || !seen.insert(ty) {
            return None;
        }
        let tcx = self.tcx;
        let r = match ty.kind() {
            ty::Adt(adt, args) => {
                if adt.is_unsafe_cell() {
                    Some(format!("{}", ty_str(ty)))
                } else {
                    let mut found = None;
                    'outer: for v in adt.variants().iter() {
                        for f in v.fields.iter() {
                            let fty = f.ty(tcx, args);
                            if let Some(p) = self.deep_cell(fty, depth + 1, seen) {
                                found = Some(format!("{}.{} -> {}", plain_path(tcx, adt.did()), f.name, p));
                                break 'outer;
                            }
                        }
                    }
                    if found.is_none() {
                        // generic arguments that only occur behind raw pointers / PhantomData
                        for a in args.types() {
                            if let Some(p) = self.deep_cell(a, depth + 1, seen) {
                                found = Some(format!("{}<..> -> {}", plain_path(tcx, adt.did()), p));
                                break;
                            }
                        }
                    }
                    found
                }
            }
            ty::Ref(_, inner, _) | ty::RawPtr(inner, _) | ty::Slice(inner) | ty::Array(inner, _) => {
                self.deep_cell(*inner, depth + 1, seen)
            }
            ty::Tuple(ts) => {
                let mut found = None;
                for t in ts.iter() {
                    if let Some(p) = self.deep_cell(t, depth + 1, seen) {
                        found = Some(p);
                        break;
                    }
                }
                found
            }
            ty::Dynamic(..) => Some(format!("dyn {}", ty_str(ty))),
            ty::Param(_) | ty::Alias(..) => None,
            _ => None,
        };
        self.cell_memo.insert(ty, r.clone());
        r
    }
}

// ---------------------------------------------------------------------------------------------
// items
// ---------------------------------------------------------------------------------------------

fn vis_str(tcx: TyCtxt<'_>, did: DefId) -> String {
    match tcx.visibility(did) {
        ty::Visibility::Public => "pub".to_string(),
        ty::Visibility::Restricted(m) => {
            if m.is_crate_root() {
                "crate".to_string()
            } else {
                format!("restricted:{}", plain_path(tcx, m))
            }
        }
    }
}

fn export_crate<'tcx>(tcx: TyCtxt<'tcx>) -> J {
    let mut cx = Cx { tcx, cell_memo: HashMap::new() };
    let eff = tcx.effective_visibilities(());
    let mut adts = vec![];
    let mut consts = vec![];
    let mut impls = vec![];
    let mut fns = vec![];
    let mut statics = vec![];

    for lid in tcx.hir_crate_items(()).definitions() {
        let did = lid.to_def_id();
        match tcx.def_kind(did) {
            DefKind::Struct | DefKind::Enum | DefKind::Union => {
                let adt = tcx.adt_def(did);
                let ty = tcx.type_of(did).instantiate_identity().skip_norm_wip();
                let args = match ty.kind() {
                    ty::Adt(_, a) => *a,
                    _ => continue,
                };
                let mut variants = vec![];
                let discrs: HashMap<usize, i128> = if adt.is_enum() {
                    adt.discriminants(tcx).map(|(vi, d)| (vi.as_usize(), d.val as i128)).collect()
                } else {
                    HashMap::new()
                };
                for (vi, v) in adt.variants().iter_enumerated() {
                    let mut fields = vec![];
                    for f in v.fields.iter() {
                        let fty = f.ty(tcx, args);
                        fields.push(J::Obj(vec![
                            ("name", s(f.name.to_string())),
                            ("ty", s(ty_str(fty))),
                            ("adt", adt_of(tcx, fty)),
                            ("tk", s(ty_kind(fty))),
                            ("vis", s(vis_str(tcx, f.did))),
                        ]));
                    }
                    variants.push(J::Obj(vec![
                        ("name", s(v.name.to_string())),
                        ("discr", discrs.get(&vi.as_usize()).map(|d| J::Int(*d)).unwrap_or(J::Null)),
                        ("fields", J::Arr(fields)),
                    ]));
                }
                let mut seen = HashSet::new();
                let cell = cx.deep_cell(ty, 0, &mut seen);
                adts.push(J::Obj(vec![
                    ("path", s(plain_path(tcx, did))),
                    ("kind", s(if adt.is_enum() { "enum" } else if adt.is_struct() { "struct" } else { "union" })),
                    ("vis", s(vis_str(tcx, did))),
                    ("reachable", J::Bool(eff.is_reachable(lid))),
                    ("variants", J::Arr(variants)),
                    ("deep_cell", cell.map(s).unwrap_or(J::Null)),
                    ("span", s(span_str(tcx, tcx.def_span(did)))),
                ]));
            }
            DefKind::Const { .. } | DefKind::AssocConst { .. } => {
                let ty = tcx.type_of(did).instantiate_identity().skip_norm_wip();
                let mut fields = vec![("path", s(nice_path(tcx, did))), ("ty", s(ty_str(ty)))];
                if tcx.generics_of(did).is_empty() && !matches!(tcx.def_kind(tcx.parent(did)), DefKind::Trait) {
                    if let Ok(val) = tcx.const_eval_poly(did) {
                        let c = MirConst::Val(val, ty);
                        fields.push(("value", constval_json(tcx, c, val, ty)));
                    }
                }
                consts.push(J::Obj(fields));
            }
            DefKind::Static { .. } => {
                let ty = tcx.type_of(did).instantiate_identity().skip_norm_wip();
                let mut seen = HashSet::new();
                let cell = cx.deep_cell(ty, 0, &mut seen);
                statics.push(J::Obj(vec![
                    ("path", s(plain_path(tcx, did))),
                    ("ty", s(ty_str(ty))),
                    ("mutable", J::Bool(tcx.is_mutable_static(did))),
                    ("deep_cell", cell.map(s).unwrap_or(J::Null)),
                ]));
            }
            DefKind::Impl { .. } => {
                let self_ty = tcx.type_of(did).instantiate_identity().skip_norm_wip();
                let tr = tcx.impl_opt_trait_ref(did).map(|t| t.instantiate_identity().skip_norm_wip());
                let items: Vec<J> = tcx
                    .associated_items(did)
                    .in_definition_order()
                    .map(|it| s(nice_path(tcx, it.def_id)))
                    .collect();
                impls.push(J::Obj(vec![
                    ("trait", tr.map(|t| s(plain_path(tcx, t.def_id))).unwrap_or(J::Null)),
                    ("trait_full", tr.map(|t| s(ty::print::with_no_trimmed_paths!(format!("{:?}", t)))).unwrap_or(J::Null)),
                    ("self_ty", s(ty_str(self_ty))),
                    ("self_adt", adt_of(tcx, self_ty)),
                    ("auto_derived", J::Bool(tcx.is_automatically_derived(did))),
                    ("derive", {
                        let sp = tcx.def_span(did);
                        if sp.from_expansion() {
                            let ed = sp.ctxt().outer_expn_data();
                            match ed.kind {
                                rustc_span::ExpnKind::Macro(rustc_span::MacroKind::Derive, name) => s(name.to_string()),
                                rustc_span::ExpnKind::Macro(_, name) => s(format!("macro:{}", name)),
                                _ => J::Null,
                            }
                        } else {
                            J::Null
                        }
                    }),
                    ("items", J::Arr(items)),
                    ("span", s(span_str(tcx, tcx.def_span(did)))),
                ]));
            }
            DefKind::Fn | DefKind::AssocFn => {
                let sig = tcx.fn_sig(did).instantiate_identity().skip_norm_wip().skip_binder();
                let inputs: Vec<J> = sig.inputs().iter().map(|t| s(ty_str(*t))).collect();
                let names: Vec<J> = tcx
                    .fn_arg_idents(did)
                    .iter()
                    .map(|i| i.map(|i| s(i.name.to_string())).unwrap_or(J::Null))
                    .collect();
                let mut in_trait_impl = false;
                let mut in_trait_decl = false;
                if let Some(p) = tcx.opt_parent(did) {
                    match tcx.def_kind(p) {
                        DefKind::Impl { of_trait } => in_trait_impl = of_trait,
                        DefKind::Trait => in_trait_decl = true,
                        _ => {}
                    }
                }
                fns.push(J::Obj(vec![
                    ("path", s(nice_path(tcx, did))),
                    ("vis", s(vis_str(tcx, did))),
                    ("reachable", J::Bool(eff.is_reachable(lid))),
                    ("unsafe", J::Bool(sig.safety().is_unsafe())),
                    ("inputs", J::Arr(inputs)),
                    ("names", J::Arr(names)),
                    ("output", s(ty_str(sig.output()))),
                    ("output_adt", adt_of(tcx, sig.output())),
                    ("in_trait_impl", J::Bool(in_trait_impl)),
                    ("in_trait_decl", J::Bool(in_trait_decl)),
                    ("span", s(span_str(tcx, tcx.def_span(did)))),
                ]));
            }
            _ => {}
        }
    }

    let mut bodies = vec![];
    let keys: Vec<LocalDefId> = tcx.mir_keys(()).iter().copied().collect();
    for lid in keys {
        let did = lid.to_def_id();
        let kind = tcx.def_kind(did);
        match kind {
            DefKind::Fn | DefKind::AssocFn | DefKind::Closure => {
                let body = tcx.optimized_mir(did);
                bodies.push(body_json(tcx, did, body, None));
                let promoted = tcx.promoted_mir(did);
                for (pi, pb) in promoted.iter_enumerated() {
                    bodies.push(body_json(tcx, did, pb, Some(pi.as_usize())));
                }
            }
            _ => {}
        }
    }

    J::Obj(vec![
        ("crate", s(tcx.crate_name(LOCAL_CRATE).to_string())),
        ("adts", J::Arr(adts)),
        ("consts", J::Arr(consts)),
        ("statics", J::Arr(statics)),
        ("impls", J::Arr(impls)),
        ("fns", J::Arr(fns)),
        ("bodies", J::Arr(bodies)),
    ])
}

// ---------------------------------------------------------------------------------------------
// driver
// ---------------------------------------------------------------------------------------------

struct Cb;

impl rustc_driver::Callbacks for Cb {
    fn after_analysis<'tcx>(&mut self, _c: &Compiler, tcx: TyCtxt<'tcx>) -> Compilation {
        let out_dir = match std::env::var("VPX_OUT") {
            Ok(d) => d,
            Err(_) => return Compilation::Continue,
        };
        let name = tcx.crate_name(LOCAL_CRATE).to_string();
        if name.starts_with("build_script") {
            return Compilation::Continue;
        }
        if tcx.dcx().has_errors().is_some() {
            return Compilation::Continue;
        }
        let j = export_crate(tcx);
        let mut out = String::new();
        j.write(&mut out);
        let kind = if tcx.entry_fn(()).is_some() { "bin" } else { "lib" };
        let id = format!("{:x}", tcx.stable_crate_id(LOCAL_CRATE).as_u64());
        let path = format!("{}/{}-{}-{}.json", out_dir, name, kind, id);
        let tmp = format!("{}.tmp{}", path, std::process::id());
        std::fs::write(&tmp, out).expect("vpx: cannot write facts");
        std::fs::rename(&tmp, &path).expect("vpx: cannot rename facts");
        Compilation::Continue
    }
}

fn main() -> std::process::ExitCode {
    let mut args: Vec<String> = std::env::args().collect();
    // RUSTC_WORKSPACE_WRAPPER: argv = [vpx, <rustc path>, rustc args...]
    if args.len() > 1 && (args[1].ends_with("rustc") || args[1].contains("/rustc")) {
        args.remove(1);
    }
    rustc_driver::install_ice_hook("vpx", |_| ());
    rustc_driver::catch_with_exit_code(|| {
        rustc_driver::run_compiler(&args, &mut Cb);
    })
}
