#!/usr/bin/env python3
"""writes MANIFEST.json from the table below (kept next to the rules so the two cannot drift)"""
import json, os, sys
HERE = os.path.dirname(os.path.abspath(__file__))
sys.path.insert(0, HERE)
import importlib

CLAIMED = {
    # pid: (technique, level text, design ref)
    "C05": ("kill-set dataflow + finite-domain abstract interpretation of MIR",
            "Clause-level static decision: field kill sets per return class, error-path reset, constructor literals, "
            "tags-length/n_tags linear forms, parse-loop totality over a finite abstract state. Decides the necessary "
            "structural conditions of 'consistent sentence after every update, independent of history' on all paths; "
            "numeric index bounds are not decided.", "DESIGN.md §4 C05"),
}
CLAIMED["C02"] = ("finite-domain abstract interpretation of the iterator loop (transition table) + linear forms at the loop-header fixpoint",
    "Complete decision of the per-boundary transition table of the token iterator over (label x skip flag), of the "
    "position forms base+i+1 in the loop-invariant header state, and of the structural facts that the writer goes through "
    "the iterator and that surface/tags slices use (start,end). Value-level concatenation is not decided.", "DESIGN.md §4 C02")
CLAIMED["C01"] = ("finite-domain abstract interpretation (decision table), linear forms, must-call pipeline, iterator/merge pairing table",
    "Complete decision of the threshold clause (score sign -> label, every boundary overwritten, never Unknown) and "
    "structural necessary conditions of the scoring clause: padding/resize/zip forms, bias fill, scorer pipeline and "
    "dispatcher totality, no-suffix iterator <-> suffix-merged weights pairing, add_score position/offset forms. "
    "Numeric equality of the sums is not decided.", "DESIGN.md §4 C01")
CLAIMED["C10"] = ("finite-domain abstract interpretation (label filter table), who-may-write scan, linear forms + twin comparison of the feature loops",
    "Complete decision of the example/label clause (annotated boundary -> exactly one example with its own label, Unknown -> none) "
    "and structural decision of the feature-window forms (ranges, relative positions, substring bounds, dictionary feature "
    "positions/guards/length bucket) incl. char/type twin agreement. The feature multiset as a value is not decided.", "DESIGN.md §4 C10")
CLAIMED["C09"] = ("kind/role flow analysis over linear forms of the MIR (char<->type), twin comparison, dictionary role flow",
    "Decides the necessary structural conditions that each learned weight lands where the predictor reads it: kind purity of the "
    "two n-gram arms (window of its own kind), position/length forms, Model::new/TagTrainer::new/scorer constructor argument "
    "flows, Left/Inside/Right -> first/fill/last, bucket index agreement, bias provenance and shared quantiser. "
    "Numeric equality with liblinear's coefficients is not decided.", "DESIGN.md §4 C09")
CLAIMED["C07"] = ("must-precede/path analysis on MIR (magic before payload, compare before decode), error-discipline analysis, guarded-index analysis, derive-symmetry table",
    "Decides the structural necessary conditions of 'round-trips or is rejected, never panics': magic written first and compared whole "
    "before decoding, a single bincode configuration, derived Encode/Decode on every model type, every fallible call propagated, "
    "every range index on the caller's slice preceded by a length-implying check (or bounded by the decoder's consumed size), "
    "remainder slice form. bincode's own behaviour on truncated payloads is trusted.", "DESIGN.md §4 C07")
CLAIMED["C03"] = ("parser/writer table agreement derived by finite-domain abstract interpretation of both sides",
    "Complete decision of the escape-set agreement between parse_tokenized and write_tokenized_text (surface and tag sites, escape "
    "character, separators) and of the UTF-8 validity clause of the as_mut_vec region; twin agreement of the tag padding tails. "
    "Value-level equality of the re-parsed sentence is not decided.", "DESIGN.md §4 C03")
CLAIMED["C04"] = ("parser/writer table agreement derived by finite-domain abstract interpretation of both sides",
    "Complete decision that every character the partial-annotation parser treats as syntax in annotation context is escaped by every "
    "tag-emitting site of the writer, that the label<->symbol tables are inverse bijections (both writer copies), and that text "
    "characters are literal on both sides. Value-level equality is not decided.", "DESIGN.md §4 C04")
CLAIMED["C20"] = ("event-sequence derivation per loop iteration by abstract interpretation (sibling-branch agreement, typestate), finite decision tables, error-discipline analysis",
    "Complete (over all flag values and both outcomes of update_raw) decision of the per-line output layout of predict in both modes and of the "
    "'tag candidates only after fill_tags on the same sentence' typestate incl. the clap requires wiring; pipeline order per line; complete "
    "decision of evaluate's confusion/Nagata counter tables over all label pairs and of the metric formula trees; no I/O Result unwrapped/ignored. "
    "Byte-level equality with the library output and clap/IO behaviour are not decided.", "DESIGN.md §4 C20")
CLAIMED["C06"] = ("finite-domain abstract interpretation (argmax ordering, candidate-count classes), linear forms, taint from decoded model fields to panicking indexes, kill-before-use of automaton states",
    "Complete decision of the tie-breaking clause (strict >, first index, slice-relative index) and of the score-slot consumption agreement "
    "between predictor, accessor and trainer over the classes {0,1,>=2}; structural decision of state-vector preparation, predict_tags call/slot "
    "forms (twin blocks), sanitisation of model-derived indexes and preparation of the stored tag scores on every path. Numeric sums are not decided.", "DESIGN.md §4 C06")
CLAIMED["C11"] = ("lookup-unwrap scan with a frozen, re-validated exception table; taint of model-derived indexes; constant/forms check of the quantiser; error-discipline analysis",
    "Decides structural necessary conditions of totality: no unguarded unwrap/index of a data-dependent lookup in any trainer function or closure, "
    "model-derived indexes sanitised (R06.4), quantiser constants and shared non-zero multiplier before every to_int_unchecked, every fallible call "
    "propagated. liblinear and numeric conversions are not decided.", "DESIGN.md §4 C11")
CLAIMED["C12"] = ("finite-domain abstract interpretation of the tag-collection and default-tag loops, index-form agreement of the three stores",
    "Complete decision of the distinct-once clause over (tag present, already seen), of the slot/candidate agreement (shared with C06) and of the default-tag "
    "insertion tables; structural decision that bias and both weight stores use class_offset + label with one offset variable and one n_class. "
    "Equality of stored scores with the classifier is not decided.", "DESIGN.md §4 C12")
CLAIMED["C08"] = ("kill sets + interprocedural reads-before-kill dataflow, who-may-write scan, deep interior-mutability type walk, type-level witnesses (Send/Sync, E0597)",
    "History clause: every update overwrites every field (shared with C05) and prediction reads no field left by an earlier use before overwriting it "
    "(complete over all paths, through callee summaries). Schedule clause: complete modulo trusted crates - no UnsafeCell reachable from Predictor, "
    "shared-reference-only call graph, no mutable statics/thread-locals, Send+Sync witness; hence results are functions of (*self,*sentence). "
    "Output equality as values is not decided.", "DESIGN.md §4 C08")
CLAIMED["C15"] = ("effect confinement (who-may-call) + API-surface scan + compile-fail witnesses; finite-domain abstract interpretation of the filters' rule tables",
    "Complete decision of the frame clause (filters can only reach boundaries resp. tags; text/types immutable through the public API) and of the "
    "idempotence-by-shape argument (single constant label, no read of boundary contents); complete decision of the wsconst (per type), line-break and "
    "tagger rule tables and index forms. Grapheme segmentation and unchecked-index ranges are not decided here.", "DESIGN.md §4 C15")
CLAIMED["C16"] = ("table extraction by abstract interpretation of the normaliser (complete for that clause), event-order and form rules on the tantivy stream, table agreement across four tools",
    "Complete for the normaliser clause: one push per character, identity default, idempotent 1:1 table (all 96+ entries derived from MIR). "
    "Structural decision of the token-stream pipeline, offsets from the original text, advance() forms, the letter tables of tantivy/predict/evaluate/kytea "
    "and the copy sites. One open known finding (NUL in tantivy input).", "DESIGN.md §4 C16")
CLAIMED["C19"] = ("frame analysis (written/read sets), finite decision of the constructor gate, compile-fail witness, tool codec/order/error-discipline rules",
    "Complete decision of the frame clause of replace_dictionary/dictionary and of the constructor gate (Ok iff length equality; private fields; tool uses new); "
    "structural decision of the dump/replace codec agreement (same flatten type, separator, i32) and tool order; every Result propagated. "
    "csv quoting and byte identity are not decided.", "DESIGN.md §4 C19")
CLAIMED["C14"] = ("writer/reader sequence agreement derived by abstract interpretation of every hand-written Encode/Decode pair; derive-symmetry table; compile-fail witness",
    "Decides the structural necessary conditions of the predictor codec: per path the ordered wire-type and field sequences of encode and decode agree for all seven "
    "hand-written pairs (incl. Option/nested payload nesting and per-element loop sequences), automata use serialize/deserialize_unchecked of one type on the decoded "
    "bytes, remainder = data[consumed..], fixed vectors go through trim/From, single bincode configuration, deserialisation is unsafe-only. "
    "Behavioural equality is not decided.", "DESIGN.md §4 C14")
CLAIMED["C17"] = ("error-discipline + who-may-call (I/O) analysis with must-read summaries; linear forms, kind/role flow and decision tables of the converter",
    "Truncation clause: every read Result propagated, input consumed only through read_exact helpers, the two EOF-tolerant calls always followed by a helper read "
    "(interprocedural must-read). Conversion clause (structural): letter table incl. 0x04 skip / error arm, weight slice forms per kind, Model::new argument flow, "
    "dictionary offsets/roles/membership bit/bucket/record layout, bias. Trie walk and malformed-file panics are not decided.", "DESIGN.md §4 C17")
CLAIMED["C18"] = ("unsafe-operation inventory against a frozen obligation table; obligations re-derived as linear forms / pairing / who-may-call rules on the MIR",
    "Every unsafe operation of the workspace is inventoried (new or removed operations are reported) and its recorded precondition argument is re-derived: "
    "byte->char map sizing/filling and argument provenance, pattern/weight parallel arrays, state vector sizing/index forms, token-id provenance, wsconst ranges, "
    "UTF-8 validity of the as_mut_vec region (complete), to_int_unchecked guards, unsafe-only deserialisation, non-empty sentence. The accumulated-offset sites of two "
    "filters and daachorse's match contract are assumptions, listed in the evidence.", "DESIGN.md §4 C18")
CLAIMED["C13"] = ("configuration matrix: the real build type-checks all 33 feature configurations under the exporter; per-function canonical MIR fingerprints; per-feature influence confinement",
    "Complete (by bit-identity of the compiler's MIR) for: `std` cannot change any result; `tag-prediction` cannot change boundary scoring; `charwise-pma`, "
    "`cache-type-score`, `fix-weight-length`, `portable-simd` are confined to their declared scorer/weight-vector functions. Inside the influence sets only twin forms "
    "are checked; equivalence of the alternative algorithms (table vs automaton, SIMD vs scalar) is numeric and not decided.", "DESIGN.md §4 C13")
NOT_YET = {}

def main():
    props = [json.loads(l) for l in open(os.path.join(HERE, "properties.jsonl"))]
    checks = []
    na = []
    for p in props:
        pid = p["id"]
        if pid in CLAIMED:
            tech, text, ref = CLAIMED[pid]
            mod = importlib.import_module("vplib.rules." + pid.lower())
            note = "Not decided: " + "; ".join(getattr(mod, "NOT_DECIDED", [])) + \
                   ". Trusted base: rustc front end/MIR construction, daachorse, bincode derive, liblinear, csv, " \
                   "unicode-segmentation, zstd, clap, tantivy, hashbrown, alloc/core. examples/ (wasm, embedded) cannot be built offline and are not analysed. " \
                   "The rule set also contains rules added after independently seeded changes were missed, and rules borrowed from related properties where they are " \
                   "necessary conditions of this one (DESIGN.md §8.4-8.6 lists them with the change each one catches); helper functions introduced after the " \
                   "confirmed tree are inlined, private renames are resolved and iterator pipelines desugared before the rules run (vplib/inline.py, desugar.py). " \
                   "quick = workspace configuration + the single-feature-off configurations of crate vaporetto in which this property's anchors compile different code " \
                   "(the pinned suite builds default features only); thorough = all further feature configurations (DESIGN.md §8.2)."
            checks.append({
                "property_id": pid,
                "quick_cmd": "./vcheck %s --tier quick" % pid,
                "thorough_cmd": "./vcheck %s --tier thorough" % pid,
                "evidence_file": "/verif/evidence/%s.json" % pid,
                "replay_cmd_template": "./vcheck %s --explain {path}" % pid,
                "engine": "vpx+vplib",
                "level_claimed": {"category": "other", "text": text, "design_ref": ref},
                "level_note": note,
                "technique": "static analysis: " + tech,
            })
        else:
            na.append({"property_id": pid, "reason": NOT_YET.get(pid, "static rules for this property are not built yet in this session; no claim is made (no substitute technique is used)")})
    m = {
        "version": 1,
        "setup_cmd": "./setup.sh",
        "hooks": {"guard": "vaporetto_verif", "enable": "none needed: the checks analyse the unmodified sources (no instrumentation, no cfg in /repo)",
                  "baseline_off_cmd": "cd /repo && cargo test --workspace --no-fail-fast --offline", "source_commits": [], "add_only": True},
        "engines": [
            {"name": "vpx", "path": "/verif/vpx", "serves_properties": sorted(CLAIMED), "kind_free_text": "rustc_private driver exporting items + MIR of every workspace crate as JSON (RUSTC_WORKSPACE_WRAPPER under cargo +nightly check)"},
            {"name": "vplib", "path": "/verif/vplib", "serves_properties": sorted(CLAIMED), "kind_free_text": "Python rule engines over the exported facts: CFG/dominators, finite-domain abstract interpreter (FDAI), kill sets with call summaries, linear forms, table/twin agreement"},
        ],
        "checks": checks,
        "not_applicable": na,
        "notes": "Static analysis only. Every check re-extracts facts from /repo's current working tree (digest-keyed cache). Known findings: /verif/known_findings.jsonl.",
    }
    with open(os.path.join(HERE, "MANIFEST.json"), "w") as f:
        json.dump(m, f, indent=1, ensure_ascii=False)
    print("MANIFEST.json: %d checks, %d not_applicable" % (len(checks), len(na)))

if __name__ == "__main__":
    main()
