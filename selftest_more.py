# further mutants (exec'd by selftest.py; uses mut(), S, PR)
TR = "vaporetto/src/trainer.rs"
TT = "vaporetto/src/tag_trainer.rs"
MO = "vaporetto/src/model.rs"
KY = "vaporetto/src/kytea_model.rs"
UT = "vaporetto/src/utils.rs"
CTS = "vaporetto/src/char_scorer/boundary_tag_scorer.rs"
TTS = "vaporetto/src/type_scorer/boundary_tag_scorer.rs"
CBS = "vaporetto/src/char_scorer/boundary_scorer.rs"
WS = "vaporetto_rules/src/sentence_filters/kytea_wsconst.rs"
LB = "vaporetto_rules/src/sentence_filters/split_linebreaks.rs"
PT = "vaporetto_rules/src/sentence_filters/pattern_match_tagger.rs"
FW = "vaporetto_rules/src/string_filters/kytea_fullwidth.rs"
TV = "vaporetto_tantivy/src/lib.rs"
PM = "predict/src/main.rs"
EM = "evaluate/src/main.rs"
MM = "manipulate_model/src/main.rs"

# ---- C03
mut("c03-tagset", "C03", S, "                            match b {\n                                b' ' | b'\\\\' | b'/' => {", "                            match b {\n                                b' ' | b'\\\\' => {", "R03.1:writer:tag[0]:escapes-specials")
mut("c03-escchar", "C03", S, "                        b' ' | b'\\\\' | b'/' => {\n                            buf.push(b'\\\\');\n                        }\n                        _ => (),\n                    }\n                    buf.push(b);\n                }\n                let ts", "                        b' ' | b'\\\\' | b'/' => {\n                            buf.push(b'/');\n                        }\n                        _ => (),\n                    }\n                    buf.push(b);\n                }\n                let ts", "R03.1:writer:surface[0]:escape-char")
mut("c03-twice", "C03", S, "                        _ => (),\n                    }\n                    buf.push(b);\n                }\n                let ts", "                        _ => (),\n                    }\n                    buf.push(b);\n                    if b == b'\\\\' { buf.push(b); }\n                }\n                let ts", "R03.2:writer:surface[0]:unit-once-last")
# ---- C04
mut("c04-swap", "C04", S, "                    CharacterBoundary::NotWordBoundary => '-',\n                    CharacterBoundary::WordBoundary => '|',\n                    CharacterBoundary::Unknown => ' ',\n                });\n                buf.push(c);\n            }\n        }", "                    CharacterBoundary::NotWordBoundary => '|',\n                    CharacterBoundary::WordBoundary => '-',\n                    CharacterBoundary::Unknown => ' ',\n                });\n                buf.push(c);\n            }\n        }", "R04.2:")
mut("c04-pipe", "C04", S, "matches!(c, '\\\\' | ' ' | '-' | '|' | '/')", "matches!(c, '\\\\' | ' ' | '-' | '/')", "R04.1:writer:tag[0]:escapes-specials")
# ---- C06
mut("c06-ge", "C06", PR, "if s > max_score {", "if s >= max_score {", "R06.1:strict-greater")
mut("c06-gt2", "C06", PR, "if tag_cands.len() >= 2 {", "if tag_cands.len() > 2 {", "R06.2:")
mut("c06-early", "C06", PR, "        sentence.tag_scores.clear();\n        if self.tag_scores {\n            sentence.tag_scores.resize(sentence.len(), None);\n        }\n        if self.data.n_tags == 0 {\n            return;\n        }", "        if self.data.n_tags == 0 {\n            return;\n        }\n        sentence.tag_scores.clear();\n        if self.tag_scores {\n            sentence.tag_scores.resize(sentence.len(), None);\n        }", "R06.6:")
mut("c06-window-rows", "C06", CTS, "        let mut tag_weight =\n            vec![vec![SerializableHashMap::default(); n_positions]; tag_ngram_model.len()];", "        let _ = n_positions;\n        let mut tag_weight =\n            vec![vec![SerializableHashMap::default(); usize::from(window_size) + 1]; tag_ngram_model.len()];", "R06.4:")
# ---- C07
mut("c07-prefix", "C07", MO, "if !slice.starts_with(MODEL_MAGIC) {", "if !slice.starts_with(&MODEL_MAGIC[..18]) {", "R07.")
mut("c07-ok", "C07", MO, "wtr.write_all(MODEL_MAGIC)?;", "wtr.write_all(MODEL_MAGIC).ok();", "R07.4:")
mut("c07-rest", "C07", MO, "Ok((Self(data), &slice[MODEL_MAGIC.len() + size..]))", "Ok((Self(data), &slice[size..]))", "R07.")
mut("c07-config", "C07", MO, "        wtr.write_all(MODEL_MAGIC)?;\n        let config = bincode::config::standard();", "        wtr.write_all(MODEL_MAGIC)?;\n        let config = bincode::config::standard().with_fixed_int_encoding();", "R07.2:")
mut("c07-unguarded", "C07", MO, "if !slice.starts_with(MODEL_MAGIC) {", "if slice[..MODEL_MAGIC.len()] != *MODEL_MAGIC {", "R07.5:")
# ---- C08
mut("c08-typestates", "C08", TTS, "        sentence.type_pma_states.clear();\n        sentence.type_pma_states.resize(sentence.len(), u32::MAX);", "        sentence.type_pma_states.resize(sentence.len(), u32::MAX);", "R06.3:")
mut("c08-tagscores", "C08", PR, "        sentence.tag_scores.clear();\n        if self.tag_scores {", "        if self.tag_scores {", "R08.2:predict_tags:tag_scores")
mut("c08-n_tags-read", "C08", PR, "        sentence.score_padding = WEIGHT_FIXED_LEN - 1;\n        sentence.boundary_scores.clear();", "        sentence.score_padding = WEIGHT_FIXED_LEN - 1 + 0 * sentence.n_tags;\n        sentence.boundary_scores.clear();", "R08.2:predict:n_tags")
# ---- C09
mut("c09-swapwin", "C09", TR, "            bias,\n            self.char_window_size,\n            self.type_window_size,\n            tag_models,", "            bias,\n            self.type_window_size,\n            self.char_window_size,\n            tag_models,", "R09.1:train:Model::new:windows")
mut("c09-right", "C09", TR, "DictionaryWordPosition::Right => weights.2 = weight,", "DictionaryWordPosition::Right => weights.1 = weight,", "R09.3:train:Right")
mut("c09-plus1", "C09", TR, "let mut weights = vec![0; usize::from(self.type_window_size) * 2 - len + 1];", "let mut weights = vec![0; usize::from(self.type_window_size) * 2 - len + 2];", "R09.2:")
mut("c09-d6", "C09", TR, "isize::from(self.type_window_size) - isize::try_from(len)? - rel_position,", "isize::from(self.char_window_size) - isize::try_from(len)? - rel_position,", "R09.1:train:type-arm")
# ---- C10
mut("c10-unknown", "C10", TR, "            if b == CharacterBoundary::Unknown {\n                continue;\n            }\n", "", "R10.1:label(Unknown)")
mut("c10-guard", "C10", TR, "                if end != sentence.len() {\n                    examples[end - 1]", "                if end != 0 {\n                    examples[end - 1]", "R10.3:dict:right:guard")
mut("c10-window", "C10", TR, "                for j in (i + 1).saturating_sub(self.type_window_size.into())\n                    ..(i + 1 + usize::from(self.type_window_size))", "                for j in (i + 1).saturating_sub(self.type_window_size.into())\n                    ..(i + 2 + usize::from(self.type_window_size))", "R10.3:type:jrange")
# ---- C11
mut("c11-nozero", "C11", TR, "        if quantize_multiplier == 0. {\n            return Err(VaporettoError::invalid_model(\"all weights are zero\"));\n        }\n", "", "R11.3:train:multiplier-nonzero-guard")
mut("c11-depth", "C11", TT, "let quantize_multiplier = weight_max / f64::from((1 << (QUANTIZE_BIT_DEPTH - 1)) - 1);", "let quantize_multiplier = weight_max / f64::from((1 << (QUANTIZE_BIT_DEPTH - 2)) - 1);", "R11.3:train_tag:quotient-by-multiplier")
mut("c11-unwrap", "C11", TT, "            let model = builder\n                .build_model()\n                .map_err(|e| VaporettoError::invalid_model(e.to_string()))?;", "            let model = builder\n                .build_model()\n                .unwrap();", "R11.")
mut("c11-d8", "C11", TR, "                .ok_or_else(|| {\n                    VaporettoError::invalid_model(\"the training data contains no word boundary\")\n                })?,", "                .unwrap(),", "R11.1:trainer::Trainer::train:position")
# ---- C12
mut("c12-classidx", "C12", TT, "                bias[class_offset + usize::try_from(cls).unwrap()] = unsafe {", "                bias[class_offset + i] = unsafe {", "R12.4:store:bias")
mut("c12-nocontains", "C12", TT, "                    if !tag_ids.contains_key(tag.as_ref()) {\n                        let new_id = tag_ids.len();\n                        tag_ids.insert(tag.as_ref(), new_id);\n                        tags.push(tag.to_string());\n                    }", "                    {\n                        let new_id = tag_ids.len();\n                        tag_ids.insert(tag.as_ref(), new_id);\n                        tags.push(tag.to_string());\n                    }", "R12.1:")
# ---- C13
mut("c13-stdthreshold", "C13", PR, "            if *s > 0 {\n                *b = CharacterBoundary::WordBoundary;", "            #[cfg(feature = \"std\")]\n            let t = 0;\n            #[cfg(not(feature = \"std\"))]\n            let t = 1;\n            if *s > t {\n                *b = CharacterBoundary::WordBoundary;", "R13.2:std:")
mut("c13-fixedpos", "C13", PR, "                for (y, x) in ys[pos as usize..pos as usize + WEIGHT_FIXED_LEN]", "                for (y, x) in ys[pos as usize + 1..pos as usize + 1 + WEIGHT_FIXED_LEN]", "R13.3:add_score:Fixed-start")
mut("c13-nostd-break", "C13", PR, "use core::ops::AddAssign;\n", "use core::ops::AddAssign;\n#[allow(unused_imports)]\nuse std::vec::Vec as StdVec;\n", "R13.1:builds:")
# ---- C14
mut("c14-swaplines", "C14", CTS, "        Encode::encode(&self.weights, encoder)?;\n        Encode::encode(&self.tag_weight, encoder)?;", "        Encode::encode(&self.tag_weight, encoder)?;\n        Encode::encode(&self.weights, encoder)?;", "R14.1:CharScorerBoundaryTag")
mut("c14-ntags", "C14", PR, "        #[cfg(feature = \"tag-prediction\")]\n        Encode::encode(&self.tag_predictor, encoder)?;\n        #[cfg(feature = \"tag-prediction\")]\n        Encode::encode(&self.n_tags, encoder)?;", "        #[cfg(feature = \"tag-prediction\")]\n        Encode::encode(&self.n_tags, encoder)?;\n        #[cfg(feature = \"tag-prediction\")]\n        Encode::encode(&self.tag_predictor, encoder)?;", "R14.1:PredictorData")
mut("c14-rest", "C14", PR, "            &data[size..],\n        ))", "            &data[size + 0 * data.len()..data.len()],\n        ))", "R14.3:")
# ---- C15
mut("c15-or", "C15", WS, "if *sentence.char_types().get_unchecked(i) == t_flag\n                    && *sentence.char_types().get_unchecked(i + 1) == t_flag", "if *sentence.char_types().get_unchecked(i) == t_flag\n                    || *sentence.char_types().get_unchecked(i + 1) == t_flag", "R15.3:wsconst(")
mut("c15-curonly", "C15", LB, "('\\r' | '\\n', _) | (_, '\\r' | '\\n') => {", "(_, '\\r' | '\\n') => {", "R15.3:linebreak:table")
mut("c15-overwrite", "C15", PT, "                if tag_ref.is_none() {\n                    if let Some(tags)", "                if tag_ref.is_none() || j == 0 {\n                    if let Some(tags)", "R15.3:tagger:queue-only-absent-with-rule")
mut("c15-reads-boundaries", "C15", WS, "        let len = sentence.char_types().len() - 1;", "        let len = sentence.char_types().len() - 1;\n        if sentence.boundaries().first() == Some(&CharacterBoundary::Unknown) { return; }", "R15.2:wsconst:no-boundary-reads")
# ---- C16
mut("c16-idem", "C16", FW, "                'a' => 'ａ',", "                'a' => 'ａ',\n                '。' => '.',", "R16.1:idempotent")
mut("c16-lblast", "C16", TV, "    let mut postfilters: Vec<Arc<dyn SentenceFilter>> = vec![Arc::new(SplitLinebreaksFilter)];", "    let mut postfilters: Vec<Arc<dyn SentenceFilter>> = vec![];", "R16.2:linebreak-filter-first")
mut("c16-pos2", "C16", TV, "            self.position += 1;", "            self.position += 2;", "R16.2:advance:forms")
mut("c16-normoffsets", "C16", TV, "        let mut char_indices = text.char_indices();", "        let mut char_indices = s.as_raw_text().char_indices();", "R16.2:offsets-from-original-text")
mut("c16-letter", "C16", TV, "            'H' => Arc::new(KyteaWsConstFilter::new(CharacterType::Hiragana)),\n            'T' => Arc::new(KyteaWsConstFilter::new(CharacterType::Katakana)),", "            'H' => Arc::new(KyteaWsConstFilter::new(CharacterType::Katakana)),\n            'T' => Arc::new(KyteaWsConstFilter::new(CharacterType::Hiragana)),", "R16.3:tantivy:letters")
# ---- C17
mut("c17-unwrap", "C17", KY, "        let do_ws = utils::read_u8(&mut rdr)? != 0;", "        let do_ws = utils::read_u8(&mut rdr).unwrap() != 0;", "R17.1:")
mut("c17-read", "C17", UT, "    let mut buf = [0; 2];\n    rdr.read_exact(&mut buf)?;\n    Ok(u16::from_le_bytes(buf))", "    let mut buf = [0; 2];\n    let _ = rdr.read(&mut buf)?;\n    Ok(u16::from_le_bytes(buf))", "R17.1:io:read_u16:read")
mut("c17-swapHT", "C17", KY, "                    b'H' => CharacterType::Hiragana as u8,\n                    b'T' => CharacterType::Katakana as u8,", "                    b'H' => CharacterType::Katakana as u8,\n                    b'T' => CharacterType::Hiragana as u8,", "R17.2:letters")
mut("c17-left2", "C17", KY, "dict_weight.left += i32::from(feature_lookup.dict_vec[offset]);", "dict_weight.left += i32::from(feature_lookup.dict_vec[offset + 2]);", "R17.4:")
mut("c17-typew", "C17", KY, "let weight_size = config.type_w as usize * 2 - type_ngram.len() + 1;", "let weight_size = config.char_w as usize * 2 - type_ngram.len() + 1;", "R17.3:")
# ---- C18
mut("c18-resize", "C18", TTS, "sentence.type_pma_states.resize(sentence.len(), u32::MAX);", "sentence.type_pma_states.resize(sentence.len() - 1, u32::MAX);", "R06.3:TypeScorerBoundaryTag:states-prepared")
mut("c18-end", "C18", CTS, "unsafe { *sentence.char_pma_states.get_unchecked_mut(end - 1) = m.value() };", "unsafe { *sentence.char_pma_states.get_unchecked_mut(end) = m.value() };", "R18.2:STATES:CharScorerBoundaryTag:write-index")
mut("c18-wsconstlen", "C18", WS, "        let len = sentence.char_types().len() - 1;", "        let len = sentence.char_types().len();", "R15.3:wsconst(")
mut("c18-newunsafe", "C18", S, "    pub fn char_types(&self) -> &[u8] {\n        &self.char_types\n    }", "    pub fn char_types(&self) -> &[u8] {\n        unsafe { self.char_types.get_unchecked(..) }\n    }", "R18.2:inventory:")
mut("c18-strpos", "C18", S, "        str_to_char_pos.resize(pos + 1, 0);\n        for (i, &pos) in char_to_str_pos.iter().enumerate() {\n            str_to_char_pos[pos] = i;\n        }\n        boundaries.resize(", "        str_to_char_pos.resize(pos, 0);\n        for (i, &pos) in char_to_str_pos.iter().enumerate().take(char_types.len()) {\n            str_to_char_pos[pos] = i;\n        }\n        boundaries.resize(", "R18.2:STRPOS:parse_raw")
# ---- C19
mut("c19-join", "C19", MM, "weights: str_weights.join(\" \"),", "weights: str_weights.join(\",\"),", "R19.3:tool:join-separator==split-separator")
mut("c19-bias", "C19", MO, "        self.0.dict_model = DictModel::new(dict);", "        self.0.dict_model = DictModel::new(dict);\n        self.0.bias = 0;", "R19.1:replace_dictionary:writes-only-dictionary")
mut("c19-lencheck", "C19", "vaporetto/src/dict_model.rs", "if weights.len() != word.chars().count() + 1 {", "if weights.len() > word.chars().count() + 1 {", "R19.2:new:ok-only-on-length-equality")
# ---- C20
mut("c20-fpfn", "C20", EM, "                    } else if h == CharacterBoundary::WordBoundary {\n                        n_fp += 1;\n                    } else {\n                        n_fn += 1;", "                    } else if h == CharacterBoundary::WordBoundary {\n                        n_fn += 1;\n                    } else {\n                        n_fp += 1;", "R20.4:char(")
mut("c20-filltags-first", "C20", PM, "                predictor.predict(&mut s);\n                post_filters.iter().for_each(|filter| filter.filter(&mut s));\n                if args.predict_tags {\n                    s.fill_tags();\n                }\n                s.write_tokenized_text(&mut buf);", "                predictor.predict(&mut s);\n                if args.predict_tags {\n                    s.fill_tags();\n                }\n                post_filters.iter().for_each(|filter| filter.filter(&mut s));\n                s.write_tokenized_text(&mut buf);", "R20.3:no-norm:pipeline")
mut("c20-recall", "C20", EM, "            let recall = f64::from(n_tp) / f64::from(n_tp + n_fn);", "            let recall = f64::from(n_tp) / f64::from(n_tp + n_fp);", "R20.4:formula:char")
mut("c20-d10", "C20", PM, "                out.write_all(buf.as_bytes())?;\n                out.write_all(b\"\\n\")?;\n                if args.scores {\n                    print_scores(&s, &mut out)?;\n                }\n                if args.tag_scores {\n                    print_tag_scores(&s, &mut out)?;\n                }\n            } else {\n                out.write_all(b\"\\n\")?;\n            }\n            if is_tty {\n                out.flush()?;\n            }\n        }\n    } else {", "                out.write_all(buf.as_bytes())?;\n                if args.scores {\n                    print_scores(&s, &mut out)?;\n                }\n                out.write_all(b\"\\n\")?;\n                if args.tag_scores {\n                    print_tag_scores(&s, &mut out)?;\n                }\n            } else {\n                out.write_all(b\"\\n\")?;\n            }\n            if is_tty {\n                out.flush()?;\n            }\n        }\n    } else {", "R20.1:")
mut("c20-norequires", "C20", PM, "    #[arg(long, requires = \"predict_tags\")]\n    tag_scores: bool,", "    #[arg(long)]\n    tag_scores: bool,", "R20.2:")
