//! E11 type-level witnesses for the vaporetto checks.  Nothing of vaporetto is *run*: compile-pass
//! twins are `no_run` (rustdoc only type-checks and links them), compile-fail witnesses carry the
//! expected error code and differ from their twin only in the offending line.

/// R08.4(a): the predictor can be shared between threads, a sentence can be sent to a thread.
/// ```no_run
/// fn send_sync<T: Send + Sync>() {}
/// fn send<T: Send>() {}
/// send_sync::<vaporetto::Predictor>();
/// send_sync::<vaporetto::Model>();
/// send::<vaporetto::Sentence<'static, 'static>>();
/// ```
pub struct W084SendSync;

/// R08.5: a sentence predicted by a predictor cannot outlive that predictor (fill_tags reads it).
/// ```compile_fail,E0597
/// use vaporetto::{Model, Predictor, Sentence};
/// fn model() -> Model { unimplemented!() }
/// let mut s = Sentence::from_raw("a").unwrap();
/// {
///     let p = Predictor::new(model(), true).unwrap();
///     p.predict(&mut s);
/// } // `p` dropped here while still borrowed by `s`
/// s.fill_tags();
/// ```
/// twin (compiles): the predictor outlives the sentence's use
/// ```no_run
/// use vaporetto::{Model, Predictor, Sentence};
/// fn model() -> Model { unimplemented!() }
/// let mut s = Sentence::from_raw("a").unwrap();
/// let p = Predictor::new(model(), true).unwrap();
/// {
///     p.predict(&mut s);
/// }
/// s.fill_tags();
/// ```
pub struct W085Lifetime;

/// R14.6: deserialising a predictor is an unsafe operation.
/// ```compile_fail,E0133
/// let data: Vec<u8> = vec![];
/// let _ = vaporetto::Predictor::deserialize_from_slice_unchecked(&data);
/// ```
/// twin (compiles):
/// ```no_run
/// let data: Vec<u8> = vec![];
/// let _ = unsafe { vaporetto::Predictor::deserialize_from_slice_unchecked(&data) };
/// ```
pub struct W146UnsafeDeserialize;

/// R15.1: the public API hands out `&mut` only to boundaries and tags; text and character types are read-only.
/// ```compile_fail,E0308
/// let mut s = vaporetto::Sentence::from_raw("ab").unwrap();
/// let t: &mut [u8] = s.char_types(); // `char_types()` returns a shared slice
/// ```
/// ```compile_fail,E0308
/// let mut s = vaporetto::Sentence::from_raw("ab").unwrap();
/// let t: &mut str = s.as_raw_text();
/// ```
/// twin (compiles): boundaries and tags are mutable
/// ```no_run
/// let mut s = vaporetto::Sentence::from_raw("ab").unwrap();
/// let _b: &mut [vaporetto::CharacterBoundary] = s.boundaries_mut();
/// let _t = s.tags_mut();
/// let _c: &[u8] = s.char_types();
/// let _x: &str = s.as_raw_text();
/// ```
pub struct W151ReadOnlyText;

/// R19.2: a dictionary record can only be built through the checking constructor.
/// ```compile_fail,E0451
/// let _r = vaporetto::WordWeightRecord { word: String::new(), weights: vec![], comment: String::new() };
/// ```
/// twin (compiles):
/// ```no_run
/// let _r = vaporetto::WordWeightRecord::new(String::new(), vec![0], String::new());
/// ```
pub struct W192RecordFields;
