#!/usr/bin/env python3
"""Writes /verif/baseline_fns.txt: the function paths of the tree on which the rules were confirmed (all configurations).
Run by hand after a confirmed change of /repo's function set (e.g. a fix: commit that adds a helper); never at check time."""
import os
import re
import sys
sys.path.insert(0, os.path.dirname(os.path.abspath(__file__)))
from vplib import facts, inline

names = set()
sig = {}
adts = {}
consts = {}
calls = {}
present = {}
MEMBERS = {"vaporetto", "vaporetto_rules", "vaporetto_tantivy", "predict", "train", "evaluate", "manipulate_model", "convert_kytea_model"}
cfgs = ["W"] + list(facts.all_feature_configs(with_simd=True))
for c in cfgs:
    try:
        d = facts.extract(c)
    except Exception as e:
        print("skip", c, e)
        continue
    import glob, json
    for f in sorted(glob.glob(os.path.join(d, "*.json"))):
        j = json.load(open(f))
        sigs = {f["path"]: "%s -> %s" % (", ".join(f["inputs"]), f["output"]) for f in j["fns"]}
        if j["crate"] in MEMBERS:
            for a in j["adts"]:
                adts.setdefault(a["path"], [[v["name"], [[f["name"], f["ty"]] for f in v["fields"]]] for v in a["variants"]])
            for c_ in j["consts"]:
                consts.setdefault(c_["path"], [c_["ty"], json.dumps(c_.get("value"), sort_keys=True)])
        for b in j["bodies"]:
            if j["crate"] in MEMBERS:
                cs = calls.setdefault(b["fn"], set())
                for bl in b["blocks"]:
                    tt = bl["term"]
                    if tt["k"] == "call" and "indirect" not in tt["callee"]:
                        cn = tt["callee"].get("resolved") or tt["callee"]["path"]
                        mm = re.search(r"core::iter::traits::iterator::Iterator>?::(try_fold|fold|for_each)$", cn)
                        cs.add("core::iter::traits::iterator::Iterator::" + mm.group(1) if mm else cn)
            if b["promoted"] is None:
                names.add(b["fn"])
                present.setdefault(b["fn"], set()).add(cfgs.index(c))
                if b["fn"] in sigs:
                    sig[b["fn"]] = sigs[b["fn"]]
with open(inline.BASELINE, "w") as f:
    f.write("# function paths of the confirmed tree (commit %s), union over %d configurations\n" % (os.popen("git -C /repo rev-parse --short HEAD").read().strip(), len(cfgs)))
    f.write("#configs\t" + "|".join(cfgs) + "\n")
    for n in sorted(names):
        f.write(n + "\t" + sig.get(n, "") + "\t" + "%x" % sum(1 << i for i in present.get(n, ())) + "\n")
print(len(names), "functions")

import json as _json
with open(os.path.join(os.path.dirname(inline.BASELINE), "baseline_items.json"), "w") as f:
    ADAPT = ("core::option::Option::map", "core::result::Result::map", "core::option::Option::map_or", "core::option::Option::and_then",
             "core::iter::traits::iterator::Iterator::fold", "core::iter::traits::iterator::Iterator::try_fold",
             "core::iter::traits::iterator::Iterator::for_each", "bool::then", "core::option::Option::ok_or_else")
    _json.dump({"adts": adts, "consts": consts, "adaptor_calls": {k: sorted(c for c in v if c in ADAPT) for k, v in calls.items() if any(c in ADAPT for c in v)}}, f, indent=0, sort_keys=True, ensure_ascii=False)
print(len(adts), "adts", len(consts), "consts")
