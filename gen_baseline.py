#!/usr/bin/env python3
"""Writes /verif/baseline_fns.txt: the function paths of the tree on which the rules were confirmed (all configurations).
Run by hand after a confirmed change of /repo's function set (e.g. a fix: commit that adds a helper); never at check time."""
import os
import sys
sys.path.insert(0, os.path.dirname(os.path.abspath(__file__)))
from vplib import facts, inline

names = set()
sig = {}
cfgs = ["W"] + list(facts.all_feature_configs(with_simd=True))
for c in cfgs:
    try:
        d = facts.extract(c)
    except Exception as e:
        print("skip", c, e)
        continue
    import glob, json
    for f in sorted(glob.glob(os.path.join(d, "*.json"))):
        j = json.load(open(f))
        sigs = {f["path"]: "%s -> %s" % (", ".join(f["inputs"]), f["output"]) for f in j["fns"]}
        for b in j["bodies"]:
            if b["promoted"] is None:
                names.add(b["fn"])
                if b["fn"] in sigs:
                    sig[b["fn"]] = sigs[b["fn"]]
with open(inline.BASELINE, "w") as f:
    f.write("# function paths of the confirmed tree (commit %s), union over %d configurations\n" % (os.popen("git -C /repo rev-parse --short HEAD").read().strip(), len(cfgs)))
    for n in sorted(names):
        f.write(n + ("\t" + sig[n] if n in sig else "") + "\n")
print(len(names), "functions")
